//go:build verif && verifl2

package comet

// C17 — a storage directory is owned by at most one open store at a time
// (histmc over Open / Close / failing Open / foreign LOCK / use-after-close, and
// schedmc scenarios registered in zz_verif_c11.go).

import (
	"fmt"
	"path/filepath"
	"strings"

	vos "github.com/wizenheimer/comet/internal/vrt/vos"
)

var vC17Faults = []struct {
	kind string
	nth  int
	name string
}{
	{"mkdirall", 1, "MkdirAll"},
	{"openfile", 1, "OpenFile(LOCK)"},
	{"writestring", 1, "WriteString(pid)"},
	{"readdir", 1, "ReadDir#1(segment counter)"},
	{"readdir", 2, "ReadDir#2(segment listing)"},
	// the process runs out of file descriptors: the first n calls that need one succeed,
	// EVERY later one fails (EMFILE) - including whatever the clean-up of the failed open
	// wants to open - until the open has returned
	{"fd", 1, "descriptors exhausted after 1"},
	{"fd", 2, "descriptors exhausted after 2"},
	{"fd", 3, "descriptors exhausted after 3"},
}

type vC17Sys struct {
	c       *vCtx
	cfgS    string
	env     *vStoreEnv
	h       [3]*PersistentHybridIndex
	open    [3]bool
	owner   int // -1 none, 0..2 handle, 9 foreign
	nextID  uint32
	planted bool // the directory holds files the store did not write in this history
}

func (s *vC17Sys) Reset() {
	if s.env != nil {
		s.env.end()
	}
	s.env = vStoreBegin(nil, nil)
	vos.ResetAliases()
	s.h = [3]*PersistentHybridIndex{}
	s.open = [3]bool{}
	s.owner = -1
	s.nextID = 1
	s.planted = false
}

// cfg: how the next open names and configures the store. variant 0 = the directory by its
// own name with vector + text + metadata templates; 1 = another subset of templates (vector
// only); 2 = through an alias of the directory (what a symbolic link to it is on disk).
func (s *vC17Sys) cfg(variant int) *StorageConfig {
	tm := "vtm"
	if variant == 1 {
		tm = "v"
	}
	sc := vStoreCfg{Mem: 2, Thr: 1, Comp: 5, Tmpl: tm, Vec: "flat"}.config()
	if variant == 2 {
		vos.Alias(vC17Alias, vStoreDir)
		sc.BaseDir = vC17Alias
	}
	return sc
}

const vC17Alias = "/alias-of-the-store-directory"

func (s *vC17Sys) Enabled() []vOp {
	if s.env.dead != "" {
		return nil
	}
	var ops []vOp
	// the lowest slot that does not hold an open handle receives the next open
	slot := -1
	for i := 0; i < 3; i++ {
		if !s.open[i] {
			slot = i
			break
		}
	}
	if slot >= 0 {
		ops = append(ops, vOp{K: "Open", A: slot}, vOp{K: "Open", A: slot, C: 1}, vOp{K: "Open", A: slot, C: 2})
		for fi := range vC17Faults {
			ops = append(ops, vOp{K: "OpenFault", A: slot, B: fi})
		}
	}
	if s.owner == -1 {
		ops = append(ops, vOp{K: "ForeignLock"})
	}
	if !s.planted {
		// the directory's content is environment too: component files of a segment whose
		// hybrid file is gone (an interrupted segment deletion) and a file of someone else
		ops = append(ops, vOp{K: "Plant"})
	}
	if s.owner == 9 {
		ops = append(ops, vOp{K: "ForeignExit"})
	}
	for i := 0; i < 3; i++ {
		if s.h[i] != nil {
			ops = append(ops, vOp{K: "Close", A: i})
		}
		if s.open[i] {
			ops = append(ops, vOp{K: "AddRotate", A: i})
			// a Close whose final flush fails (the first file creation returns EIO)
			ops = append(ops, vOp{K: "CloseFault", A: i})
		}
	}
	return ops
}

func (s *vC17Sys) Apply(op vOp, hist []vOp, check bool) {
	if s.env.dead != "" {
		return
	}
	h := func() []string { return vHistStrings(append(hist, op)) }
	before := vCanonDir(s.env.fs)
	hadLock := s.env.fs.Exists(vLock())
	switch op.K {
	case "Open", "OpenFault":
		if op.K == "OpenFault" {
			f := vC17Faults[op.B]
			if f.kind == "fd" {
				s.env.fs.ExhaustDescriptorsAfter(f.nth)
			} else {
				s.env.fs.FailOn(f.kind, f.nth)
			}
		}
		st, err := s.env.open(s.cfg(op.C))
		s.env.fs.ClearFaults()
		if s.env.dead != "" {
			break
		}
		wantOK := s.owner == -1 && op.K == "Open"
		if op.K == "OpenFault" && vC17Faults[op.B].kind == "fd" && err == nil {
			// the open needed no more descriptors than were left: an ordinary open
			wantOK = s.owner == -1
		}
		if op.C == 1 && err != nil {
			// opening with another subset of templates may be refused or not; a refusal is a
			// failed open like any other (no lock left behind, directory unchanged)
			wantOK = false
		}
		if err == nil {
			if check && !wantOK {
				cause := fmt.Sprintf("owner=%d", s.owner)
				if op.K == "OpenFault" && vC17Faults[op.B].kind != "fd" {
					cause = "injected-fault-ignored:" + vC17Faults[op.B].name
				}
				s.c.Violation("open-succeeded-but-must-fail", cause, s.cfgS, h(), "OpenPersistentHybridIndex returned a handle")
			}
			s.h[op.A] = st
			s.open[op.A] = true
			if s.owner == -1 {
				s.owner = op.A
			}
		} else {
			if check && wantOK {
				s.c.Violation("open-failed-on-unowned-directory", "", s.cfgS, h(), err.Error())
			}
			after := vCanonDir(s.env.fs)
			// the only tolerated change: the base directory itself may have been created
			if check && after != before {
				cause := "fault:none"
				if op.K == "OpenFault" {
					cause = "fault:" + vC17Faults[op.B].name
				}
				if !hadLock && s.env.fs.Exists(vLock()) {
					cause += ":lock-left-behind"
				}
				if hadLock && !s.env.fs.Exists(vLock()) {
					cause += ":existing-lock-removed"
				}
				s.c.Violation("failed-open-modified-directory", cause, s.cfgS, h(), fmt.Sprintf("before [%s] after [%s]", before, after))
			}
		}
	case "Plant":
		s.planted = true
		for _, n := range []string{"vector_000007.bin.gz", "text_000007.bin.gz", "metadata_000007.bin.gz", "notes.txt"} {
			s.env.fs.WriteFileRaw(filepath.Join(vStoreDir, n), []byte("left over "+n))
		}
	case "ForeignLock":
		s.env.fs.WriteFileRaw(vLock(), []byte("99999\n"))
		s.owner = 9
	case "ForeignExit":
		s.env.fs.RemoveRaw(vLock())
		s.owner = -1
	case "Close":
		var err error
		logStart := len(s.env.fs.Log)
		s.env.do(func() { err = s.h[op.A].Close() })
		if s.env.dead != "" {
			break
		}
		if check {
			if msg := vLockReleasedEarly(s.env.fs.Log[logStart:]); msg != "" {
				s.c.Violation("lock-released-before-close-finished", "", s.cfgS, h(), msg)
			}
		}
		if s.open[op.A] {
			if err != nil {
				if check {
					s.c.Violation("close-failed", "", s.cfgS, h(), err.Error())
				}
			}
			s.open[op.A] = false
			if s.owner == op.A {
				s.owner = -1
				if check && s.env.fs.Exists(vLock()) {
					s.c.Violation("lock-not-released-by-close", "", s.cfgS, h(), "LOCK still present after successful Close")
				}
			}
		} else {
			if check && err == nil {
				s.c.Violation("second-close-succeeded", "", s.cfgS, h(), "Close on a closed handle returned nil")
			}
			if after := vCanonDir(s.env.fs); check && after != before {
				cause := ""
				if hadLock && !s.env.fs.Exists(vLock()) {
					cause = "removed-successors-lock"
				}
				s.c.Violation("second-close-modified-directory", cause, s.cfgS, h(), fmt.Sprintf("before [%s] after [%s]", before, after))
			}
		}
	case "CloseFault":
		var err error
		s.env.fs.FailOn("create", 1)
		s.env.do(func() { err = s.h[op.A].Close() })
		s.env.fs.ClearFaults()
		if s.env.dead != "" {
			break
		}
		// whatever Close answered: either the handle is closed now (then it has given up the
		// directory) or it is still open (then it still owns it); Flush tells which
		var ferr error
		s.env.do(func() { ferr = s.h[op.A].Flush() })
		if s.env.dead != "" {
			break
		}
		stillOpen := ferr == nil
		if err == nil && stillOpen && check {
			s.c.Violation("close-returned-nil-but-handle-usable", "", s.cfgS, h(), "Close returned nil and a later Flush on the handle succeeded")
		}
		if !stillOpen {
			s.open[op.A] = false
			if s.owner == op.A {
				s.owner = -1
			}
		}
	case "AddRotate":
		st := s.h[op.A]
		s.env.do(func() {
			d := vStoreDocs[int(s.nextID)%3]
			st.AddWithID(s.nextID, vCopyVec(d.Vec), d.Text, vCloneMeta(d.Meta))
			st.memtableQueue.Rotate()
		})
		s.nextID++
	}
	if s.env.dead != "" {
		if check {
			s.c.Violation("execution-aborted", strings.SplitN(s.env.dead, ":", 2)[0], s.cfgS, h(), s.env.dead)
		}
		return
	}
	if check {
		s.observe(h())
	}
}

// vLockReleasedEarly: within the file-system operations of one Close, the LOCK must be
// removed only after the handle's last write (its final flush): otherwise another open
// can take the directory while the old handle is still writing segment files.
func vLockReleasedEarly(log []vos.Op) string {
	removed := -1
	for i, op := range log {
		if op.Kind == "remove" && strings.HasSuffix(op.Path, "/LOCK") && removed < 0 {
			removed = i
		}
		if removed >= 0 && i > removed && (op.Kind == "create" || op.Kind == "write") && vSegRe.MatchString(op.Path) {
			return fmt.Sprintf("LOCK was removed at operation %d of Close, but %s %s happened afterwards (operation %d): the directory was unowned while the handle was still writing", removed, op.Kind, op.Path, i)
		}
	}
	return ""
}

// every public method on every closed handle must fail cleanly and change nothing
func (s *vC17Sys) observe(h []string) {
	// ownership invariant: LOCK present iff the model has an owner
	s.c.Evaluations++
	lock := s.env.fs.Exists(vLock())
	if lock != (s.owner != -1) {
		s.c.Violation("lock-file-vs-owner", fmt.Sprintf("lock=%v owner=%d", lock, s.owner), s.cfgS, h, "LOCK presence does not match ownership")
	}
	nOpen := 0
	for i := range s.h {
		if s.open[i] {
			nOpen++
		}
	}
	if nOpen > 1 {
		s.c.Violation("two-open-handles", "", s.cfgS, h, "more than one handle is open on the directory")
	}
	for i, st := range s.h {
		if st == nil || s.open[i] {
			continue
		}
		before := vCanonDir(s.env.fs)
		type call struct {
			name string
			f    func() error
		}
		calls := []call{
			{"Add", func() error { _, err := st.Add([]float32{1, 0}, "alpha", nil); return err }},
			{"AddWithID", func() error { return st.AddWithID(77, []float32{1, 0}, "alpha", nil) }},
			{"Remove", func() error { return st.Remove(1) }},
			{"Flush", func() error { return st.Flush() }},
			{"Train", func() error { return st.Train([][]float32{{1, 0}}) }},
			{"Search", func() error { _, err := st.NewSearch().WithVector([]float32{1, 0}).Execute(); return err }},
			{"TriggerCompaction", func() error { st.TriggerCompaction(); return fmt.Errorf("n/a") }},
		}
		for _, cl := range calls {
			s.c.Evaluations++
			var err error
			s.env.do(func() { err = cl.f() })
			if s.env.dead != "" {
				s.c.Violation("use-after-close-aborted", cl.name, s.cfgS, h, s.env.dead)
				return
			}
			if err == nil {
				s.c.Violation("use-after-close-succeeded", cl.name, s.cfgS, h, cl.name+" on a closed handle returned nil")
			}
			if after := vCanonDir(s.env.fs); after != before {
				s.c.Violation("use-after-close-modified-directory", cl.name, s.cfgS, h, fmt.Sprintf("before [%s] after [%s]", before, after))
				before = after
			}
			s.c.Nontrivial(fmt.Sprintf("%s|%d|%s", s.Key(), i, cl.name))
		}
	}
	s.c.Outcome(fmt.Sprint(s.owner, s.open))
}

func (s *vC17Sys) Key() string {
	var sb strings.Builder
	for i := range s.h {
		switch {
		case s.h[i] == nil:
			sb.WriteString("-")
		case s.open[i]:
			sb.WriteString("O")
		default:
			sb.WriteString("C")
		}
	}
	fmt.Fprintf(&sb, "|owner=%d|next=%d|%s", s.owner, s.nextID, vCanonDir(s.env.fs))
	for i := range s.h {
		if s.open[i] {
			fmt.Fprintf(&sb, "|q%d", len(s.h[i].memtableQueue.queue))
		}
	}
	return sb.String()
}

func init() {
	vRegister(&vCheck{
		ID: "C17", Level: "model_checking", Engine: "histmc",
		Rule:        "BFS over Open (3 handle slots) / Open with one injected file-system fault (MkdirAll, OpenFile(LOCK), WriteString, ReadDir #1, ReadDir #2) / foreign LOCK appearing and disappearing (= another process) / Close (open or already closed handle) / Add+Rotate on an open handle, on the real store over the in-memory file system under the controlled scheduler; after every transition: Open succeeds iff the directory is unowned, a failed Open leaves the directory image byte-for-byte unchanged (no lock left behind, an existing lock not removed), Close releases the lock, second Close fails and changes nothing, LOCK present iff owned, never two open handles, and EVERY public method on EVERY closed handle fails, changes nothing and does not panic/deadlock. Concurrent scenarios (Open||Open, Close||Open, Close||Close, Close||use) are explored by the schedmc shards. Non-trivial = distinct (state, closed handle, method) use-after-close evaluations. The in-memory file system implements hard links and SameFile (node identity), so lock protocols built on link(2) are explored like the O_EXCL one.",
		Assumptions: []string{"'another process' is represented by a LOCK file already present", "unreadable/unlistable directory is produced by fault injection in the file-system seam (root ignores permission bits)"},
		Shards: func(tier string) []vShard {
			depth := 8
			if tier == "thorough" {
				depth = 10
			}
			sh := []vShard{{Name: "sequential", Run: func(c *vCtx) {
				s := &vC17Sys{c: c, cfgS: "c17 sequential"}
				vBFS(c, s, depth)
				if s.env != nil {
					s.env.end()
				}
			}}}
			sh = append(sh, vSchedShards("C17", tier)...)
			return sh
		},
		Replay: func(c *vCtx, v *vViolation) bool {
			if strings.HasPrefix(v.Config, "sched ") {
				return vSchedReplay(c, v)
			}
			s := &vC17Sys{c: c, cfgS: v.Config}
			vReplayHist(s, v.History)
			if s.env != nil {
				s.env.end()
			}
			_, ok := c.viol[v.Sig()]
			return ok
		},
	})
}
