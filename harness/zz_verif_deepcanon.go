//go:build verif

package comet

// vDeepCanon: a canonical dump of EVERYTHING reachable from a value, by reflection
// (unexported fields included). The hand-written canonicalisers (vCanonVec, vCanonBM25,
// vCanonMeta ...) list the fields that exist today; a change to the code under test may
// add state they do not know (a cache, a counter, a generation stamp), and two histories
// that differ only there would be merged by the visited set although their futures
// differ. The deep dump is appended (as a hash) to the keys of the history explorers, so
// that the deduplication stays sound whatever fields the code has.
//
// Canonical form: pointers are followed (cycles and shared nodes are cut by a visit
// table and printed as back-references in visit order), maps are printed in sorted key
// order, slices with their length (never their capacity), roaring bitmaps as their
// element list; synchronisation primitives, functions, channels and time stamps are
// skipped (they carry no logical state or no reproducible one); floats by bit pattern.

import (
	"fmt"
	"hash/fnv"
	"io"
	"math"
	"reflect"
	"sort"
	"strings"
	"unsafe"

	"github.com/RoaringBitmap/roaring"
)

type vDeepCtx struct {
	w     io.Writer
	seen  map[uintptr]int
	depth int
}

func vDeepHash(vals ...any) string {
	h := fnv.New64a()
	c := &vDeepCtx{w: h, seen: map[uintptr]int{}}
	for _, v := range vals {
		c.dump(reflect.ValueOf(v))
		io.WriteString(h, "|")
	}
	return fmt.Sprintf("%016x", h.Sum64())
}

// vDeepString is the readable form (debugging).
func vDeepString(v any) string {
	var sb strings.Builder
	c := &vDeepCtx{w: &sb, seen: map[uintptr]int{}}
	c.dump(reflect.ValueOf(v))
	return sb.String()
}

var vBitmapType = reflect.TypeOf(roaring.Bitmap{})

func vSkipType(t reflect.Type) bool {
	p := t.PkgPath()
	switch {
	case p == "sync", p == "sync/atomic" && false, strings.HasSuffix(p, "/vsync"), p == "time", strings.HasSuffix(p, "/vtime"):
		return true
	}
	return false
}

func (c *vDeepCtx) dump(v reflect.Value) {
	if !v.IsValid() {
		io.WriteString(c.w, "nil")
		return
	}
	c.depth++
	defer func() { c.depth-- }()
	if c.depth > 200 {
		io.WriteString(c.w, "<deep>")
		return
	}
	t := v.Type()
	if vSkipType(t) {
		return
	}
	switch v.Kind() {
	case reflect.Bool:
		fmt.Fprint(c.w, v.Bool())
	case reflect.Int, reflect.Int8, reflect.Int16, reflect.Int32, reflect.Int64:
		fmt.Fprint(c.w, v.Int())
	case reflect.Uint, reflect.Uint8, reflect.Uint16, reflect.Uint32, reflect.Uint64, reflect.Uintptr:
		fmt.Fprint(c.w, v.Uint())
	case reflect.Float32:
		fmt.Fprintf(c.w, "f%08x", math.Float32bits(float32(v.Float())))
	case reflect.Float64:
		fmt.Fprintf(c.w, "F%016x", math.Float64bits(v.Float()))
	case reflect.String:
		fmt.Fprintf(c.w, "%q", v.String())
	case reflect.Func, reflect.Chan, reflect.UnsafePointer:
		// no logical state
	case reflect.Ptr:
		if v.IsNil() {
			io.WriteString(c.w, "nil")
			return
		}
		addr := v.Pointer()
		if n, ok := c.seen[addr]; ok {
			fmt.Fprintf(c.w, "@%d", n)
			return
		}
		c.seen[addr] = len(c.seen)
		if t.Elem() == vBitmapType {
			b := (*roaring.Bitmap)(unsafe.Pointer(addr))
			fmt.Fprintf(c.w, "bm%v", b.ToArray())
			return
		}
		io.WriteString(c.w, "&")
		c.dump(v.Elem())
	case reflect.Interface:
		if v.IsNil() {
			io.WriteString(c.w, "nil")
			return
		}
		fmt.Fprintf(c.w, "<%s>", v.Elem().Type().String())
		c.dump(v.Elem())
	case reflect.Slice:
		if v.IsNil() {
			io.WriteString(c.w, "[]")
			return
		}
		fmt.Fprintf(c.w, "[%d:", v.Len())
		for i := 0; i < v.Len(); i++ {
			c.dump(v.Index(i))
			io.WriteString(c.w, ",")
		}
		io.WriteString(c.w, "]")
	case reflect.Array:
		io.WriteString(c.w, "[")
		for i := 0; i < v.Len(); i++ {
			c.dump(v.Index(i))
			io.WriteString(c.w, ",")
		}
		io.WriteString(c.w, "]")
	case reflect.Map:
		if v.IsNil() {
			io.WriteString(c.w, "map[]")
			return
		}
		type kv struct {
			k string
			v reflect.Value
		}
		var kvs []kv
		it := v.MapRange()
		for it.Next() {
			var sb strings.Builder
			kc := &vDeepCtx{w: &sb, seen: map[uintptr]int{}}
			kc.dump(it.Key())
			kvs = append(kvs, kv{sb.String(), it.Value()})
		}
		sort.Slice(kvs, func(i, j int) bool { return kvs[i].k < kvs[j].k })
		fmt.Fprintf(c.w, "map[%d:", len(kvs))
		for _, e := range kvs {
			io.WriteString(c.w, e.k+"=")
			c.dump(e.v)
			io.WriteString(c.w, ";")
		}
		io.WriteString(c.w, "]")
	case reflect.Struct:
		if t == vBitmapType {
			if v.CanAddr() {
				b := (*roaring.Bitmap)(unsafe.Pointer(v.UnsafeAddr()))
				fmt.Fprintf(c.w, "bm%v", b.ToArray())
			}
			return
		}
		io.WriteString(c.w, "{")
		for i := 0; i < v.NumField(); i++ {
			f := t.Field(i)
			if vSkipType(f.Type) {
				continue
			}
			io.WriteString(c.w, f.Name+":")
			c.dump(v.Field(i))
			io.WriteString(c.w, " ")
		}
		io.WriteString(c.w, "}")
	default:
		fmt.Fprintf(c.w, "?%s", v.Kind())
	}
}
