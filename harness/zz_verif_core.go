//go:build verif

package comet

// Core of the in-package verification harness: check registry, worker/orchestrator
// protocol, counters, violations, known-findings matching, evidence writing.

import (
	"bufio"
	"bytes"
	"encoding/json"
	"fmt"
	"hash/fnv"
	"io"
	"math"
	"os"
	"os/exec"
	"path/filepath"
	"regexp"
	"runtime"
	"sort"
	"strconv"
	"strings"
	"sync"
	"syscall"
	"time"
)

// ---------------------------------------------------------------------------
// registry

type vShard struct {
	Name string
	Run  func(c *vCtx)
}

type vCheck struct {
	ID          string
	Level       string // evidence level
	Engine      string
	Rule        string
	Assumptions []string
	Shards      func(tier string) []vShard
	// Replay re-executes one recorded violation; returns true iff it reproduces.
	Replay func(c *vCtx, v *vViolation) bool
}

var vChecks = map[string]*vCheck{}

func vRegister(ch *vCheck) { vChecks[ch.ID] = ch }

// ---------------------------------------------------------------------------
// violations

type vViolation struct {
	Property string   `json:"property"`
	Class    string   `json:"class"`
	Cause    string   `json:"cause"`
	Config   string   `json:"config"`
	History  []string `json:"history"`
	Choices  []int    `json:"choices,omitempty"`
	Detail   string   `json:"detail"`
	Shard    string   `json:"shard"`
	Count    int64    `json:"count"` // how many executions hit this signature in the shard
}

func (v *vViolation) Sig() string {
	return v.Property + "|" + v.Class + "|" + v.Cause
}

// ---------------------------------------------------------------------------
// per-shard context

type vCtx struct {
	bfsRuns  int
	Prop     string
	Tier     string
	Shard    string
	Seed     int64
	deadline time.Time

	States      int64
	Transitions int64
	Evaluations int64
	Traces      int64
	seen        map[uint64]struct{}
	nontrivial  map[uint64]struct{}
	outcomes    map[uint64]struct{}
	Samples     []any
	viol        map[string]*vViolation
	violOrder   []string
	Exhaustive  bool
	Bound       string
	Extra       map[string]int64
	Notes       []string
	maxSamples  int
}

func newCtx(prop, tier, shard string, seed int64, budget time.Duration) *vCtx {
	return &vCtx{Prop: prop, Tier: tier, Shard: shard, Seed: seed, deadline: time.Now().Add(budget),
		seen: map[uint64]struct{}{}, nontrivial: map[uint64]struct{}{}, outcomes: map[uint64]struct{}{},
		viol: map[string]*vViolation{}, Exhaustive: true, Extra: map[string]int64{}, maxSamples: 3}
}

func vHash(s string) uint64 {
	h := fnv.New64a()
	h.Write([]byte(s))
	return h.Sum64()
}

// NewState records a canonical state key; true if it was not seen before.
func (c *vCtx) NewState(key string) bool {
	h := vHash(key)
	if _, ok := c.seen[h]; ok {
		return false
	}
	c.seen[h] = struct{}{}
	c.States++
	return true
}

func (c *vCtx) Nontrivial(key string) { c.nontrivial[vHash(key)] = struct{}{} }
func (c *vCtx) Outcome(key string)    { c.outcomes[vHash(key)] = struct{}{} }
func (c *vCtx) Expired() bool {
	if time.Now().After(c.deadline) {
		c.Exhaustive = false
		return true
	}
	return false
}

func (c *vCtx) Sample(x any) {
	if len(c.Samples) < c.maxSamples {
		c.Samples = append(c.Samples, x)
	}
}

func (c *vCtx) Violation(class, cause, config string, history []string, detail string) {
	c.ViolationCh(class, cause, config, history, nil, detail)
}

func (c *vCtx) ViolationCh(class, cause, config string, history []string, choices []int, detail string) {
	if len(detail) > 3000 {
		detail = detail[:3000] + " ...(truncated)"
	}
	v := &vViolation{Property: c.Prop, Class: class, Cause: cause, Config: config,
		History: append([]string(nil), history...), Choices: append([]int(nil), choices...), Detail: detail, Shard: c.Shard, Count: 1}
	sig := v.Sig()
	if old, ok := c.viol[sig]; ok {
		old.Count++
		// keep the shortest history as the representative
		if len(v.History) < len(old.History) {
			v.Count = old.Count
			c.viol[sig] = v
		}
		return
	}
	c.viol[sig] = v
	c.violOrder = append(c.violOrder, sig)
}

type vResult struct {
	Shard       string        `json:"shard"`
	States      int64         `json:"states"`
	Transitions int64         `json:"transitions"`
	Evaluations int64         `json:"evaluations"`
	Traces      int64         `json:"traces"`
	Nontrivial  int64         `json:"nontrivial"`
	Outcomes    int64         `json:"outcomes"`
	Samples     []any         `json:"samples"`
	Violations  []*vViolation `json:"violations"`
	Exhaustive  bool          `json:"exhaustive"`
	Bound       string        `json:"bound"`
	Extra       map[string]int64
	Notes       []string
	WallS       float64 `json:"wall_s"`
	Error       string  `json:"error,omitempty"`
}

func (c *vCtx) result() *vResult {
	r := &vResult{Shard: c.Shard, States: c.States, Transitions: c.Transitions, Evaluations: c.Evaluations,
		Traces: c.Traces, Nontrivial: int64(len(c.nontrivial)), Outcomes: int64(len(c.outcomes)), Samples: c.Samples,
		Exhaustive: c.Exhaustive, Bound: c.Bound, Extra: c.Extra, Notes: c.Notes}
	for _, s := range c.violOrder {
		r.Violations = append(r.Violations, c.viol[s])
	}
	return r
}

// ---------------------------------------------------------------------------
// known findings

type vKnown struct {
	Status    string `json:"status"` // known | fixed
	Property  string `json:"property"`
	Signature string `json:"signature"`
	What      string `json:"what"`
	Commit    string `json:"commit,omitempty"`
}

func vLoadKnown(path string) []vKnown {
	f, err := os.Open(path)
	if err != nil {
		return nil
	}
	defer f.Close()
	var out []vKnown
	sc := bufio.NewScanner(f)
	sc.Buffer(make([]byte, 1<<20), 1<<20)
	for sc.Scan() {
		line := strings.TrimSpace(sc.Text())
		if line == "" || strings.HasPrefix(line, "#") {
			continue
		}
		var k vKnown
		if json.Unmarshal([]byte(line), &k) == nil {
			out = append(out, k)
		}
	}
	return out
}

// ---------------------------------------------------------------------------
// entry point

func vBudget(tier string) time.Duration {
	if s := os.Getenv("VERIF_BUDGET_S"); s != "" {
		if n, err := strconv.Atoi(s); err == nil {
			return time.Duration(n) * time.Second
		}
	}
	if tier == "thorough" {
		return 15 * time.Minute
	}
	return 100 * time.Second
}

// vResetGlobalsHook is set by the file the instrumenter generates (zz_vrt_globals.go): it
// re-initialises every package-level variable of the code under test and re-runs its init
// functions. Every execution starts with it, so that state the code under test keeps at
// package level (registries, caches, singletons, counters) never travels from one
// execution to the next: each execution is a new process as far as the package can tell.
var vResetGlobalsHook func()

func vResetGlobals() {
	if vResetGlobalsHook != nil {
		vResetGlobalsHook()
	}
}

// vClassReplay: replay functions for violation classes raised by explorers that are
// shared between properties (search-object histories, ...).
var vClassReplay = map[string]func(c *vCtx, v *vViolation) bool{}

// vExtraModes lets build-tag specific files add sub-commands (e.g. racepass).
var vExtraModes = map[string]func(args []string) int{}

// VerifMain is called by cmd/verifcheck.
func VerifMain(args []string) int {
	if len(args) < 1 {
		fmt.Fprintln(os.Stderr, "usage: verifcheck run|worker|replay|list ...")
		return 2
	}
	seed := int64(0)
	if s := os.Getenv("VERIF_SEED"); s != "" {
		seed, _ = strconv.ParseInt(s, 10, 64)
	}
	if f, ok := vExtraModes[args[0]]; ok {
		return f(args[1:])
	}
	switch args[0] {
	case "list":
		ids := make([]string, 0, len(vChecks))
		for id := range vChecks {
			ids = append(ids, id)
		}
		sort.Strings(ids)
		for _, id := range ids {
			fmt.Println(id, len(vChecks[id].Shards("quick")), len(vChecks[id].Shards("thorough")))
		}
		return 0
	case "worker":
		// worker <ID> <tier> <shard-index> <budget-seconds>
		ch := vChecks[args[1]]
		tier := args[2]
		i, _ := strconv.Atoi(args[3])
		bs, _ := strconv.Atoi(args[4])
		sh := ch.Shards(tier)[i]
		vLimitMemory()
		c := newCtx(ch.ID, tier, sh.Name, seed, time.Duration(bs)*time.Second)
		t0 := time.Now()
		func() {
			defer func() {
				if r := recover(); r != nil {
					buf := make([]byte, 1<<14)
					n := runtime.Stack(buf, false)
					if fn := vPanicOrigin(string(buf[:n])); fn != "" {
						// the panic was raised inside the code under test (the innermost
						// comet frame is not a harness function): a violation, not a
						// harness failure. The shard stops here.
						c.Exhaustive = false
						c.Bound = "shard aborted by a panic in the code under test"
						c.Violation("panic-in-code-under-test", fn, "shard "+sh.Name, nil, fmt.Sprintf("%v\n%s", r, vTail(string(buf[:n]), 1800)))
						res := c.result()
						res.WallS = time.Since(t0).Seconds()
						json.NewEncoder(os.Stdout).Encode(res)
						os.Exit(0)
					}
					c.Notes = append(c.Notes, fmt.Sprintf("HARNESS-PANIC: %v\n%s", r, buf[:n]))
					res := c.result()
					res.Error = fmt.Sprintf("harness panic: %v", r)
					res.WallS = time.Since(t0).Seconds()
					json.NewEncoder(os.Stdout).Encode(res)
					os.Exit(3)
				}
			}()
			sh.Run(c)
		}()
		res := c.result()
		res.WallS = time.Since(t0).Seconds()
		json.NewEncoder(os.Stdout).Encode(res)
		return 0
	case "run", "triage":
		// run <ID> <tier> <verifdir>
		return vOrchestrate(args[1], args[2], args[3], seed, args[0] == "triage")
	case "replay":
		// replay <ID> <path>
		ch := vChecks[args[1]]
		b, err := os.ReadFile(args[2])
		if err != nil {
			fmt.Fprintln(os.Stderr, err)
			return 2
		}
		var v vViolation
		if err := json.Unmarshal(b, &v); err != nil {
			fmt.Fprintln(os.Stderr, err)
			return 2
		}
		if ch == nil {
			fmt.Fprintln(os.Stderr, "no such check", args[1])
			return 2
		}
		c := newCtx(ch.ID, "quick", "replay", seed, 10*time.Minute)
		if v.Class == "panic-in-code-under-test" || v.Class == "fatal-error-in-code-under-test" || v.Class == "operation-did-not-return" {
			// replayed by running the shard again (in this process): a panic in the code
			// under test reproduces as a panic here
			name := strings.TrimPrefix(v.Config, "shard ")
			for _, tier := range []string{"quick", "thorough"} {
				for _, sh := range ch.Shards(tier) {
					if sh.Name != name {
						continue
					}
					reproduced := false
					func() {
						defer func() {
							if r := recover(); r != nil {
								buf := make([]byte, 1<<14)
								n := runtime.Stack(buf, false)
								reproduced = vPanicOrigin(string(buf[:n])) != ""
								fmt.Printf("replayed: panic %v\n", r)
							}
						}()
						c2 := newCtx(ch.ID, tier, sh.Name, seed, 10*time.Minute)
						sh.Run(c2)
					}()
					if reproduced {
						fmt.Printf("REPRODUCED property=%s signature=%s\n", v.Property, v.Sig())
						return 1
					}
					fmt.Printf("NOT-REPRODUCED property=%s signature=%s\n", v.Property, v.Sig())
					return 0
				}
			}
			fmt.Fprintln(os.Stderr, "shard not found:", name)
			return 2
		}
		var ok bool
		if f, special := vClassReplay[v.Class]; special {
			ok = f(c, &v)
		} else if ch.Replay != nil {
			ok = ch.Replay(c, &v)
		} else {
			// no dedicated replay: the shard that reported the violation is run again (the
			// spaces of these checks are enumerated in a fixed order, so the same member
			// fails again if the tree still misbehaves)
			for _, tier := range []string{"quick", "thorough"} {
				for _, sh := range ch.Shards(tier) {
					if sh.Name == v.Shard && !ok {
						c2 := newCtx(ch.ID, tier, sh.Name, seed, 10*time.Minute)
						sh.Run(c2)
						if w, hit := c2.viol[v.Sig()]; hit {
							ok = true
							c.viol[v.Sig()] = w
							c.violOrder = append(c.violOrder, v.Sig())
						}
					}
				}
			}
		}
		for _, s := range c.violOrder {
			w := c.viol[s]
			fmt.Printf("replayed: %s\n  config: %s\n  history: %s\n  detail: %s\n", w.Sig(), w.Config, strings.Join(w.History, "; "), w.Detail)
		}
		if ok {
			fmt.Printf("REPRODUCED property=%s signature=%s\n", v.Property, v.Sig())
			return 1
		}
		fmt.Printf("NOT-REPRODUCED property=%s signature=%s\n", v.Property, v.Sig())
		return 0
	}
	return 2
}

// vPanicOrigin inspects a goroutine stack taken inside a deferred recover: it returns the
// innermost comet function below the panic when that function belongs to the code under
// test, "" when it is a harness function (names v* / V* / init of zz_verif files).
func vPanicOrigin(stack string) string {
	lines := strings.Split(stack, "\n")
	seenPanic := false
	for i := 0; i+1 < len(lines); i++ {
		l := lines[i]
		if strings.HasPrefix(l, "panic(") || strings.HasPrefix(l, "runtime.panic") || strings.HasPrefix(l, "runtime.goPanic") || strings.HasPrefix(l, "runtime.sigpanic") {
			seenPanic = true
			continue
		}
		if !seenPanic {
			continue
		}
		const pkg = "github.com/wizenheimer/comet."
		if !strings.HasPrefix(l, pkg) {
			continue
		}
		if strings.Contains(lines[i+1], "/zz_verif_") || strings.Contains(lines[i+1], "/internal/vrt/") {
			return ""
		}
		fn := l[len(pkg):]
		if j := strings.LastIndex(fn, "("); j > 0 {
			fn = fn[:j]
		}
		if strings.HasPrefix(fn, "internal/vrt") {
			continue
		}
		return fn
	}
	return ""
}

// vFatalError extracts the Go runtime's "fatal error: ..." line from a dead worker's
// stderr ("" if there is none). Harness code is sequential and allocation-light, so a
// runtime-fatal condition (out of memory, concurrent map writes, stack overflow, all
// goroutines asleep) is attributed to the code under test.
func vFatalError(stderr string) string {
	for _, l := range strings.Split(stderr, "\n") {
		if strings.HasPrefix(l, "fatal error: ") {
			return strings.TrimSpace(strings.TrimPrefix(l, "fatal error: "))
		}
		if strings.HasPrefix(l, "runtime: out of memory") || strings.Contains(l, "cannot allocate memory") {
			return "out of memory"
		}
	}
	return ""
}

// vLimitMemory caps the worker's address space (the sandbox itself has no limit): a change
// that makes the code under test allocate without bound ends as a reported fatal error
// of this worker instead of taking the machine down. VERIF_MEM_GB overrides (0 = none).
func vLimitMemory() {
	gb := 24
	if s := os.Getenv("VERIF_MEM_GB"); s != "" {
		gb, _ = strconv.Atoi(s)
	}
	if gb <= 0 {
		return
	}
	lim := syscall.Rlimit{Cur: uint64(gb) << 30, Max: uint64(gb) << 30}
	syscall.Setrlimit(syscall.RLIMIT_AS, &lim)
}

func vTail(s string, n int) string {
	if len(s) > n {
		return s[:n]
	}
	return s
}

func vOrchestrate(id, tier, verifDir string, seed int64, triage bool) int {
	ch := vChecks[id]
	if ch == nil {
		fmt.Fprintln(os.Stderr, "unknown check", id)
		return 2
	}
	t0 := time.Now()
	shards := ch.Shards(tier)
	budget := vBudget(tier)
	par := runtime.NumCPU()
	if s := os.Getenv("VERIF_PAR"); s != "" {
		par, _ = strconv.Atoi(s)
	}
	if par < 1 {
		par = 1
	}
	// rotate shard order by seed (verdicts never depend on it)
	order := make([]int, len(shards))
	for i := range order {
		order[i] = i
	}
	if seed != 0 && len(order) > 0 {
		k := int(uint64(seed) % uint64(len(order)))
		order = append(order[k:], order[:k]...)
	}
	// all shards share one wall-clock deadline; expensive shards (store / scheduler
	// scenarios) are started first, each worker gets the time remaining at its launch
	sort.SliceStable(order, func(i, j int) bool { return vShardWeight(shards[order[i]].Name) > vShardWeight(shards[order[j]].Name) })
	deadline := t0.Add(budget)
	results := make([]*vResult, len(shards))
	var wg sync.WaitGroup
	sem := make(chan struct{}, par)
	self, _ := os.Executable()
	harnessErr := false
	var hangs []string
	var fatals [][3]string
	var mu sync.Mutex
	// VERIF_SHARDS=<regexp>: development aid, run only the matching shards (no evidence
	// is written then; registered commands never set it)
	var only *regexp.Regexp
	if s := os.Getenv("VERIF_SHARDS"); s != "" {
		only = regexp.MustCompile(s)
	}
	for _, i := range order {
		if only != nil && !only.MatchString(shards[i].Name) {
			continue
		}
		wg.Add(1)
		sem <- struct{}{}
		go func(i int) {
			defer wg.Done()
			defer func() { <-sem }()
			per := int(time.Until(deadline).Seconds())
			if per < 10 {
				per = 10
			}
			cmd := exec.Command(self, "worker", id, tier, strconv.Itoa(i), strconv.Itoa(per))
			cmd.Env = append(os.Environ(), "GOMAXPROCS=1")
			var errBuf bytes.Buffer
			cmd.Stderr = io.MultiWriter(os.Stderr, &errBuf)
			// hard limit: a worker checks its deadline between executions; one that is
			// still running 300 s after it is stuck INSIDE an execution of the code
			// under test (deadlock / endless loop in sequential use)
			hung := false
			timer := time.AfterFunc(time.Duration(per+300)*time.Second, func() {
				hung = true
				if cmd.Process != nil {
					cmd.Process.Kill()
				}
			})
			out, err := cmd.Output()
			timer.Stop()
			if hung {
				mu.Lock()
				hangs = append(hangs, shards[i].Name)
				mu.Unlock()
				return
			}
			var r vResult
			lines := strings.Split(strings.TrimSpace(string(out)), "\n")
			if jerr := json.Unmarshal([]byte(lines[len(lines)-1]), &r); jerr != nil {
				if fe := vFatalError(errBuf.String()); fe != "" {
					// the Go runtime killed the worker (out of memory, concurrent map
					// access, stack overflow, ...) inside the code under test
					mu.Lock()
					fatals = append(fatals, [3]string{shards[i].Name, fe, vTail(errBuf.String(), 1800)})
					mu.Unlock()
					return
				}
				mu.Lock()
				harnessErr = true
				mu.Unlock()
				fmt.Fprintf(os.Stderr, "HARNESS-ERROR shard %s: %v (%v)\n%s\n", shards[i].Name, err, jerr, tail(string(out), 2000))
				return
			}
			if err != nil || r.Error != "" {
				mu.Lock()
				harnessErr = true
				mu.Unlock()
				fmt.Fprintf(os.Stderr, "HARNESS-ERROR shard %s: %v %s\n%s\n", shards[i].Name, err, r.Error, strings.Join(r.Notes, "\n"))
			}
			results[i] = &r
		}(i)
	}
	wg.Wait()

	// merge
	var tot vResult
	tot.Exhaustive = true
	tot.Extra = map[string]int64{}
	bySig := map[string]*vViolation{}
	var sigOrder []string
	bounds := map[string]bool{}
	var shardSummaries []map[string]any
	for i, r := range results {
		if r == nil {
			if only == nil || only.MatchString(shards[i].Name) {
				tot.Exhaustive = false
			}
			continue
		}
		if only != nil {
			fmt.Printf("shard %s: states=%d transitions=%d evaluations=%d exhaustive=%v wall=%.1fs bound=%s\n", r.Shard, r.States, r.Transitions, r.Evaluations, r.Exhaustive, r.WallS, r.Bound)
		}
		tot.States += r.States
		tot.Transitions += r.Transitions
		tot.Evaluations += r.Evaluations
		tot.Traces += r.Traces
		tot.Nontrivial += r.Nontrivial
		tot.Outcomes += r.Outcomes
		if !r.Exhaustive {
			tot.Exhaustive = false
		}
		if r.Bound != "" {
			bounds[r.Bound] = true
		}
		for k, v := range r.Extra {
			tot.Extra[k] += v
		}
		if len(tot.Samples) < 6 && len(r.Samples) > 0 {
			tot.Samples = append(tot.Samples, map[string]any{"shard": shards[i].Name, "sample": r.Samples[0]})
		}
		tot.Notes = append(tot.Notes, r.Notes...)
		shardSummaries = append(shardSummaries, map[string]any{"shard": r.Shard, "states": r.States, "transitions": r.Transitions,
			"evaluations": r.Evaluations, "exhaustive": r.Exhaustive, "bound": r.Bound, "wall_s": math.Round(r.WallS*10) / 10})
		for _, v := range r.Violations {
			s := v.Sig()
			if old, ok := bySig[s]; ok {
				old.Count += v.Count
				if len(v.History) < len(old.History) {
					v.Count = old.Count
					bySig[s] = v
				}
				continue
			}
			bySig[s] = v
			sigOrder = append(sigOrder, s)
		}
	}
	for _, name := range hangs {
		v := &vViolation{Property: id, Class: "operation-did-not-return", Cause: "shard " + name, Config: name, Shard: name, Count: 1,
			Detail: "the worker exploring this shard was still inside one execution of the code under test 300 s after its deadline (deadlock or endless loop); it was killed"}
		bySig[v.Sig()] = v
		sigOrder = append(sigOrder, v.Sig())
	}
	for _, f := range fatals {
		v := &vViolation{Property: id, Class: "fatal-error-in-code-under-test", Cause: f[1], Config: "shard " + f[0], Shard: f[0], Count: 1, Detail: f[2]}
		if _, dup := bySig[v.Sig()]; !dup {
			bySig[v.Sig()] = v
			sigOrder = append(sigOrder, v.Sig())
		}
	}
	sort.Strings(sigOrder)

	known := vLoadKnown(filepath.Join(verifDir, "known_findings.jsonl"))
	knownSet := map[string]vKnown{}
	for _, k := range known {
		if k.Status == "known" && k.Property == id {
			knownSet[k.Signature] = k
		}
	}
	exit := 0
	nViol := 0
	var knownHit []string
	os.MkdirAll(filepath.Join(verifDir, "replays"), 0755)
	for _, s := range sigOrder {
		v := bySig[s]
		if triage {
			b, _ := json.Marshal(v)
			fmt.Printf("TRIAGE %s count=%d\n  %s\n", s, v.Count, string(b))
			continue
		}
		if k, ok := knownSet[s]; ok {
			fmt.Printf("KNOWN-FINDING: property=%s %s [%s] (%d executions; e.g. %s | %s)\n", id, k.What, s, v.Count, v.Config, strings.Join(v.History, "; "))
			knownHit = append(knownHit, s)
			continue
		}
		nViol++
		exit = 1
		name := fmt.Sprintf("%s-%016x.json", id, vHash(s))
		path := filepath.Join(verifDir, "replays", name)
		b, _ := json.MarshalIndent(v, "", " ")
		os.WriteFile(path, b, 0644)
		fmt.Printf("VIOLATION property=%s replay=%s\n", id, path)
		fmt.Printf("  signature: %s\n  config: %s\n  history: %s\n  detail: %s\n  executions: %d\n", s, v.Config, strings.Join(v.History, "; "), v.Detail, v.Count)
	}
	if triage {
		return 0
	}
	if harnessErr {
		exit = 3
	}

	// evidence
	var bl []string
	for b := range bounds {
		bl = append(bl, b)
	}
	sort.Strings(bl)
	if len(tot.Samples) == 0 {
		tot.Samples = []any{"(no sample recorded)"}
	}
	cov := map[string]any{
		"evaluations":         tot.Evaluations,
		"distinct_nontrivial": tot.Nontrivial,
		"rule":                ch.Rule,
		"samples":             tot.Samples,
		"exhaustive":          tot.Exhaustive,
		"distinct_outcomes":   tot.Outcomes,
		"bound":               strings.Join(bl, "; "),
		"shards":              shardSummaries,
		"known_findings_hit":  knownHit,
		"engine":              ch.Engine,
	}
	if ch.Level == "model_checking" {
		cov["states"] = tot.States
		cov["transitions"] = tot.Transitions
		cov["traces_validated_against_impl"] = tot.Traces
	} else {
		if tot.States > 0 {
			cov["states"] = tot.States
		}
		if tot.Transitions > 0 {
			cov["transitions"] = tot.Transitions
		}
	}
	for k, v := range tot.Extra {
		cov[k] = v
	}
	if len(tot.Notes) > 0 {
		if len(tot.Notes) > 20 {
			tot.Notes = tot.Notes[:20]
		}
		cov["notes"] = tot.Notes
	}
	ev := map[string]any{
		"property_id": id, "tier": tier, "seed": seed, "level": ch.Level, "coverage": cov,
		"assumptions": ch.Assumptions, "wall_s": math.Round(time.Since(t0).Seconds()*10) / 10, "violations": nViol,
	}
	b, _ := json.MarshalIndent(ev, "", " ")
	os.MkdirAll(filepath.Join(verifDir, "evidence"), 0755)
	if only != nil {
		fmt.Println("(VERIF_SHARDS set: evidence not written)")
	} else if err := os.WriteFile(filepath.Join(verifDir, "evidence", id+".json"), b, 0644); err != nil {
		fmt.Fprintln(os.Stderr, "cannot write evidence:", err)
		return 3
	}
	fmt.Printf("%s %s: states=%d transitions=%d evaluations=%d nontrivial=%d outcomes=%d exhaustive=%v violations=%d known=%d wall=%.1fs\n",
		id, tier, tot.States, tot.Transitions, tot.Evaluations, tot.Nontrivial, tot.Outcomes, tot.Exhaustive, nViol, len(knownHit), time.Since(t0).Seconds())
	return exit
}

// vShardWeight orders shards by expected cost (heaviest first).
func vShardWeight(name string) int {
	switch {
	case strings.Contains(name, "sched/store/"):
		return 5
	case strings.Contains(name, "close-use"), strings.HasPrefix(name, "c08/"):
		return 4
	case strings.HasPrefix(name, "sched/"):
		return 3
	case strings.HasPrefix(name, "large/"), strings.HasPrefix(name, "sweep/"), strings.Contains(name, "/sweep"), strings.Contains(name, "faults"):
		return 3 // long single-threaded shards: start them first
	case strings.Contains(name, "hnsw"), strings.Contains(name, "racepass"):
		return 2
	}
	return 1
}

func tail(s string, n int) string {
	if len(s) > n {
		return s[len(s)-n:]
	}
	return s
}

// ---------------------------------------------------------------------------
// generic BFS over operation histories (histmc)

type vOp struct {
	K string // kind
	A int    // id / slot
	B int    // value index
	C int    // extra (level, variant)
}

func (o vOp) String() string { return fmt.Sprintf("%s(%d,%d,%d)", o.K, o.A, o.B, o.C) }

func vParseOp(s string) vOp {
	var o vOp
	i := strings.IndexByte(s, '(')
	if i < 0 {
		return vOp{K: s}
	}
	o.K = s[:i]
	fmt.Sscanf(s[i:], "(%d,%d,%d)", &o.A, &o.B, &o.C)
	return o
}

func vHistStrings(h []vOp) []string {
	out := make([]string, len(h))
	for i, o := range h {
		out[i] = o.String()
	}
	return out
}

// vSystem is the product of the real implementation and its reference model.
type vSystem interface {
	Reset()                               // fresh implementation instance(s) + fresh model
	Enabled() []vOp                       // alphabet in the current (model) state, simplest first
	Apply(op vOp, hist []vOp, check bool) // apply to implementation and model; when check, run the oracle
	Key() string                          // canonical state (implementation + model)
}

// vBFS explores every history up to maxDepth, deduplicating by canonical state. Each
// transition is executed on a fresh instance by replaying the shortest history.
func vBFS(c *vCtx, sys vSystem, maxDepth int) { vBFSFrom(c, sys, maxDepth, nil) }

// vBFSFrom is vBFS started from the state reached by prefix (used to shard a space by
// its first operations); the prefix itself is executed once with the oracle on.
func vBFSFrom(c *vCtx, sys vSystem, maxDepth int, prefix []vOp) {
	// every search has its own visited set: two searches in one shard (different
	// training sets, aliasing modes, oracles) must never prune each other's states
	c.bfsRuns++
	tag := fmt.Sprintf("bfs%d|", c.bfsRuns)
	frontier := [][]vOp{append([]vOp(nil), prefix...)}
	sys.Reset()
	for i, o := range prefix {
		sys.Apply(o, prefix[:i], true)
		c.Transitions++
	}
	c.NewState(tag + sys.Key())
	completed := len(prefix)
	for depth := len(prefix); depth < maxDepth && len(frontier) > 0; depth++ {
		var next [][]vOp
		for _, hist := range frontier {
			if c.Expired() {
				c.Bound = fmt.Sprintf("depth %d complete (deadline hit inside depth %d)", completed, depth+1)
				return
			}
			sys.Reset()
			for i, o := range hist {
				sys.Apply(o, hist[:i], false)
			}
			ops := sys.Enabled()
			for oi, op := range ops {
				if oi > 0 {
					sys.Reset()
					for i, o := range hist {
						sys.Apply(o, hist[:i], false)
					}
				}
				sys.Apply(op, hist, true)
				c.Transitions++
				c.Traces++
				if c.NewState(tag + sys.Key()) {
					nh := make([]vOp, len(hist)+1)
					copy(nh, hist)
					nh[len(hist)] = op
					next = append(next, nh)
					if len(c.Samples) < c.maxSamples && len(nh) >= 3 {
						c.Sample(strings.Join(vHistStrings(nh), "; "))
					}
				}
			}
		}
		frontier = next
		completed = depth + 1
	}
	c.Bound = fmt.Sprintf("depth %d complete", completed)
}

// vReplayHist runs one history with checks on (replay command).
func vReplayHist(sys vSystem, hist []string) {
	sys.Reset()
	ops := make([]vOp, len(hist))
	for i, s := range hist {
		ops[i] = vParseOp(s)
	}
	lastOnly := false
	if lo, ok := sys.(interface{ ReplayLastOnly() bool }); ok {
		lastOnly = lo.ReplayLastOnly()
	}
	for i, o := range ops {
		sys.Apply(o, ops[:i], !lastOnly || i == len(ops)-1)
	}
}

// ---------------------------------------------------------------------------
// small helpers shared by the oracles

func vApprox(a, b float64) bool {
	if math.IsNaN(a) || math.IsNaN(b) {
		return math.IsNaN(a) && math.IsNaN(b)
	}
	if math.IsInf(a, 0) || math.IsInf(b, 0) {
		return a == b
	}
	d := math.Abs(a - b)
	m := math.Max(vTolFloor, math.Max(math.Abs(a), math.Abs(b)))
	return d <= 1e-5*m
}

func vF32bits(v []float32) string {
	var sb strings.Builder
	for _, x := range v {
		fmt.Fprintf(&sb, "%08x,", math.Float32bits(x))
	}
	return sb.String()
}
