//go:build verif && verifl2

package comet

// C10 — a crash at any point leaves a directory that reopens to a consistent store
// (crashmc: every prefix of the logged file-system operations of the in-flight
// operation x every byte prefix of the write in progress), and
// C16 (3) — a segment with a truncated / empty / missing component file contributes nothing.

import (
	"fmt"
	"sort"
	"strconv"
	"strings"

	"github.com/wizenheimer/comet/internal/vrt"
	vos "github.com/wizenheimer/comet/internal/vrt/vos"
)

type vCrashCfg struct {
	Rounds   int    // completed Add;Rotate;Flush rounds before the in-flight operation
	Compact  bool   // one completed compaction (threshold 2) after the rounds
	InFlight string // "flush" | "flush2" | "compact" | "flushfault" (a flush whose Fault-th write fails: the crash hits its clean-up) | "close" / "closeactive" (the final flush of Close, document in a frozen / in the active memtable) | "reopen" (an Open of the closed directory)
	Tmpl     string
	Fault    int
	Dir      int // > 0: the store lives in the directory vStoreDirNames[Dir-1] (its name is user input)
}

func (c vCrashCfg) String() string {
	s := fmt.Sprintf("crash rounds=%d compact=%v inflight=%s tmpl=%s", c.Rounds, c.Compact, c.InFlight, c.Tmpl)
	if c.Fault > 0 {
		s += fmt.Sprintf(" fault=%d", c.Fault)
	}
	if c.Dir > 0 {
		s += fmt.Sprintf(" dir=%d", c.Dir)
	}
	return s
}

func vParseCrashCfg(s string) vCrashCfg {
	var c vCrashCfg
	fmt.Sscanf(s, "crash rounds=%d compact=%t inflight=%s tmpl=%s fault=%d", &c.Rounds, &c.Compact, &c.InFlight, &c.Tmpl, &c.Fault)
	if i := strings.Index(s, " dir="); i >= 0 {
		fmt.Sscanf(s[i:], " dir=%d", &c.Dir)
	}
	return c
}

// inDir runs f with the store directory the configuration names.
func (c vCrashCfg) inDir(f func()) {
	if c.Dir > 0 {
		old := vStoreDir
		vStoreDir = vStoreDirNames[c.Dir-1]
		defer func() { vStoreDir = old }()
	}
	f()
}

type vCrashHistory struct {
	snap     *vos.MemFS // image before the in-flight operation
	log      []vos.Op   // operations of the in-flight operation
	durable  []uint32   // documents made durable by completed flushes
	inflight []uint32   // documents of the in-flight memtable
	ever     map[uint32]int
	dead     string
	faultHit bool // flushfault: the injected write error was reached (Flush returned an error)
}

// vCrashRecord runs the history once and records the in-flight operation's log.
func vCrashRecord(cfg vCrashCfg) *vCrashHistory {
	scfg := vStoreCfg{Mem: 2, Thr: 1, Comp: 2, Tmpl: cfg.Tmpl, Vec: "flat"}
	env := vStoreBegin(nil, nil)
	defer env.end()
	st, err := env.open(scfg.config())
	if err != nil {
		return &vCrashHistory{dead: "open: " + err.Error()}
	}
	h := &vCrashHistory{ever: map[uint32]int{}}
	id := uint32(1)
	round := func() {
		d := vStoreDocs[int(id-1)%3]
		env.do(func() {
			st.AddWithID(id, vCopyVec(d.Vec), d.Text, vCloneMeta(d.Meta))
			st.memtableQueue.Rotate()
		})
		h.ever[id] = int(id-1) % 3
		id++
	}
	for r := 0; r < cfg.Rounds; r++ {
		round()
		env.do(func() { st.Flush() })
		h.durable = append(h.durable, id-1)
	}
	if cfg.Compact {
		env.do(func() { st.TriggerCompaction(); vrt.Quiesce() })
	}
	if cfg.InFlight == "flush" || cfg.InFlight == "flushfault" || cfg.InFlight == "close" {
		round()
		h.inflight = []uint32{id - 1}
	}
	if cfg.InFlight == "closeactive" {
		// the document sits in the ACTIVE memtable when Close starts its final flush
		d := vStoreDocs[int(id-1)%3]
		env.do(func() { st.AddWithID(id, vCopyVec(d.Vec), d.Text, vCloneMeta(d.Meta)) })
		h.ever[id] = int(id-1) % 3
		id++
		h.inflight = []uint32{id - 1}
	}
	if cfg.InFlight == "reopen" {
		// the in-flight operation is an OPEN of the closed directory
		env.do(func() { st.Close() })
	}
	if cfg.InFlight == "flush2" {
		// two frozen memtables flushed by one Flush(): two segments in flight
		round()
		round()
		h.inflight = []uint32{id - 2, id - 1}
	}
	h.snap = env.fs.Snapshot()
	start := len(env.fs.Log)
	switch cfg.InFlight {
	case "flush", "flush2":
		env.do(func() { st.Flush() })
	case "flushfault":
		var ferr error
		env.fs.FailOn("write", cfg.Fault)
		env.do(func() { ferr = st.Flush() })
		env.fs.ClearFaults()
		h.faultHit = ferr != nil
	case "compact":
		env.do(func() { st.TriggerCompaction(); vrt.Quiesce() })
	case "close", "closeactive":
		env.do(func() { st.Close() })
	case "reopen":
		env.open(scfg.config())
	}
	h.log = append([]vos.Op(nil), env.fs.Log[start:]...)
	h.dead = env.dead
	return h
}

type vCrashPoint struct {
	ops  int // number of complete operations of the in-flight log applied
	torn int // bytes of the next (write) operation applied; -1 = none
}

func (h *vCrashHistory) image(p vCrashPoint) *vos.MemFS {
	img := h.snap.Snapshot()
	for i := 0; i < p.ops; i++ {
		img.ApplyOp(h.log[i], -1)
	}
	if p.torn >= 0 && p.ops < len(h.log) {
		img.ApplyOp(h.log[p.ops], p.torn)
	}
	img.RemoveRaw(vLock()) // the stale lock is removed, as the property prescribes
	return img
}

func (h *vCrashHistory) points() []vCrashPoint {
	var out []vCrashPoint
	for i := 0; i <= len(h.log); i++ {
		out = append(out, vCrashPoint{ops: i, torn: -1})
		if i < len(h.log) && h.log[i].Kind == "write" {
			for b := 1; b < len(h.log[i].Data); b++ {
				out = append(out, vCrashPoint{ops: i, torn: b})
			}
		}
	}
	return out
}

func vMaxSegID(fs *vos.MemFS) int {
	max := 0
	for _, p := range fs.Paths() {
		if m := vSegRe.FindStringSubmatch(p); m != nil {
			n, _ := strconv.Atoi(m[1])
			if n > max {
				max = n
			}
		}
	}
	return max
}

// segment ids whose four (or two) component files are not all identical to a completed write
func vImageSegments(fs *vos.MemFS, tmpl string) (ids []int, files map[int]map[string]int) {
	files = map[int]map[string]int{}
	for p, b := range fs.Files() {
		if m := vSegRe.FindStringSubmatch(p); m != nil {
			n, _ := strconv.Atoi(m[1])
			if files[n] == nil {
				files[n] = map[string]int{}
			}
			base := p[strings.LastIndex(p, "/")+1:]
			files[n][base[:strings.Index(base, "_")]] = len(b)
		}
	}
	for n := range files {
		ids = append(ids, n)
	}
	sort.Ints(ids)
	return
}

// vCrashCheck opens the image with fresh templates and evaluates the C10 oracle; for crash
// points at operation boundaries (and one mid-write point per write) inside the in-flight
// operation it then explores a SECOND crash: the recovered store adds a document and
// flushes, and the process dies again at every operation boundary (and in the middle of
// every write) of that flush - directories with two incomplete segments.
// vCrashCheckSessions: after the crash the directory lives on through SEVERAL sessions
// before anything is written again: session 1 opens, is searched with every probe and
// closes (a read-only restart); session 2 opens, adds a document and flushes. The
// identifier of that flush lies above every identifier that occurs in the crash image,
// and the documents made durable before the crash are found in both sessions.
func vCrashCheckSessions(c *vCtx, cfg vCrashCfg, h *vCrashHistory, p vCrashPoint) {
	cfgS := cfg.String()
	hist := []string{fmt.Sprintf("crash after %d of %d file-system operations of the in-flight %s, %d bytes of the next write", p.ops, len(h.log), cfg.InFlight, p.torn),
		"session 1: open; every probe; Close; session 2: open; AddWithID 51; Rotate; Flush"}
	img := h.image(p)
	maxBefore := vMaxSegID(img)
	scfg := vStoreCfg{Mem: 2, Thr: 1, Comp: 5, Tmpl: cfg.Tmpl, Vec: "flat"}
	env := vStoreBegin(nil, img)
	defer env.end()
	c.Evaluations++
	c.Traces++
	c.Extra["read_only_restart_images"]++
	for sess := 1; sess <= 2; sess++ {
		st, err := env.open(scfg.config())
		if env.dead != "" || err != nil {
			c.Violation("reopen-failed", fmt.Sprintf("session-%d", sess), cfgS, hist, fmt.Sprint(err, env.dead))
			return
		}
		for _, q := range vStoreQueries(cfg.Tmpl) {
			var serr error
			env.do(func() { _, serr = vStoreSearch(st, q) })
			if env.dead != "" {
				c.Violation("search-aborted", fmt.Sprintf("session-%d:", sess)+vDeadCause(env.dead), cfgS, hist, env.dead)
				return
			}
			if serr != nil {
				c.Violation("search-error-after-crash", fmt.Sprintf("session-%d", sess), cfgS, hist, fmt.Sprintf("query %d: %v", q, serr))
			}
		}
		if sess == 2 {
			before := len(env.fs.Log)
			env.do(func() {
				st.AddWithID(51, []float32{2, 2}, "delta", map[string]interface{}{"s": "y"})
				st.memtableQueue.Rotate()
				st.Flush()
			})
			if env.dead != "" {
				c.Violation("flush-after-crash-aborted", "session-2:"+vDeadCause(env.dead), cfgS, hist, env.dead)
				return
			}
			for _, op := range env.fs.Log[before:] {
				if m := vSegRe.FindStringSubmatch(op.Path); m != nil && op.Kind == "create" {
					if n, _ := strconv.Atoi(m[1]); n <= maxBefore {
						c.Violation("segment-identifier-reused-after-crash", "after-a-read-only-session", cfgS, hist, fmt.Sprintf("the flush of session 2 created %s although identifiers up to %d occur in the crash image", op.Path, maxBefore))
					}
				}
			}
		}
		env.do(func() { st.Close() })
		if env.dead != "" {
			c.Violation("close-after-recovery-aborted", fmt.Sprintf("session-%d:", sess)+vDeadCause(env.dead), cfgS, hist, env.dead)
			return
		}
	}
}

func vCrashCheck(c *vCtx, cfg vCrashCfg, h *vCrashHistory, p vCrashPoint, prop string) {
	sec := vCrashCheck1(c, cfg, h, p, prop)
	if p.torn < 0 || (p.ops < len(h.log) && p.torn == len(h.log[p.ops].Data)/2) {
		vCrashCheckSessions(c, cfg, h, p)
	}
	if sec == nil {
		return
	}
	scfg := vStoreCfg{Mem: 2, Thr: 1, Comp: 5, Tmpl: cfg.Tmpl, Vec: "flat"}
	for i := 0; i <= len(sec.log); i++ {
		torns := []int{-1}
		if i < len(sec.log) && sec.log[i].Kind == "write" && len(sec.log[i].Data) > 1 {
			torns = append(torns, len(sec.log[i].Data)/2)
		}
		for _, t := range torns {
			img := sec.snap.Snapshot()
			for j := 0; j < i; j++ {
				img.ApplyOp(sec.log[j], -1)
			}
			if t >= 0 {
				img.ApplyOp(sec.log[i], t)
			}
			img.RemoveRaw(vLock())
			hist := append(append([]string{}, sec.hist...), fmt.Sprintf("recovered; AddWithID 50; Rotate; second crash after %d of %d file-system operations of the next flush, %d bytes of the next write", i, len(sec.log), t))
			c.Evaluations++
			c.Traces++
			c.Extra["second_crash_images"]++
			env := vStoreBegin(nil, img)
			st, err := env.open(scfg.config())
			if env.dead != "" || err != nil {
				c.Violation("reopen-failed", "second-crash", sec.cfgS, hist, fmt.Sprint(err, env.dead))
				env.end()
				continue
			}
			for _, q := range vStoreQueries(cfg.Tmpl) {
				var got map[uint32]float64
				var serr error
				env.do(func() { got, serr = vStoreSearch(st, q) })
				if env.dead != "" {
					c.Violation("search-aborted", "second-crash:"+vDeadCause(env.dead), sec.cfgS, hist, env.dead)
					break
				}
				if serr != nil {
					c.Violation("search-error-after-crash", "second-crash", sec.cfgS, hist, fmt.Sprintf("query %d: %v", q, serr))
					continue
				}
				for id := range got {
					if _, ok := h.ever[id]; !ok && id != 50 {
						c.Violation("returned-never-added-id", "second-crash", sec.cfgS, hist, fmt.Sprintf("query %d returned %d", q, id))
					}
				}
				for _, id := range h.durable {
					if !vStoreMatches(vStoreDocs[h.ever[id]], q, cfg.Tmpl) {
						continue
					}
					if _, ok := got[id]; !ok {
						cause := ""
						if sec.loadable >= 2 {
							cause = "several-segments-decoded-into-shared-templates"
						}
						if cfg.Compact || cfg.InFlight == "compact" {
							cause += "+compaction"
						}
						c.Violation("durable-doc-lost-after-crash", cause, sec.cfgS, hist, fmt.Sprintf("query %d returned %v; document %d was made durable by a completed flush", q, vIDSet(got), id))
					}
				}
			}
			if env.dead == "" {
				env.do(func() { st.Close() })
			}
			env.end()
			c.Nontrivial(fmt.Sprintf("%s|%d|%d|second|%d|%d", sec.cfgS, p.ops, p.torn, i, t))
		}
	}
}

type vSecondCrash struct {
	cfgS     string
	hist     []string
	snap     *vos.MemFS
	log      []vos.Op
	loadable int
}

func vCrashCheck1(c *vCtx, cfg vCrashCfg, h *vCrashHistory, p vCrashPoint, prop string) (sec *vSecondCrash) {
	cfgS := cfg.String()
	hist := []string{fmt.Sprintf("crash after %d of %d file-system operations of the in-flight %s, %d bytes of the next write", p.ops, len(h.log), cfg.InFlight, p.torn)}
	if p.ops < len(h.log) {
		hist = append(hist, fmt.Sprintf("next: %s %s (%d bytes)", h.log[p.ops].Kind, h.log[p.ops].Path, len(h.log[p.ops].Data)))
	}
	img := h.image(p)
	maxBefore := vMaxSegID(img)
	segIDs, segFiles := vImageSegments(img, cfg.Tmpl)
	// which segments are recognisable (hybrid_ file present) and which are complete
	nFilesWant := 4
	if cfg.Tmpl == "v" {
		nFilesWant = 2
	}
	loadable := 0
	torn := false
	for _, id := range segIDs {
		if _, ok := segFiles[id]["hybrid"]; ok {
			loadable++
		}
	}
	_ = nFilesWant
	scfg := vStoreCfg{Mem: 2, Thr: 1, Comp: 5, Tmpl: cfg.Tmpl, Vec: "flat"}
	env := vStoreBegin(nil, img)
	defer env.end()
	c.Evaluations++
	c.Traces++
	st, err := env.open(scfg.config())
	if env.dead != "" {
		c.Violation("reopen-aborted", vDeadCause(env.dead), cfgS, hist, env.dead)
		return
	}
	if err != nil {
		c.Violation("reopen-failed", "", cfgS, hist, err.Error())
		return
	}
	// is the crash point inside the in-flight operation (segment files incomplete)?
	// (the trailing close() calls do not change file contents: once only those remain
	// the segment on disk is complete)
	for i := p.ops; i < len(h.log); i++ {
		op := h.log[i]
		switch cfg.InFlight {
		case "close", "closeactive", "reopen":
			// Close and Open also touch the LOCK file: only operations that still have to put
			// bytes into a segment file leave the segment incomplete
			if (op.Kind == "create" || op.Kind == "write") && vSegRe.MatchString(op.Path) {
				torn = true
			}
		default:
			if op.Kind != "close" {
				torn = true
			}
		}
	}
	results := map[int]map[uint32]float64{}
	noWitness := map[uint32]bool{}
	for _, q := range vStoreQueries(cfg.Tmpl) {
		var got map[uint32]float64
		var serr error
		env.do(func() { got, serr = vStoreSearch(st, q) })
		if env.dead != "" {
			c.Violation("search-aborted", vDeadCause(env.dead), cfgS, hist, env.dead)
			return
		}
		if serr != nil {
			c.Violation("search-error-after-crash", "", cfgS, hist, fmt.Sprintf("query %d: %v", q, serr))
			continue
		}
		results[q] = got
		for _, id := range h.inflight {
			// witness evaluated right after the search that returned the document
			if _, ok := got[id]; ok && !vTornWitness(st, id) {
				noWitness[id] = true
			}
		}
		for id := range got {
			if _, ok := h.ever[id]; !ok {
				c.Violation("returned-never-added-id", "", cfgS, hist, fmt.Sprintf("query %d returned %d", q, id))
			}
		}
		for _, id := range h.durable {
			if !vStoreMatches(vStoreDocs[h.ever[id]], q, cfg.Tmpl) {
				continue
			}
			if _, ok := got[id]; !ok {
				cause := ""
				if loadable >= 2 {
					cause = "several-segments-decoded-into-shared-templates"
				}
				if cfg.Compact || cfg.InFlight == "compact" {
					cause += "+compaction"
				}
				c.Violation("durable-doc-lost-after-crash", cause, cfgS, hist, fmt.Sprintf("query %d returned %v; document %d was made durable by a completed flush; segments in image %v", q, vIDSet(got), id, segFiles))
			}
		}
	}
	// which segment does each in-flight document go to? (segments are written in order)
	var inflightSegs []int
	for _, op := range h.log {
		if op.Kind == "create" && strings.Contains(op.Path, "/hybrid_") {
			if m := vSegRe.FindStringSubmatch(op.Path); m != nil {
				n, _ := strconv.Atoi(m[1])
				inflightSegs = append(inflightSegs, n)
			}
		}
	}
	segComplete := func(seg int) bool {
		tag := fmt.Sprintf("_%06d.", seg)
		for i, op := range h.log {
			if strings.Contains(op.Path, tag) && (op.Kind == "create" || op.Kind == "write") && i >= p.ops {
				return false
			}
		}
		return true
	}
	// in-flight documents: all or none; none while the segment is incomplete
	for di, id := range h.inflight {
		if cfg.InFlight == "flush2" && di < len(inflightSegs) {
			// on this tree every segment is written from the SHARED template objects, so an
			// earlier complete in-flight segment legitimately holds the documents of the
			// later memtable too (F12): the document may be visible as soon as ANY in-flight
			// segment is complete
			torn = true
			for _, seg := range inflightSegs {
				if segComplete(seg) {
					torn = false
				}
			}
		}
		present, absent := 0, 0
		for _, q := range vStoreQueries(cfg.Tmpl) {
			if results[q] == nil || !vStoreMatches(vStoreDocs[h.ever[id]], q, cfg.Tmpl) {
				continue
			}
			if _, ok := results[q][id]; ok {
				present++
			} else {
				absent++
			}
		}
		if present > 0 && torn {
			cause := ""
			if !noWitness[id] {
				// the in-flight operation is part of the witness: on this tree only a flush
				// whose write FAILED (and the two-memtable flush) leave a torn segment whose
				// hybrid file is complete enough to be decoded
				cause = "torn-segment-partially-decoded-into-shared-templates:" + cfg.InFlight
			}
			c.Violation("incomplete-segment-contributed-documents", cause, cfgS, hist, fmt.Sprintf("document %d of the in-flight memtable is returned by %d probes although its segment is incomplete; segments in image %v", id, present, segFiles))
		} else if present > 0 && absent > 0 {
			c.Violation("in-flight-documents-partially-visible", "", cfgS, hist, fmt.Sprintf("document %d: %d probes find it, %d do not", id, present, absent))
		}
	}
	// a flush on the reopened store must use an identifier above every identifier in the image
	before := len(env.fs.Log)
	snap2 := env.fs.Snapshot()
	env.do(func() {
		st.AddWithID(50, []float32{2, 2}, "delta", map[string]interface{}{"s": "y"})
		st.memtableQueue.Rotate()
		st.Flush()
	})
	if env.dead != "" {
		c.Violation("flush-after-crash-aborted", vDeadCause(env.dead), cfgS, hist, env.dead)
		return
	}
	created := 0
	for _, op := range env.fs.Log[before:] {
		if op.Kind != "create" {
			continue
		}
		if m := vSegRe.FindStringSubmatch(op.Path); m != nil {
			n, _ := strconv.Atoi(m[1])
			created++
			if n <= maxBefore {
				c.Violation("segment-identifier-reused-after-crash", "", cfgS, hist, fmt.Sprintf("new flush created %s although identifiers up to %d occur in the crash image", op.Path, maxBefore))
			}
		}
	}
	if created == 0 {
		c.Violation("flush-after-crash-wrote-nothing", "", cfgS, hist, "Add; Rotate; Flush on the reopened store created no segment file")
	}
	midWrite := p.torn >= 0 && p.ops < len(h.log) && p.torn == len(h.log[p.ops].Data)/2
	if torn && (p.torn < 0 || midWrite) && cfg.InFlight != "compact" {
		sec = &vSecondCrash{cfgS: cfgS, hist: hist, snap: snap2, log: append([]vos.Op(nil), env.fs.Log[before:]...), loadable: loadable + 1}
	}
	if torn {
		c.Nontrivial(fmt.Sprintf("%s|%d|%d", cfgS, p.ops, p.torn))
	}
	c.Outcome(fmt.Sprint(vIDSet(results[0])))
	env.do(func() { st.Close() })
	if env.dead != "" {
		c.Violation("close-after-recovery-aborted", vDeadCause(env.dead), cfgS, hist, env.dead)
		return
	}
	// the recovered store flushed document 50 and closed: the NEXT open must find it
	// (and still succeed although the torn segment is still lying around)
	st2, err := env.open(scfg.config())
	if env.dead != "" || err != nil {
		c.Violation("second-reopen-failed", "", cfgS, hist, fmt.Sprint(err, env.dead))
		return
	}
	var got map[uint32]float64
	var serr error
	env.do(func() { got, serr = vStoreSearch(st2, 4-4*vBoolInt(cfg.Tmpl == "vtm")) })
	if env.dead != "" || serr != nil {
		c.Violation("search-after-second-reopen-failed", "", cfgS, hist, fmt.Sprint(serr, env.dead))
		return
	}
	if _, ok := got[50]; !ok {
		cause := ""
		if loadable >= 1 {
			// known shared-template defect: with an earlier loadable segment next to the new
			// one the segment decoded last replaces the other's content
			cause = "several-segments-decoded-into-shared-templates"
		}
		c.Violation("doc-flushed-after-recovery-lost-on-next-open", cause, cfgS, hist, fmt.Sprintf("document 50 was added, flushed and closed after the recovery; the next open returns %v; segments in the crash image %v", vIDSet(got), segFiles))
	}
	env.do(func() { st2.Close() })
	return sec
}

func vBoolInt(b bool) int {
	if b {
		return 1
	}
	return 0
}

func vCrashShard(cfg vCrashCfg) vShard {
	sh := vCrashShard0(cfg)
	run := sh.Run
	sh.Run = func(c *vCtx) { cfg.inDir(func() { run(c) }) }
	return sh
}

func vCrashShard0(cfg vCrashCfg) vShard {
	return vShard{Name: strings.ReplaceAll(cfg.String(), " ", ","), Run: func(c *vCtx) {
		h := vCrashRecord(cfg)
		if h.dead != "" {
			c.Violation("history-aborted", vDeadCause(h.dead), cfg.String(), nil, h.dead)
			return
		}
		if cfg.InFlight == "flushfault" && !h.faultHit {
			c.Extra["fault_positions_beyond_the_flush"]++
			c.Bound = "fault position beyond the last write of the flush: nothing to explore"
			return
		}
		pts := h.points()
		c.Extra["crash_images"] += int64(len(pts))
		c.Extra["in_flight_fs_operations"] += int64(len(h.log))
		for i, p := range pts {
			if i%32 == 0 && c.Expired() {
				c.Bound = fmt.Sprintf("%s: deadline after %d of %d crash images", cfg.String(), i, len(pts))
				return
			}
			vCrashCheck(c, cfg, h, p, "C10")
			c.Transitions++
			c.NewState(fmt.Sprintf("%s|%d|%d", cfg.String(), p.ops, p.torn))
		}
		var kinds []string
		for _, op := range h.log {
			kinds = append(kinds, op.Kind+":"+op.Path[strings.LastIndex(op.Path, "/")+1:])
		}
		if len(kinds) > 8 {
			kinds = append(kinds[:8], fmt.Sprintf("... %d more", len(kinds)-8))
		}
		c.Sample(map[string]any{"history": cfg.String(), "in_flight_log": kinds, "images": len(pts)})
		c.Bound = "every operation boundary and every byte prefix of every write of the in-flight operation"
	}}
}

// ---------------------------------------------------------------------------
// C16 (3): damaged component files of a completed segment

func vC16StoreRun(c *vCtx, tmpl string, nseg int) {
	cfgS := fmt.Sprintf("store-segment-damage tmpl=%s segments=%d", tmpl, nseg)
	h := vCrashRecord(vCrashCfg{Rounds: nseg, InFlight: "none", Tmpl: tmpl})
	if h.dead != "" {
		c.Violation("history-aborted", "", cfgS, nil, h.dead)
		return
	}
	base := h.snap
	base.RemoveRaw(vLock())
	files := base.Files()
	var names []string
	for p := range files {
		if vSegRe.MatchString(p) {
			names = append(names, p)
		}
	}
	sort.Strings(names)
	scfg := vStoreCfg{Mem: 2, Thr: 1, Comp: 5, Tmpl: tmpl, Vec: "flat"}
	for _, name := range names {
		m := vSegRe.FindStringSubmatch(name)
		segID, _ := strconv.Atoi(m[1])
		data := files[name]
		for l := -1; l < len(data); l++ { // -1 = file missing
			img := base.Snapshot()
			if l < 0 {
				img.RemoveRaw(name)
			} else {
				img.WriteFileRaw(name, data[:l])
			}
			hist := []string{fmt.Sprintf("%s truncated to %d of %d bytes (-1 = missing)", name[strings.LastIndex(name, "/")+1:], l, len(data))}
			c.Evaluations++
			c.Transitions++
			c.Traces++
			c.NewState(fmt.Sprintf("%s|%s|%d", cfgS, name, l))
			env := vStoreBegin(nil, img)
			st, err := env.open(scfg.config())
			if err != nil || env.dead != "" {
				c.Violation("open-failed-with-damaged-segment", "", cfgS, hist, fmt.Sprint(err, env.dead))
				env.end()
				continue
			}
			// documents only in the damaged segment: with shared templates segment k holds
			// documents 1..k, so document k is only in segment k when k is the last segment
			for _, q := range vStoreQueries(tmpl) {
				var got map[uint32]float64
				var serr error
				env.do(func() { got, serr = vStoreSearch(st, q) })
				if env.dead != "" || serr != nil {
					c.Violation("search-failed-with-damaged-segment", "", cfgS, hist, fmt.Sprint(serr, env.dead))
					break
				}
				for id, di := range h.ever {
					if !vStoreMatches(vStoreDocs[di], q, tmpl) {
						continue
					}
					_, present := got[id]
					onlyInDamaged := int(id) == segID && segID == nseg
					inIntact := int(id) < segID || segID < nseg
					if onlyInDamaged && present {
						cause := ""
						if vTornWitness(st, id) {
							cause = "partially-decoded-into-shared-templates"
						}
						c.Violation("damaged-segment-contributed-documents", cause, cfgS, hist, fmt.Sprintf("query %d returned %v although document %d exists only in the damaged segment %d", q, vIDSet(got), id, segID))
					}
					if inIntact && !onlyInDamaged && !present {
						cause := ""
						if nseg >= 2 {
							cause = "several-segments-decoded-into-shared-templates"
						}
						c.Violation("intact-segment-lost-documents", cause, cfgS, hist, fmt.Sprintf("query %d returned %v; document %d is held by an intact segment", q, vIDSet(got), id))
					}
				}
			}
			c.Nontrivial(fmt.Sprintf("%s|%s|%d", cfgS, name, l))
			env.do(func() { st.Close() })
			env.end()
		}
	}
	c.Sample(map[string]any{"directory": names, "damage": "every prefix 0..len-1 and removal of each component file, one at a time"})
	c.Bound = "every prefix of every component file"
}

func init() {
	vC16StoreShards = func(tier string) []vShard {
		var sh []vShard
		for _, tm := range []string{"vtm", "v"} {
			for _, n := range []int{1, 2} {
				tm, n := tm, n
				sh = append(sh, vShard{Name: fmt.Sprintf("store/segment-damage/%s/%d", tm, n), Run: func(c *vCtx) { vC16StoreRun(c, tm, n) }})
			}
		}
		return sh
	}
	vC16StoreReplay = func(c *vCtx, v *vViolation) bool {
		var tm string
		var n int
		fmt.Sscanf(v.Config, "store-segment-damage tmpl=%s segments=%d", &tm, &n)
		vC16StoreRun(c, tm, n)
		_, ok := c.viol[v.Sig()]
		return ok
	}
	vRegister(&vCheck{
		ID: "C10", Level: "fault_enumeration", Engine: "crashmc",
		Rule:        "For every history (0..2 quick / 0..3 thorough completed Add;Rotate;Flush rounds, optionally one completed compaction; in-flight operation = flush of one or of two more frozen memtables, or a compaction; templates flat+bm25+metadata and flat only) the in-flight operation is run once over the logging in-memory file system; then EVERY crash image is materialised: every prefix of its file-system operation log x every byte prefix of the write in progress (comet never syncs and the fault model is process death, so these are exactly the possible images). For each image: stale LOCK removed, store reopened with fresh templates (must succeed), every probe query must succeed, every document made durable by an earlier completed flush must be found, no never-added id, documents of the in-flight memtable must not be visible while their segment is incomplete (and all-or-none afterwards), and Add;Rotate;Flush on the reopened store must create a segment identifier above every identifier occurring in any file name of the image. Non-trivial = distinct crash images strictly inside the in-flight operation. Directory names: one completed round + in-flight flush in each of 12 directory names (brackets, blank, *, ?, backslash, dot-dot, non-ASCII, names that look like segment files).",
		Assumptions: []string{"fault model: process death (what was handed to the OS survives); loss of unsynced pages on power failure is outside the statement", "in-memory file system trusted as a model of the POSIX subset comet uses"},
		Shards: func(tier string) []vShard {
			var sh []vShard
			maxR := 3
			if tier == "thorough" {
				maxR = 5
			}
			// a flush that FAILS (its n-th write returns EIO) and cleans up after itself, with
			// the process dying at every point of that clean-up: every n, 1 completed round
			for _, tm := range []string{"vtm", "v"} {
				for n := 1; n <= 16; n++ {
					sh = append(sh, vCrashShard(vCrashCfg{Rounds: 1, InFlight: "flushfault", Tmpl: tm, Fault: n}))
				}
			}
			// the final flush of Close (frozen / active memtable) and an Open as the in-flight
			// operation
			for _, tm := range []string{"vtm", "v"} {
				for r := 0; r <= 2; r++ {
					sh = append(sh, vCrashShard(vCrashCfg{Rounds: r, InFlight: "close", Tmpl: tm}))
					sh = append(sh, vCrashShard(vCrashCfg{Rounds: r, InFlight: "closeactive", Tmpl: tm}))
					sh = append(sh, vCrashShard(vCrashCfg{Rounds: r, InFlight: "reopen", Tmpl: tm}))
				}
			}
			// the store directory's NAME is user input: one completed round + an in-flight flush
			// in directories whose names hold pattern / escape / blank characters
			for di := range vStoreDirNames {
				sh = append(sh, vCrashShard(vCrashCfg{Rounds: 1, InFlight: "flush", Tmpl: "vtm", Dir: di + 1}))
			}
			for _, tm := range []string{"vtm", "v"} {
				for r := 0; r <= maxR; r++ {
					sh = append(sh, vCrashShard(vCrashCfg{Rounds: r, InFlight: "flush", Tmpl: tm}))
					if r <= 1 {
						sh = append(sh, vCrashShard(vCrashCfg{Rounds: r, InFlight: "flush2", Tmpl: tm}))
					}
					if r >= 2 {
						sh = append(sh, vCrashShard(vCrashCfg{Rounds: r, InFlight: "compact", Tmpl: tm}))
						sh = append(sh, vCrashShard(vCrashCfg{Rounds: r, Compact: true, InFlight: "flush", Tmpl: tm}))
					}
				}
			}
			// the image at the instant a Flush is acknowledged while another thread of the
			// process is at work (scenario D3, explored by the scheduler)
			sh = append(sh, vSchedShards("C10", tier)...)
			return sh
		},
		Replay: func(c *vCtx, v *vViolation) bool {
			if strings.HasPrefix(v.Config, "sched ") {
				return vSchedReplay(c, v)
			}
			cfg := vParseCrashCfg(v.Config)
			cfg.inDir(func() {
				h := vCrashRecord(cfg)
				var ops, torn int
				if len(v.History) > 0 {
					fmt.Sscanf(v.History[0], "crash after %d of", &ops)
					if i := strings.Index(v.History[0], ", "); i >= 0 {
						fmt.Sscanf(v.History[0][i+2:], "%d bytes", &torn)
					}
				}
				vCrashCheck(c, cfg, h, vCrashPoint{ops: ops, torn: torn}, "C10")
			})
			_, ok := c.viol[v.Sig()]
			return ok
		},
	})
}
