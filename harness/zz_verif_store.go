//go:build verif && verifl2

package comet

// Shared store harness: in-memory file system, controlled scheduler, configurations,
// canonical store state. Used by C08, C09, C10, C11 (store scenarios), C16 (3), C17.

import (
	"crypto/sha1"
	"fmt"
	"math"
	"path/filepath"
	"sort"
	"strings"

	"github.com/wizenheimer/comet/internal/vrt"
	vos "github.com/wizenheimer/comet/internal/vrt/vos"
	vtime "github.com/wizenheimer/comet/internal/vrt/vtime"
)

// vStoreDir is the store's base directory inside the in-memory file system. The
// "dirnames" shards run with names containing spaces, glob metacharacters, a backslash,
// non-ASCII letters, nested non-existing parents and ".." components.
var vStoreDir = "/data"

var vStoreDirNames = []string{"/da ta", "/data[v1]", "/data*", "/d?ta", "/da\\ta", "/\u00fcn\u00ef/\u65e5\u672c", "/a/b/c", "/data/../other", "/[", "/-rf", "/data.bin.gz", "/hybrid_000009.bin.gz"}

func vLock() string { return filepath.Clean(vStoreDir + "/LOCK") }

type vStoreCfg struct {
	Mem  int    // 0: memtable fits 1 document, 1: fits 2, 2: effectively unlimited
	Thr  int    // 0: flush threshold 1 byte (every add signals the flush worker), 1: unlimited
	Comp int    // compaction threshold
	Tmpl string // "vtm" or "v"
	Vec  string // flat | hnsw | ivf
}

func (c vStoreCfg) String() string {
	return fmt.Sprintf("store mem=%d thr=%d comp=%d tmpl=%s vec=%s", c.Mem, c.Thr, c.Comp, c.Tmpl, c.Vec)
}

func vParseStoreCfg(s string) vStoreCfg {
	var c vStoreCfg
	fmt.Sscanf(s, "store mem=%d thr=%d comp=%d tmpl=%s vec=%s", &c.Mem, &c.Thr, &c.Comp, &c.Tmpl, &c.Vec)
	return c
}

var vStoreDocs = []vDoc{
	// document 0 alone carries a numeric field: once it is removed (or re-added as another
	// document) the field has no holder left when the next segment is written
	{Vec: []float32{1, 0}, Text: "alpha", Meta: map[string]interface{}{"s": "x", "n": 5}},
	{Vec: []float32{0, 1}, Text: "beta", Meta: map[string]interface{}{"s": "y"}},
	{Vec: []float32{3, 4}, Text: "gamma alpha", Meta: map[string]interface{}{"s": "x"}},
}

// vStoreSpellings: when set, session k names the store directory vStoreSpellings[(k-1) % n] -
// different path strings for ONE directory (an alias, an unclean path). A directory is the
// same store however a session spells its path.
var vStoreSpellings []string

// vStoreSessionNo: the number (1, 2, ...) of the session the next config() is for.
var vStoreSessionNo = 1

// config builds a StorageConfig with FRESH template index objects.
func (c vStoreCfg) config() *StorageConfig {
	dir := vStoreDir
	if len(vStoreSpellings) > 0 {
		dir = vStoreSpellings[(vStoreSessionNo-1)%len(vStoreSpellings)]
	}
	sc := DefaultStorageConfig(dir)
	switch c.Mem {
	case 0:
		sc.MemtableSizeLimit = 200
	case 1:
		sc.MemtableSizeLimit = 400
	default:
		sc.MemtableSizeLimit = 1 << 40
	}
	if c.Thr == 0 {
		sc.FlushThreshold = 1
	} else {
		sc.FlushThreshold = 1 << 50
	}
	sc.CompactionThreshold = c.Comp
	switch c.Vec {
	case "hnsw":
		h, _ := NewHNSWIndex(2, Euclidean, 2, 8, 8)
		sc.VectorIndexTemplate = h
	case "ivf", "ivfalt":
		iv, _ := NewIVFIndex(2, 2, Euclidean)
		ts := vTrainSet(2, 0)
		if c.Vec == "ivfalt" {
			// the template of every session is trained by that session's process: the same
			// sample in another order (k-means is positional: same clusters, other indices),
			// or another sample. A segment carries its own training; whatever the template
			// of the session that reads it was trained on must not matter.
			switch vStoreSessionNo % 3 {
			case 2:
				ts = vDeepCopy(ts)
				for i, j := 0, len(ts)-1; i < j; i, j = i+1, j-1 {
					ts[i], ts[j] = ts[j], ts[i]
				}
			case 0:
				ts = vTrainSet(2, 1)
			}
		}
		nodes := make([]VectorNode, len(ts))
		for i, v := range ts {
			nodes[i] = *NewVectorNodeWithID(uint32(1000+i), vCopyVec(v))
		}
		iv.Train(nodes)
		sc.VectorIndexTemplate = iv
	default:
		f, _ := NewFlatIndex(2, Euclidean)
		sc.VectorIndexTemplate = f
	}
	if c.Tmpl == "vtm" {
		sc.TextIndexTemplate = NewBM25SearchIndex()
		sc.MetadataIndexTemplate = NewRoaringMetadataIndex()
	}
	return sc
}

// vStoreEnv is one controlled execution: in-memory FS + scheduler.
type vStoreEnv struct {
	fs    *vos.MemFS
	sched *vrt.Scheduler
	dead  string // non-empty once the execution was aborted (deadlock / panic / horizon)
}

func vStoreBegin(choices []int, fs *vos.MemFS) *vStoreEnv {
	if fs == nil {
		fs = vos.NewMemFS()
	}
	vResetGlobals()
	vos.FS = fs
	vtime.ResetTickers()
	nodeIDCounter = 100
	documentFilterPool.Reset()
	heapPool.Reset()
	minHeapPool.Reset()
	maxHeapPool.Reset()
	e := &vStoreEnv{fs: fs}
	e.sched = vrt.Begin(choices, 200000)
	return e
}

func (e *vStoreEnv) end() {
	if e.sched != nil {
		e.sched.End()
		e.sched = nil
	}
	vos.FS = nil
}

// do runs f on the main thread, converting an abnormal end of the execution into e.dead.
func (e *vStoreEnv) do(f func()) {
	if e.dead != "" {
		return
	}
	defer func() {
		if r := recover(); r != nil {
			if _, ok := r.(vrt.Abort); ok {
				switch {
				case e.sched.Deadlock:
					e.dead = "deadlock: " + e.sched.DeadlockAt
				case e.sched.Horizon:
					e.dead = "step horizon exceeded (livelock?)"
				case len(e.sched.Panics) > 0:
					e.dead = "panic: " + e.sched.Panics[0]
				default:
					e.dead = "aborted"
				}
				return
			}
			e.dead = fmt.Sprintf("panic: main thread: %v", r)
		}
	}()
	f()
}

// open opens a store with fresh templates; its worker threads are marked daemons.
func (e *vStoreEnv) open(cfg *StorageConfig) (st *PersistentHybridIndex, err error) {
	e.do(func() {
		from := vrt.NumThreads()
		st, err = OpenPersistentHybridIndex(cfg)
		vrt.MarkDaemons(from)
	})
	return
}

func vFileHash(b []byte) string {
	h := sha1.Sum(b)
	return fmt.Sprintf("%d:%x", len(b), h[:6])
}

// vCanonDir: directory image (names + content hashes).
func vCanonDir(fs *vos.MemFS) string {
	files := fs.Files()
	names := make([]string, 0, len(files))
	for n := range files {
		names = append(names, n)
	}
	sort.Strings(names)
	var sb strings.Builder
	for _, n := range names {
		if strings.HasSuffix(n, "/LOCK") {
			fmt.Fprintf(&sb, "%s;", n) // the pid inside is irrelevant
			continue
		}
		fmt.Fprintf(&sb, "%s=%s;", n, vFileHash(files[n]))
	}
	return sb.String()
}

func vCanonHybridIdx(h *hybridSearchIndex) string {
	var sb strings.Builder
	ids := []int{}
	for id := range h.docInfo {
		ids = append(ids, int(id))
	}
	sort.Ints(ids)
	fmt.Fprintf(&sb, "docs%v", ids)
	return sb.String()
}

// vCanonStore: canonical logical state of an open store (see DESIGN appendix B).
func vCanonStore(st *PersistentHybridIndex, fs *vos.MemFS) string {
	var sb strings.Builder
	fmt.Fprintf(&sb, "closed=%v|", st.closed)
	for i, mt := range st.memtableQueue.queue {
		fmt.Fprintf(&sb, "mt%d(frozen=%v size=%d n=%d %s)", i, mt.frozen.Load(), mt.sizeUsed.Load(), mt.numDocs.Load(), vCanonHybridIdx(mt.index.(*hybridSearchIndex)))
	}
	// the sub-index objects are shared by every memtable and cached segment (templates)
	if v := st.config.VectorIndexTemplate; v != nil {
		sb.WriteString("|V:" + vCanonVec(v))
	}
	if t, ok := st.config.TextIndexTemplate.(*BM25SearchIndex); ok && t != nil {
		sb.WriteString("|T:" + vCanonBM25(t))
	}
	if m, ok := st.config.MetadataIndexTemplate.(*RoaringMetadataIndex); ok && m != nil {
		sb.WriteString("|M:" + vCanonMeta(m))
	}
	sb.WriteString("|segs:")
	for _, seg := range st.segmentManager.segments {
		fmt.Fprintf(&sb, "%d(cached=%v", seg.id, seg.cachedIndex != nil)
		if seg.cachedIndex != nil {
			sb.WriteString(" " + vCanonHybridIdx(seg.cachedIndex.(*hybridSearchIndex)))
		}
		sb.WriteString(")")
	}
	fmt.Fprintf(&sb, "|ctr=%d|flushSig=%d compSig=%d|", st.provider.segmentCounter.Load(), st.flushChan.Pending(), st.compactionChan.Pending())
	sb.WriteString(vCanonDir(fs))
	return sb.String()
}

// vStoreSearchIDs runs one of the fixed probe queries and returns the id set.
// q: 0 vector-only k=10, 1 text "alpha", 2 metadata s=x, 3 vector + filter s=x, 4 vector-only second query,
// 5 vector + text + threshold, 6 vector + threshold
func vStoreSearch(st *PersistentHybridIndex, q int) (map[uint32]float64, error) {
	s := st.NewSearch().WithK(10).WithNProbes(64).WithEfSearch(64) // approximate templates probed exhaustively
	switch q {
	case 0:
		s = s.WithVector([]float32{1, 0})
	case 1:
		s = s.WithText("alpha")
	case 2:
		s = s.WithMetadata(Eq("s", "x"))
	case 3:
		s = s.WithVector([]float32{0, 1}).WithMetadata(Eq("s", "x"))
	case 4:
		s = s.WithVector([]float32{0, 2})
	case 5:
		// vector + text + distance threshold: the threshold limits the VECTOR candidates
		// (distance <= 0.05); a text match stays a match
		s = s.WithVector([]float32{1, 0}).WithText("alpha").WithThreshold(0.05)
	case 6:
		s = s.WithVector([]float32{1, 0}).WithThreshold(0.05)
	case 7:
		// "return everything": the largest k there is
		s = s.WithVector([]float32{1, 0}).WithK(math.MaxInt64)
	case 8:
		// DEFAULT probing (IVF templates only): the query IS a stored vector, so the lists the
		// query probes first are the lists that vector was filed in - it must be found
		s = st.NewSearch().WithK(10).WithVector([]float32{1, 0}).WithThreshold(0.05)
	}
	res, err := s.Execute()
	if err != nil {
		return nil, err
	}
	out := map[uint32]float64{}
	for _, r := range res {
		out[r.ID] = r.Score
	}
	return out, nil
}

// vStoreMatches: does document d match probe query q?
func vStoreMatches(d vDoc, q int, tmpl string) bool {
	switch q {
	case 0, 4:
		return len(d.Vec) > 0
	case 1:
		return tmpl == "vtm" && strings.Contains(" "+d.Text+" ", " alpha ")
	case 2:
		return tmpl == "vtm" && d.Meta["s"] == "x"
	case 3:
		return tmpl == "vtm" && len(d.Vec) > 0 && d.Meta["s"] == "x"
	case 5:
		return tmpl == "vtm" && (vStoreMatches(d, 6, tmpl) || vStoreMatches(d, 1, tmpl))
	case 6, 8:
		return len(d.Vec) == 2 && d.Vec[0] == 1 && d.Vec[1] == 0
	case 7:
		return len(d.Vec) > 0
	}
	return false
}

func vStoreQueries(tmpl string) []int {
	if tmpl == "vtm" {
		return []int{0, 1, 2, 3, 5, 6, 7}
	}
	return []int{0, 4, 6, 7}
}

// vTornWitness: a document that exists only in an incomplete / damaged segment was
// returned. The known mechanism (F12) is narrow: the segment's load FAILED (nothing is
// cached for it) but the components decoded before the failure went INTO the shared
// template objects, which every memtable and segment wraps - so the template itself holds
// the document. Anything else (the damaged segment was accepted and cached, the document
// comes from somewhere else) gets another label and is reported.
func vTornWitness(st *PersistentHybridIndex, id uint32) bool {
	for _, seg := range st.segmentManager.segments {
		if seg.cachedIndex != nil {
			if h, ok := seg.cachedIndex.(*hybridSearchIndex); ok {
				if _, has := h.docInfo[id]; has {
					return false // a cached (successfully loaded) segment knows the document
				}
			}
		}
	}
	if v := st.config.VectorIndexTemplate; v != nil && vStoredVector(v, id) != nil {
		return true
	}
	if t, ok := st.config.TextIndexTemplate.(*BM25SearchIndex); ok && t != nil {
		if _, has := t.docLengths[id]; has {
			return true
		}
	}
	if m, ok := st.config.MetadataIndexTemplate.(*RoaringMetadataIndex); ok && m != nil && m.allDocs.Contains(id) {
		return true
	}
	return false
}

// vTemplatesHold: does the (shared) sub-index object that query q consults still hold the
// document? q: see vStoreSearch (0, 4, 6 vector; 1 text; 2 metadata; 3, 5 combinations).
func vTemplatesHold(st *PersistentHybridIndex, id uint32, q int) bool {
	inV := st.config.VectorIndexTemplate != nil && vStoredVector(st.config.VectorIndexTemplate, id) != nil
	if b := vDeletedBitmap(st.config.VectorIndexTemplate); b != nil && b.Contains(id) {
		inV = false
	}
	inT, inM := false, false
	if t, ok := st.config.TextIndexTemplate.(*BM25SearchIndex); ok && t != nil {
		_, inT = t.docLengths[id]
		if t.deletedDocs.Contains(id) {
			inT = false
		}
	}
	if m, ok := st.config.MetadataIndexTemplate.(*RoaringMetadataIndex); ok && m != nil {
		inM = m.allDocs.Contains(id)
	}
	switch q {
	case 1:
		return inT
	case 2:
		return inM
	case 3:
		return inV && inM
	case 5:
		return inV && inT
	}
	return inV
}

// number of segment decodes so far = opens of hybrid_ files (getIndex cache misses)
func vSegmentDecodes(fs *vos.MemFS) int { return fs.Count("open:hybrid") }

func vIDSet(m map[uint32]float64) []uint32 {
	out := make([]uint32, 0, len(m))
	for id := range m {
		out = append(out, id)
	}
	sort.Slice(out, func(i, j int) bool { return out[i] < out[j] })
	return out
}

// C16 (3) store shards are provided by zz_verif_c10.go (set in its init).
var vC16StoreShards func(tier string) []vShard

// C18's scheduler scenario (S19), provided by zz_verif_c11.go
var vC18SchedShards = func(tier string) []vShard { return vSchedShards("C18", tier) }
var vC16StoreReplay func(c *vCtx, v *vViolation) bool

// vCanonStoreLight: like vCanonStore but with the file system summarised by the
// incremental hash of its (append-only) operation log instead of content hashes.
func vCanonStoreLight(st *PersistentHybridIndex, fs *vos.MemFS) string {
	var sb strings.Builder
	fmt.Fprintf(&sb, "closed=%v|", st.closed)
	for i, mt := range st.memtableQueue.queue {
		fmt.Fprintf(&sb, "mt%d(%v %d %d %s)", i, mt.frozen.Load(), mt.sizeUsed.Load(), mt.numDocs.Load(), vCanonHybridIdx(mt.index.(*hybridSearchIndex)))
	}
	if v := st.config.VectorIndexTemplate; v != nil {
		sb.WriteString("|V:" + vCanonVec(v))
	}
	if t, ok := st.config.TextIndexTemplate.(*BM25SearchIndex); ok && t != nil {
		fmt.Fprintf(&sb, "|T:%d/%d/%v", t.numDocs.Load(), t.totalTokens, t.deletedDocs.ToArray())
	}
	if m, ok := st.config.MetadataIndexTemplate.(*RoaringMetadataIndex); ok && m != nil {
		fmt.Fprintf(&sb, "|M:%v", m.allDocs.ToArray())
	}
	sb.WriteString("|segs:")
	for _, seg := range st.segmentManager.segments {
		fmt.Fprintf(&sb, "%d(%v)", seg.id, seg.cachedIndex != nil)
	}
	fmt.Fprintf(&sb, "|ctr=%d|%d/%d/%v|fs=%s", st.provider.segmentCounter.Load(), st.flushChan.Pending(), st.compactionChan.Pending(), st.closeChan.IsClosed(), fs.LogHash())
	return sb.String()
}
