//go:build verif

package comet

// C19 — result post-processing (aggregate, limit, autocut, fuse, merge) obeys its laws
// (domainmc: exhaustive lattice of result lists / score maps).

import (
	"fmt"
	"math"
	"sort"
)

var vC19Scores = []float32{-1, 0, 1, 2.5, float32(math.Inf(1)), float32(math.Inf(-1)), float32(math.NaN())}

type vRS struct {
	id uint32
	sc float32
}

func vAllLists(ids []uint32, scores []float32, n int) [][]vRS {
	var alpha []vRS
	for _, id := range ids {
		for _, s := range scores {
			alpha = append(alpha, vRS{id, s})
		}
	}
	out := [][]vRS{{}}
	for i := 0; i < n; i++ {
		var next [][]vRS
		for _, p := range out {
			for _, a := range alpha {
				next = append(next, append(append([]vRS(nil), p...), a))
			}
		}
		out = next
	}
	return out
}

func vPerms(n int) [][]int {
	var out [][]int
	var rec func(cur []int, used []bool)
	rec = func(cur []int, used []bool) {
		if len(cur) == n {
			out = append(out, append([]int(nil), cur...))
			return
		}
		for i := 0; i < n; i++ {
			if !used[i] {
				used[i] = true
				rec(append(cur, i), used)
				used[i] = false
			}
		}
	}
	rec(nil, make([]bool, n))
	return out
}

func vF32Same(a, b float32) bool {
	if math.IsNaN(float64(a)) || math.IsNaN(float64(b)) {
		return math.IsNaN(float64(a)) && math.IsNaN(float64(b))
	}
	return vApprox(float64(a), float64(b))
}

type vC19 struct {
	c    *vCtx
	cfgS string
}

func (t *vC19) bad(class, cause, detail string) { t.c.Violation(class, cause, t.cfgS, nil, detail) }

// expected aggregate of one id's inputs (float64; NaN if any input is NaN or inf-inf)
func vAggRef(kind ScoreAggregationKind, in []float32) (val float64, hasNaN bool) {
	for _, x := range in {
		if math.IsNaN(float64(x)) {
			hasNaN = true
		}
	}
	switch kind {
	case SumAggregation, MeanAggregation:
		for _, x := range in {
			val += float64(x)
		}
		if kind == MeanAggregation {
			val /= float64(len(in))
		}
	case MaxAggregation:
		val = math.Inf(-1)
		for _, x := range in {
			val = math.Max(val, float64(x))
		}
	}
	return
}

func (t *vC19) aggregate(list []vRS, perms [][]int) {
	for _, kind := range []ScoreAggregationKind{SumAggregation, MaxAggregation, MeanAggregation} {
		for _, text := range []bool{false, true} {
			t.c.Evaluations++
			run := func(l []vRS) map[uint32]float32 {
				out := map[uint32]float32{}
				var ids []uint32
				var scs []float32
				if text {
					in := make([]TextResult, len(l))
					for i, x := range l {
						in[i] = TextResult{Id: x.id, Score: x.sc}
					}
					agg, _ := NewTextAggregation(kind)
					for _, r := range agg.Aggregate(in) {
						ids = append(ids, r.Id)
						scs = append(scs, r.Score)
					}
				} else {
					in := make([]VectorResult, len(l))
					for i, x := range l {
						in[i] = VectorResult{Node: *NewVectorNodeWithID(x.id, nil), Score: x.sc}
					}
					agg, _ := NewVectorAggregation(kind)
					for _, r := range agg.Aggregate(in) {
						ids = append(ids, r.Node.ID())
						scs = append(scs, r.Score)
					}
				}
				nan := false
				for i, id := range ids {
					if _, dup := out[id]; dup {
						t.bad("aggregate-duplicate-id", string(kind), fmt.Sprintf("text=%v in=%v out ids %v", text, l, ids))
					}
					out[id] = scs[i]
					if math.IsNaN(float64(scs[i])) {
						nan = true
					}
				}
				if !nan {
					for i := 1; i < len(scs); i++ {
						if (!text && scs[i-1] > scs[i]) || (text && scs[i-1] < scs[i]) {
							t.bad("aggregate-not-best-first", string(kind), fmt.Sprintf("text=%v in=%v out %v %v", text, l, ids, scs))
							break
						}
					}
				}
				return out
			}
			got := run(list)
			per := map[uint32][]float32{}
			for _, x := range list {
				per[x.id] = append(per[x.id], x.sc)
			}
			if len(got) != len(per) {
				t.bad("aggregate-id-set", string(kind), fmt.Sprintf("text=%v in=%v out %v", text, list, got))
			}
			for id, in := range per {
				ref, hasNaN := vAggRef(kind, in)
				g, ok := got[id]
				if !ok {
					t.bad("aggregate-id-set", string(kind), fmt.Sprintf("text=%v in=%v: id %d missing", text, list, id))
					continue
				}
				if hasNaN {
					continue // NaN propagation is implementation-defined
				}
				if !vF32Same(g, float32(ref)) {
					t.bad("aggregate-value", string(kind), fmt.Sprintf("text=%v in=%v: id %d got %v want %v", text, list, id, g, ref))
				}
			}
			// independence of input order (as a set of (id, score))
			for _, p := range perms {
				pl := make([]vRS, len(list))
				for i, j := range p {
					pl[i] = list[j]
				}
				pg := run(pl)
				for id, v := range got {
					_, hasNaN := vAggRef(kind, per[id])
					if w, ok := pg[id]; !ok || (!hasNaN && !vF32Same(v, w)) {
						t.bad("aggregate-order-dependent", string(kind), fmt.Sprintf("text=%v in=%v perm %v: id %d %v vs %v", text, list, p, id, v, w))
					}
				}
			}
			if len(per) < len(list) {
				t.c.Nontrivial(fmt.Sprintf("agg|%s|%v|%v", kind, text, list))
			}
		}
	}
}

func (t *vC19) limit(list []vRS) {
	in := make([]TextResult, len(list))
	for i, x := range list {
		in[i] = TextResult{Id: x.id, Score: x.sc}
	}
	for k := -2; k <= 7; k++ {
		t.c.Evaluations++
		got := LimitResults(in, k)
		want := len(in)
		if k > 0 && k < len(in) {
			want = k
		}
		ok := len(got) == want
		for i := 0; ok && i < want; i++ {
			if got[i].Id != in[i].Id || math.Float32bits(got[i].Score) != math.Float32bits(in[i].Score) {
				ok = false
			}
		}
		if !ok {
			t.bad("limit", "", fmt.Sprintf("in=%v k=%d got %v", list, k, got))
		}
		if want < len(in) {
			t.c.Nontrivial(fmt.Sprintf("limit|%v|%d", list, k))
		}
	}
}

func (t *vC19) autocut(scores []float32) {
	for cut := -2; cut <= 6; cut++ {
		t.c.Evaluations++
		func() {
			defer func() {
				if r := recover(); r != nil {
					t.bad("autocut-panic", "", fmt.Sprintf("scores=%v cutoff=%d: %v", scores, cut, r))
				}
			}()
			idx := Autocut(append([]float32(nil), scores...), cut)
			if idx < 0 || idx > len(scores) {
				t.bad("autocut-index-out-of-range", "", fmt.Sprintf("scores=%v cutoff=%d -> %d", scores, cut, idx))
			}
			in := make([]TextResult, len(scores))
			for i, s := range scores {
				in[i] = TextResult{Id: uint32(i + 1), Score: s}
			}
			out := AutocutResults(in, cut)
			if len(out) > len(in) {
				t.bad("autocut-not-a-prefix", "", fmt.Sprintf("scores=%v cutoff=%d", scores, cut))
				return
			}
			for i := range out {
				if out[i].Id != in[i].Id {
					t.bad("autocut-not-a-prefix", "", fmt.Sprintf("scores=%v cutoff=%d -> %v", scores, cut, out))
					return
				}
			}
			if cut == -1 && len(out) != len(in) {
				t.bad("autocut-disabled-but-cut", "", fmt.Sprintf("scores=%v -> %d of %d", scores, len(out), len(in)))
			}
			if len(out) < len(in) {
				t.c.Nontrivial(fmt.Sprintf("autocut|%v|%d", scores, cut))
			}
		}()
	}
}

// all score maps over ids {1,2,3}: each id absent or one of the given scores
func vAllMaps(scores []float64) []map[uint32]float64 {
	out := []map[uint32]float64{{}}
	for id := uint32(1); id <= 3; id++ {
		var next []map[uint32]float64
		for _, m := range out {
			next = append(next, m)
			for _, s := range scores {
				c := map[uint32]float64{}
				for k, v := range m {
					c[k] = v
				}
				c[id] = s
				next = append(next, c)
			}
		}
		out = next
	}
	return out
}

func vMapEq(a, b map[uint32]float64) bool {
	if len(a) != len(b) {
		return false
	}
	for k, v := range a {
		w, ok := b[k]
		if !ok || !vApprox(v, w) {
			return false
		}
	}
	return true
}

// every ranking consistent with best-first order (ties in any order)
func vRankings(m map[uint32]float64, asc bool) []map[uint32]int {
	ids := make([]uint32, 0, len(m))
	for id := range m {
		ids = append(ids, id)
	}
	sort.Slice(ids, func(i, j int) bool { return ids[i] < ids[j] })
	var out []map[uint32]int
	for _, p := range vPerms(len(ids)) {
		ok := true
		for i := 1; i < len(p); i++ {
			a, b := m[ids[p[i-1]]], m[ids[p[i]]]
			if (asc && a > b) || (!asc && a < b) {
				ok = false
			}
		}
		if ok {
			r := map[uint32]int{}
			for i, j := range p {
				r[ids[j]] = i
			}
			out = append(out, r)
		}
	}
	return out
}

func (t *vC19) fusion(v, x map[uint32]float64) {
	type fz struct {
		name string
		f    Fusion
		wv   float64
		wt   float64
		k    float64
		kind int
	}
	mk := func(kind FusionKind, cfg *FusionConfig) Fusion { f, _ := NewFusion(kind, cfg); return f }
	fs := []fz{
		{"ws(1,1)", mk(WeightedSumFusion, &FusionConfig{VectorWeight: 1, TextWeight: 1, K: 60}), 1, 1, 0, 0},
		{"ws(.3,.7)", mk(WeightedSumFusion, &FusionConfig{VectorWeight: 0.3, TextWeight: 0.7, K: 60}), 0.3, 0.7, 0, 0},
		{"ws(0,1)", mk(WeightedSumFusion, &FusionConfig{VectorWeight: 0, TextWeight: 1, K: 60}), 0, 1, 0, 0},
		{"rrf(1)", mk(ReciprocalRankFusion, &FusionConfig{VectorWeight: 1, TextWeight: 1, K: 1}), 0, 0, 1, 1},
		{"rrf(60)", mk(ReciprocalRankFusion, &FusionConfig{VectorWeight: 1, TextWeight: 1, K: 60}), 0, 0, 60, 1},
		{"max", mk(MaxFusion, nil), 0, 0, 0, 2},
		{"min", mk(MinFusion, nil), 0, 0, 0, 3},
		{"default", DefaultFusion(), 1, 1, 0, 0},
	}
	for _, f := range fs {
		t.c.Evaluations++
		vc, xc := map[uint32]float64{}, map[uint32]float64{}
		for k, w := range v {
			vc[k] = w
		}
		for k, w := range x {
			xc[k] = w
		}
		got := f.f.Combine(vc, xc)
		if !vMapEq(vc, v) || !vMapEq(xc, x) || len(vc) != len(v) || len(xc) != len(x) {
			t.bad("fusion-mutated-input", f.name, fmt.Sprintf("v=%v x=%v", v, x))
		}
		var accept []map[uint32]float64
		switch f.kind {
		case 0:
			m := map[uint32]float64{}
			for id, w := range v {
				m[id] = f.wv * w
			}
			for id, w := range x {
				m[id] += f.wt * w
			}
			accept = append(accept, m)
		case 1:
			for _, rv := range vRankings(v, true) {
				for _, rx := range vRankings(x, false) {
					for origin := 0; origin <= 1; origin++ {
						m := map[uint32]float64{}
						for id, r := range rv {
							m[id] += 1 / (f.k + float64(r+origin))
						}
						for id, r := range rx {
							m[id] += 1 / (f.k + float64(r+origin))
						}
						accept = append(accept, m)
					}
				}
			}
		case 2:
			m := map[uint32]float64{}
			for id, w := range v {
				m[id] = w
			}
			for id, w := range x {
				if o, ok := m[id]; !ok || w > o {
					m[id] = w
				}
			}
			accept = append(accept, m)
		case 3:
			m := map[uint32]float64{}
			for id, w := range v {
				if o, ok := x[id]; ok {
					m[id] = math.Min(w, o)
				}
			}
			accept = append(accept, m)
		}
		ok := false
		for _, m := range accept {
			if vMapEq(got, m) {
				ok = true
				break
			}
		}
		if !ok {
			t.bad("fusion-value", f.name, fmt.Sprintf("v=%v x=%v got %v want one of %v", v, x, got, accept[:1]))
		}
		// a side without scores may be an allocated empty map or a nil map (what a caller
		// that never ran that modality has in hand): same answer, no panic
		if len(v) == 0 || len(x) == 0 {
			for rep := 1; rep < 4; rep++ {
				va, xa := vc, xc
				if rep&1 != 0 {
					if len(v) != 0 {
						continue
					}
					va = nil
				}
				if rep&2 != 0 {
					if len(x) != 0 {
						continue
					}
					xa = nil
				}
				t.c.Evaluations++
				var alt map[uint32]float64
				var pan interface{}
				func() {
					defer func() { pan = recover() }()
					alt = f.f.Combine(va, xa)
				}()
				if pan != nil {
					t.bad("fusion-panicked", f.name+":nil-map-for-an-empty-side", fmt.Sprintf("v=%v (nil=%v) x=%v (nil=%v): %v", v, va == nil, x, xa == nil, pan))
				} else {
					okAlt := false
					for _, m := range accept {
						if vMapEq(alt, m) {
							okAlt = true
							break
						}
					}
					if !okAlt {
						t.bad("fusion-value", f.name+":nil-map-for-an-empty-side", fmt.Sprintf("v=%v (nil=%v) x=%v (nil=%v): got %v, with empty maps %v", v, va == nil, x, xa == nil, alt, got))
					}
				}
			}
		}
		if len(v) > 0 && len(x) > 0 {
			t.c.Nontrivial(fmt.Sprintf("fuse|%s|%v|%v", f.name, v, x))
		}
	}
}

// fusionLong: like fusion but for maps without score ties (a single consistent ranking).
func (t *vC19) fusionLong(v, x map[uint32]float64) {
	mk := func(kind FusionKind, cfg *FusionConfig) Fusion { f, _ := NewFusion(kind, cfg); return f }
	type fz struct {
		name string
		f    Fusion
		kind int
	}
	for _, f := range []fz{{"ws(.3,.7)", mk(WeightedSumFusion, &FusionConfig{VectorWeight: 0.3, TextWeight: 0.7, K: 60}), 0}, {"rrf(60)", mk(ReciprocalRankFusion, &FusionConfig{VectorWeight: 1, TextWeight: 1, K: 60}), 1}, {"max", mk(MaxFusion, nil), 2}, {"min", mk(MinFusion, nil), 3}} {
		t.c.Evaluations++
		got := f.f.Combine(v, x)
		var accept []map[uint32]float64
		switch f.kind {
		case 0:
			m := map[uint32]float64{}
			for id, w := range v {
				m[id] = 0.3 * w
			}
			for id, w := range x {
				m[id] += 0.7 * w
			}
			accept = append(accept, m)
		case 1:
			rank := func(mm map[uint32]float64, asc bool) map[uint32]int {
				ids := make([]uint32, 0, len(mm))
				for id := range mm {
					ids = append(ids, id)
				}
				sort.Slice(ids, func(i, j int) bool {
					if asc {
						return mm[ids[i]] < mm[ids[j]]
					}
					return mm[ids[i]] > mm[ids[j]]
				})
				r := map[uint32]int{}
				for i, id := range ids {
					r[id] = i
				}
				return r
			}
			for origin := 0; origin <= 1; origin++ {
				m := map[uint32]float64{}
				for id, r := range rank(v, true) {
					m[id] += 1 / (60 + float64(r+origin))
				}
				for id, r := range rank(x, false) {
					m[id] += 1 / (60 + float64(r+origin))
				}
				accept = append(accept, m)
			}
		case 2:
			m := map[uint32]float64{}
			for id, w := range v {
				m[id] = w
			}
			for id, w := range x {
				if o, ok := m[id]; !ok || w > o {
					m[id] = w
				}
			}
			accept = append(accept, m)
		case 3:
			m := map[uint32]float64{}
			for id, w := range v {
				if o, ok := x[id]; ok {
					m[id] = math.Min(w, o)
				}
			}
			accept = append(accept, m)
		}
		ok := false
		for _, m := range accept {
			if vMapEq(got, m) {
				ok = true
			}
		}
		if !ok {
			t.bad("fusion-value", f.name+":long", fmt.Sprintf("%d + %d ids: result has %d ids", len(v), len(x), len(got)))
		}
		t.c.Nontrivial(fmt.Sprintf("fuselong|%s|%d", f.name, len(v)))
	}
}

func (t *vC19) merge(list []vRS) {
	t.c.Evaluations++
	in := make([]HybridSearchResult, len(list))
	best := map[uint32]float64{}
	for i, x := range list {
		in[i] = HybridSearchResult{ID: x.id, Score: float64(x.sc)}
		if o, ok := best[x.id]; !ok || float64(x.sc) > o {
			best[x.id] = float64(x.sc)
		}
	}
	got := mergeResults(append([]HybridSearchResult(nil), in...))
	gm := map[uint32]float64{}
	for _, r := range got {
		if _, dup := gm[r.ID]; dup {
			t.bad("merge-duplicate-id", "", fmt.Sprintf("in=%v out=%v", list, got))
		}
		gm[r.ID] = r.Score
	}
	if !vMapEq(gm, best) {
		t.bad("merge-not-highest-score", "", fmt.Sprintf("in=%v out=%v want %v", list, got, best))
	}
	sortResultsByScore(got)
	for i := 1; i < len(got); i++ {
		if got[i-1].Score < got[i].Score {
			t.bad("sort-not-descending", "", fmt.Sprintf("in=%v sorted=%v", list, got))
		}
	}
	if len(best) < len(list) {
		t.c.Nontrivial(fmt.Sprintf("merge|%v", list))
	}
}

// merge64: store results carry float64 scores. Scores that differ only beyond float32
// precision (0.75 and 0.75+1e-9, 2^24 and 2^24+1) are different scores: the merged entry of
// an id carries EXACTLY its highest input score, and the sorted list is non-increasing
// exactly.
func (t *vC19) merge64(ids []uint32, scores []float64) {
	t.c.Evaluations++
	in := make([]HybridSearchResult, len(ids))
	best := map[uint32]float64{}
	for i := range ids {
		in[i] = HybridSearchResult{ID: ids[i], Score: scores[i]}
		if o, ok := best[ids[i]]; !ok || scores[i] > o {
			best[ids[i]] = scores[i]
		}
	}
	got := mergeResults(append([]HybridSearchResult(nil), in...))
	gm := map[uint32]float64{}
	for _, r := range got {
		if _, dup := gm[r.ID]; dup {
			t.bad("merge-duplicate-id", "float64", fmt.Sprintf("in=%v out=%v", in, got))
		}
		gm[r.ID] = r.Score
	}
	for id, w := range best {
		if g, ok := gm[id]; !ok || g != w {
			t.bad("merge-not-highest-score", "float64-exact", fmt.Sprintf("in=%v: id %d merged to %.17g, highest input score %.17g", in, id, g, w))
		}
	}
	if len(gm) != len(best) {
		t.bad("merge-not-highest-score", "float64-ids", fmt.Sprintf("in=%v out=%v", in, got))
	}
	sortResultsByScore(got)
	for i := 1; i < len(got); i++ {
		if got[i-1].Score < got[i].Score {
			t.bad("sort-not-descending", "float64-exact", fmt.Sprintf("in=%v sorted=%v", in, got))
		}
	}
	t.c.Nontrivial(fmt.Sprintf("merge64|%v|%v", ids, scores))
}

func init() {
	vRegister(&vCheck{
		ID: "C19", Level: "exploration", Engine: "domainmc",
		Rule:        "Exhaustive lattice: ALL result lists of length 0..3 (quick) / 0..4 (thorough) over ids {1,2,3} x scores {-1, 0, 1, 2.5, +Inf, -Inf, NaN}: vector and text aggregation x {sum,max,mean} (each id once, value, best-first order for NaN-free inputs, independence of EVERY permutation of the input), LimitResults for k in -2..7; structured long lists (n distinct ids for every n in 1..130 and 200/257/300/513, with repeats of early / middle / late ids appended, prepended or inserted, plus reversed and rotated orders); Autocut/AutocutResults for cutoff in -2..6 on EVERY score list of length 0..5 over the score alphabet (no panic, prefix, identity when disabled); fusion on ALL pairs of the 343 score maps over ids {1,2,3} x 6 scores (negative, zero, ties included) x {weighted sum (1,1),(0.3,0.7),(0,1), default, RRF K in {1,60}, max, min} (key set, values, inputs unchanged; RRF ties: any consistent ranking, origin 0 or 1); mergeResults/sortResultsByScore on all NaN-free lists of length 0..4. Non-trivial = distinct inputs with a repeated id (aggregate/merge), an actual truncation (limit/autocut), or two non-empty maps (fusion). Fusion: whenever a side has no scores it is passed as an empty map and as a nil map (all combinations): no panic, an accepted answer.",
		Assumptions: []string{"NaN propagation in aggregation is implementation-defined and not judged", "float tolerance 1e-5 relative"},
		Shards: func(tier string) []vShard {
			var sh []vShard
			maxL := 4
			_ = tier
			ids := []uint32{1, 2, 3}
			for part := 0; part < 7; part++ {
				part := part
				sh = append(sh, vShard{Name: fmt.Sprintf("aggregate-limit/part%d", part), Run: func(c *vCtx) {
					t := &vC19{c: c, cfgS: "aggregate-limit"}
					for l := 0; l <= maxL; l++ {
						perms := vPerms(l)
						for i, list := range vAllLists(ids, vC19Scores, l) {
							if i%7 != part {
								continue
							}
							t.aggregate(list, perms)
							t.limit(list)
						}
						if c.Expired() {
							c.Bound = fmt.Sprintf("lists up to length %d complete", l-1)
							return
						}
					}
					c.Sample(fmt.Sprint(vAllLists(ids, vC19Scores, 2)[part*11]))
					c.Bound = fmt.Sprintf("all lists of length 0..%d", maxL)
				}})
			}
			fdepth := 5
			if tier == "thorough" {
				fdepth = 6
			}
			sh = append(sh, vShard{Name: "fusion/object-histories", Run: func(c *vCtx) { vFusionObjectsMC(c, fdepth) }})
			// long lists: n distinct ids followed / preceded / interleaved by repeats of early,
			// middle and late ids, for every n in 1..130 and a few larger (growth of internal
			// tables, pointer stability, counts per id)
			sh = append(sh, vShard{Name: "aggregate-long", Run: func(c *vCtx) {
				t := &vC19{c: c, cfgS: "aggregate-long"}
				var ns []int
				for n := 1; n <= 130; n++ {
					ns = append(ns, n)
				}
				ns = append(ns, 200, 257, 300, 513, 1025, 2049, 4097, 5000)
				if tier == "thorough" {
					ns = append(ns, 8193, 10000, 16385, 40000, 65537)
				}
				for _, n := range ns {
					base := make([]vRS, n)
					for i := range base {
						base[i] = vRS{uint32(i + 1), float32((i*7)%11) - 3}
					}
					reps := []int{1, 2, n/2 + 1, n}
					var extra []vRS
					for j, id := range reps {
						extra = append(extra, vRS{uint32(id), float32(j) + 0.5}, vRS{uint32(id), -1.25})
					}
					lists := [][]vRS{
						append(append([]vRS{}, base...), extra...),
						append(append([]vRS{}, extra...), base...),
					}
					mid := append([]vRS{}, base[:n/2]...)
					mid = append(mid, extra...)
					mid = append(mid, base[n/2:]...)
					lists = append(lists, mid)
					for _, l := range lists {
						rev := make([]int, len(l))
						rot := make([]int, len(l))
						for i := range l {
							rev[i] = len(l) - 1 - i
							rot[i] = (i + len(l)/3) % len(l)
						}
						t.aggregate(l, [][]int{rev, rot})
						t.limit(l[:min(len(l), 6)])
					}
				}
				c.Sample("ids 1..48 once each, then ids 1,2,25,48 twice more; reversed and rotated")
				c.Bound = fmt.Sprintf("n in 1..130 and %v", ns[130:])
			}})
			// long inputs for limit / autocut / merge / fusion: every n in 1..130 (+ a few larger)
			sh = append(sh, vShard{Name: "long-inputs", Run: func(c *vCtx) {
				t := &vC19{c: c, cfgS: "long-inputs"}
				var ns []int
				for n := 1; n <= 130; n++ {
					ns = append(ns, n)
				}
				ns = append(ns, 200, 257, 300, 513, 1025, 4097, 5000)
				if tier == "thorough" {
					ns = append(ns, 8193, 16385, 65537)
				}
				for _, n := range ns {
					// score shapes: constant, linear, one gap at every tenth position, two plateaus
					shapes := [][]float32{make([]float32, n), make([]float32, n), make([]float32, n)}
					for i := 0; i < n; i++ {
						shapes[0][i] = 1
						shapes[1][i] = float32(i) * 0.5
						shapes[2][i] = float32(i / (n/2 + 1) * 10)
					}
					step := 10
					if n > 600 {
						step = n / 12
					}
					for g := 0; g < n; g += step {
						sh := make([]float32, n)
						for i := range sh {
							sh[i] = float32(i) * 0.01
							if i > g {
								sh[i] += 5
							}
						}
						shapes = append(shapes, sh)
					}
					for _, sc := range shapes {
						t.autocut(sc)
						l := make([]vRS, n)
						for i := range l {
							l[i] = vRS{uint32(i%((n+1)/2) + 1), sc[i]} // every id (about) twice
						}
						t.merge(l)
						in := make([]TextResult, n)
						for i, x := range l {
							in[i] = TextResult{Id: x.id, Score: x.sc}
						}
						for _, k := range []int{-1, 0, 1, n - 1, n, n + 1} {
							c.Evaluations++
							got := LimitResults(in, k)
							want := n
							if k > 0 && k < n {
								want = k
							}
							if len(got) != want || (want > 0 && (got[0] != in[0] || got[want-1] != in[want-1])) {
								t.bad("limit", "long", fmt.Sprintf("n=%d k=%d -> %d", n, k, len(got)))
							}
						}
					}
					// fusion with n ids in each modality, overlapping in the middle third
					v, x := map[uint32]float64{}, map[uint32]float64{}
					for i := 0; i < n; i++ {
						v[uint32(i+1)] = float64(i) * 0.25
						x[uint32(i+1+n/3)] = float64(n-i) * 0.5
					}
					t.fusionLong(v, x)
				}
				c.Sample("n in 1..130, 200, 257, 300, 513: constant / linear / plateau / gap-at-g score shapes; fusion of two n-id maps overlapping in n/3..n")
				c.Bound = fmt.Sprintf("n in 1..130 and %v", ns[130:])
			}})
			sh = append(sh, vShard{Name: "autocut", Run: func(c *vCtx) {
				t := &vC19{c: c, cfgS: "autocut"}
				for l := 0; l <= 5; l++ {
					lists := [][]float32{{}}
					for i := 0; i < l; i++ {
						var next [][]float32
						for _, p := range lists {
							for _, s := range vC19Scores {
								next = append(next, append(append([]float32(nil), p...), s))
							}
						}
						lists = next
					}
					for _, s := range lists {
						t.autocut(s)
					}
				}
				// a few longer monotone lists with gaps (typical use)
				t.autocut([]float32{0.1, 0.11, 0.12, 0.5, 0.51, 0.9})
				t.autocut([]float32{9, 8.9, 8.8, 3, 2.9, 0.1})
				c.Sample("scores=[0 1 +Inf NaN -1] cutoff=-2..6")
				c.Bound = "all score lists of length 0..5"
			}})
			for part := 0; part < 5; part++ {
				part := part
				sh = append(sh, vShard{Name: fmt.Sprintf("fusion/part%d", part), Run: func(c *vCtx) {
					t := &vC19{c: c, cfgS: "fusion"}
					// zero and negative scores included (a distance of exactly 0 is an exact match)
					maps := vAllMaps([]float64{-1, 0, 0.5, 1, 1.0000001, 2})
					for i, v := range maps {
						if i%5 != part {
							continue
						}
						for _, x := range maps {
							t.fusion(v, x)
						}
					}
					c.Sample(fmt.Sprintf("v=%v x=%v", maps[part+7], maps[len(maps)-1-part]))
					c.Bound = "all pairs of score maps"
				}})
			}
			sh = append(sh, vShard{Name: "merge", Run: func(c *vCtx) {
				t := &vC19{c: c, cfgS: "merge"}
				sc := []float32{-1, 0, 1, 2.5, float32(math.Inf(1)), float32(math.Inf(-1))}
				for l := 0; l <= 4; l++ {
					for _, list := range vAllLists(ids, sc, l) {
						if l == 4 && tier != "thorough" && list[0].id != 1 {
							continue
						}
						t.merge(list)
					}
				}
				// float64 scores that coincide in float32: all lists of length <= 4 over 3 ids
				s64 := []float64{0.75, 0.75 + 1e-9, 16777216, 16777217, -0.5, -0.5 - 1e-12, 1e-300, 0}
				var rec func(idl []uint32, scl []float64)
				rec = func(idl []uint32, scl []float64) {
					if len(idl) > 0 {
						t.merge64(idl, scl)
					}
					if len(idl) == 4 || (len(idl) == 3 && tier != "thorough") {
						return
					}
					for _, id := range []uint32{1, 2, 3} {
						for _, sc := range s64 {
							rec(append(append([]uint32(nil), idl...), id), append(append([]float64(nil), scl...), sc))
						}
					}
				}
				rec(nil, nil)
				c.Sample("[{1 1} {1 2.5} {2 -Inf}]")
				c.Bound = "all NaN-free lists of length 0..4; all lists of length <= 3 (4) over float64 scores that coincide in float32"
			}})
			return sh
		},
	})
}
