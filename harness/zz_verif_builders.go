//go:build verif

package comet

// Search-object histories ("builder histories"): a search object (the value returned by
// NewSearch) is a description of a query. The explorer below enumerates EVERY sequence of
// <= depth steps over a menu of configuration calls on the object (With*), calls on the
// index behind it (Add / Remove / Flush / SetEfSearch) and judges, for each sequence
// x1..xn, two objects on the same freshly built index:
//
//	A: NewSearch; base; x1; Execute; x2; Execute; ... ; xn; Execute      -> rA
//	B: (index-level steps applied by A's run)  NewSearch; base; the object-level steps
//	   of x1..xn without any intermediate Execute; Execute                -> rB
//
// rA must equal rB (error for error, result for result, ties at the cut tolerated): an
// execution must not leave anything behind in the object that a later execution sees,
// and an object created before an index-level call must answer like one created after
// it. The oracle is differential (no hand-written expectation); the objects built fresh
// are the ones the per-property alphabets judge against the reference models.

import (
	"fmt"
	"math"
	"sort"
)

type vIDScore struct {
	ID    uint32
	Score float64
}

func vIDScores[R Result](res []R) []vIDScore {
	out := make([]vIDScore, len(res))
	for i, r := range res {
		out[i] = vIDScore{r.GetId(), float64(r.GetScore())}
	}
	return out
}

func vIDScoreStr(l []vIDScore) string {
	s := ""
	for _, r := range l {
		s += fmt.Sprintf("%d:%.5g ", r.ID, r.Score)
	}
	return s
}

// vSameRanked: same length, rank-by-rank equal scores, and an id present in only one of
// the lists must be tied with the score at the cut (ties at the cut are unspecified).
func vSameRanked(a, b []vIDScore) string {
	if len(a) != len(b) {
		return fmt.Sprintf("lengths %d vs %d", len(a), len(b))
	}
	if len(a) == 0 {
		return ""
	}
	for i := range a {
		if !vApprox(a[i].Score, b[i].Score) && !(math.IsNaN(a[i].Score) && math.IsNaN(b[i].Score)) {
			return fmt.Sprintf("rank %d scores %v vs %v", i, a[i].Score, b[i].Score)
		}
	}
	last := a[len(a)-1].Score
	inB := map[uint32]bool{}
	for _, r := range b {
		inB[r.ID] = true
	}
	for _, r := range a {
		if !inB[r.ID] && !vApprox(r.Score, last) {
			return fmt.Sprintf("id %d only in one of the results and not tied at the cut", r.ID)
		}
	}
	return ""
}

type vBStep[S any] struct {
	Name string
	Do   func(s S) S // object-level step
	Idx  func()      // index-level step (acts on the index created by the last setup call)
}

type vBuilderSys[S any] struct {
	What   string
	Config string
	Setup  func() func() S // builds a fresh index in the base state, returns its NewSearch
	Base   func(s S) S     // base configuration applied right after NewSearch
	Menu   []vBStep[S]
	Exec   func(s S) ([]vIDScore, error)
	// Unordered: the result is a set (metadata search); compared as sorted id lists
	Unordered bool
}

// vBuilderMC enumerates all step sequences of length 1..depth (prefix-closed, so every
// intermediate execution of A is itself the final execution of a shorter sequence).
func vBuilderMC[S any](c *vCtx, sys *vBuilderSys[S], depth int) {
	seq := make([]int, 0, depth)
	var rec func()
	rec = func() {
		if len(seq) > 0 {
			vBuilderJudge(c, sys, seq)
		}
		if len(seq) == depth || c.Expired() {
			return
		}
		for i := range sys.Menu {
			seq = append(seq, i)
			rec()
			seq = seq[:len(seq)-1]
		}
	}
	rec()
}

func vBuilderJudge[S any](c *vCtx, sys *vBuilderSys[S], seq []int) {
	c.Transitions++
	c.Traces++
	vResetGlobals()
	newSearch := sys.Setup()
	a := sys.Base(newSearch())
	var ra []vIDScore
	var ea error
	for _, i := range seq {
		st := sys.Menu[i]
		if st.Idx != nil {
			st.Idx()
		} else {
			a = st.Do(a)
		}
		ra, ea = sys.Exec(a)
	}
	b := sys.Base(newSearch())
	for _, i := range seq {
		if st := sys.Menu[i]; st.Do != nil {
			b = st.Do(b)
		}
	}
	rb, eb := sys.Exec(b)
	c.Evaluations++
	names := func() []string {
		var h []string
		for _, i := range seq {
			h = append(h, sys.Menu[i].Name)
		}
		return h
	}
	if (ea != nil) != (eb != nil) {
		c.Violation("search-object-history", "error-differs", sys.Config, names(),
			fmt.Sprintf("%s: the object executed after every step returned err=%v, a fresh object given the same configuration calls err=%v", sys.What, ea, eb))
		return
	}
	if ea != nil {
		c.Outcome("err")
		return
	}
	if sys.Unordered {
		sort.Slice(ra, func(i, j int) bool { return ra[i].ID < ra[j].ID })
		sort.Slice(rb, func(i, j int) bool { return rb[i].ID < rb[j].ID })
		if fmt.Sprint(ra) != fmt.Sprint(rb) {
			c.Violation("search-object-history", "result-differs", sys.Config, names(),
				fmt.Sprintf("%s: the object executed after every step returned [%s], a fresh object given the same configuration calls [%s]", sys.What, vIDScoreStr(ra), vIDScoreStr(rb)))
		}
	} else if msg := vSameRanked(ra, rb); msg != "" {
		c.Violation("search-object-history", "result-differs", sys.Config, names(),
			fmt.Sprintf("%s: the object executed after every step returned [%s], a fresh object given the same configuration calls [%s]: %s", sys.What, vIDScoreStr(ra), vIDScoreStr(rb), msg))
	}
	// object C: configured one statement per option, the returned value discarded
	// (s.WithK(k); s.WithDocumentIDs(ids...); ...): every option method of a search object
	// configures the receiver, so C answers like the fluently chained B
	cobj := sys.Base(newSearch())
	for _, i := range seq {
		if st := sys.Menu[i]; st.Do != nil {
			st.Do(cobj)
		}
	}
	rc, ec := sys.Exec(cobj)
	c.Evaluations++
	if (ec != nil) != (eb != nil) {
		c.Violation("search-object-history", "stepwise-configuration:error-differs", sys.Config, names(),
			fmt.Sprintf("%s: an object configured one statement per option (return values discarded) returned err=%v, the fluent chain err=%v", sys.What, ec, eb))
	} else if ec == nil {
		if sys.Unordered {
			sort.Slice(rc, func(i, j int) bool { return rc[i].ID < rc[j].ID })
		}
		if (sys.Unordered && fmt.Sprint(rc) != fmt.Sprint(rb)) || (!sys.Unordered && vSameRanked(rc, rb) != "") {
			c.Violation("search-object-history", "stepwise-configuration:result-differs", sys.Config, names(),
				fmt.Sprintf("%s: an object configured one statement per option (return values discarded) returned [%s], the fluent chain [%s]", sys.What, vIDScoreStr(rc), vIDScoreStr(rb)))
		}
	}
	if len(seq) > 1 {
		c.Nontrivial(fmt.Sprintf("%s|%s|%v", sys.What, sys.Config, seq))
	}
	c.Outcome(vIDScoreStr(rb))
}

// ---------------------------------------------------------------------------
// vector kinds

// vVecBuilderSys: base state = ids 1..4 added (distinct distances from the two queries),
// id 2 removed (soft-deleted, not flushed).
func vVecBuilderSys(cfg vVecCfg, state int) *vBuilderSys[VectorSearch] {
	var idx VectorIndex
	d := cfg.Dim
	mk := func(a, b float32) []float32 {
		v := make([]float32, d)
		for j := range v {
			switch j % 2 {
			case 0:
				v[j] = a + float32(j)*0.25
			default:
				v[j] = b - float32(j)*0.5
			}
		}
		return v
	}
	docs := [][]float32{mk(1, 0.5), mk(2, 1.75), mk(0.25, 3), mk(4, 4.5), mk(-1, -2.25), mk(6, 1.25)}
	q0, q1 := mk(0.125, 0.25), mk(3, 3.375)
	thr := float32(3)
	if cfg.Metric == Cosine {
		thr = 0.2
	}
	if cfg.Metric == L2Squared {
		thr = 9
	}
	sys := &vBuilderSys[VectorSearch]{What: "vector search object", Config: fmt.Sprintf("%s builder-state=%d", cfg.String(), state)}
	sys.Setup = func() func() VectorSearch {
		var err error
		idx, err = cfg.New()
		if err != nil {
			panic(err)
		}
		n := 4
		if state == 0 {
			n = 0
		}
		for i := 0; i < n; i++ {
			if err := idx.Add(*NewVectorNodeWithID(uint32(i+1), vCopyVec(docs[i]))); err != nil {
				panic(err)
			}
		}
		if state >= 2 {
			idx.Remove(*NewVectorNodeWithID(2, nil))
		}
		if state >= 3 {
			idx.Flush()
		}
		return func() VectorSearch { return idx.NewSearch() }
	}
	sys.Base = func(s VectorSearch) VectorSearch { return s.WithQuery(vCopyVec(q0)).WithK(3) }
	sys.Exec = func(s VectorSearch) ([]vIDScore, error) {
		r, err := s.Execute()
		return vIDScores(r), err
	}
	obj := func(name string, f func(s VectorSearch) VectorSearch) {
		sys.Menu = append(sys.Menu, vBStep[VectorSearch]{Name: name, Do: f})
	}
	ix := func(name string, f func()) { sys.Menu = append(sys.Menu, vBStep[VectorSearch]{Name: name, Idx: f}) }
	obj("WithQuery(q1)", func(s VectorSearch) VectorSearch { return s.WithQuery(vCopyVec(q1)) })
	obj("WithNode(1)", func(s VectorSearch) VectorSearch { return s.WithNode(1) })
	if cfg.Kind != "pq" && cfg.Kind != "ivfpq" {
		// multi-query steps are left out for the quantising kinds: documents that share
		// their codes tie, a tie at the PER-QUERY cut is broken arbitrarily, and after the
		// aggregation the choice shows in the middle of the list
		obj("WithQuery(q0,q1)", func(s VectorSearch) VectorSearch { return s.WithQuery(vCopyVec(q0), vCopyVec(q1)) })
		obj("WithNode(2,3)", func(s VectorSearch) VectorSearch { return s.WithNode(2, 3) })
	}
	obj("WithNode()", func(s VectorSearch) VectorSearch { return s.WithNode() })
	obj("WithK(1)", func(s VectorSearch) VectorSearch { return s.WithK(1) })
	obj("WithK(-1)", func(s VectorSearch) VectorSearch { return s.WithK(-1) })
	obj("WithThreshold(t)", func(s VectorSearch) VectorSearch { return s.WithThreshold(thr) })
	obj("WithThreshold(0)", func(s VectorSearch) VectorSearch { return s.WithThreshold(0) })
	obj("WithDocumentIDs(1,3)", func(s VectorSearch) VectorSearch { return s.WithDocumentIDs(1, 3) })
	obj("WithDocumentIDs(4,9)", func(s VectorSearch) VectorSearch { return s.WithDocumentIDs(4, 9) })
	obj("WithDocumentIDs()", func(s VectorSearch) VectorSearch { return s.WithDocumentIDs() })
	obj("WithScoreAggregation(max)", func(s VectorSearch) VectorSearch { return s.WithScoreAggregation(MaxAggregation) })
	obj("WithCutoff(1)", func(s VectorSearch) VectorSearch { return s.WithCutoff(1) })
	obj("WithCutoff(-1)", func(s VectorSearch) VectorSearch { return s.WithCutoff(-1) })
	switch cfg.Kind {
	case "ivf", "ivfpq":
		obj("WithNProbes(1)", func(s VectorSearch) VectorSearch { return s.WithNProbes(1) })
		obj("WithNProbes(-1)", func(s VectorSearch) VectorSearch { return s.WithNProbes(-1) })
	case "hnsw":
		obj("WithEfSearch(1)", func(s VectorSearch) VectorSearch { return s.WithEfSearch(1) })
		obj("WithEfSearch(64)", func(s VectorSearch) VectorSearch { return s.WithEfSearch(64) })
		ix("index.SetEfSearch(1)", func() { idx.(*HNSWIndex).SetEfSearch(1) })
		ix("index.SetEfSearch(64)", func() { idx.(*HNSWIndex).SetEfSearch(64) })
	}
	// another search object, with another restriction, executes in between (pooled
	// filters / heaps are shared between the objects of one process)
	ix("other object: WithDocumentIDs(3,4) executes", func() {
		idx.NewSearch().WithQuery(vCopyVec(q1)).WithDocumentIDs(3, 4).WithK(2).Execute()
	})
	ix("index.Add(5)", func() { idx.Add(*NewVectorNodeWithID(5, vCopyVec(docs[4]))) })
	ix("index.Remove(1)", func() { idx.Remove(*NewVectorNodeWithID(1, nil)) })
	ix("index.Flush()", func() { idx.Flush() })
	return sys
}

func vVecBuilderShard(c *vCtx, cfg vVecCfg, depth int) {
	vFixLevels()
	for _, state := range []int{2, 3, 1, 0} {
		vBuilderMC(c, vVecBuilderSys(cfg, state), depth)
	}
	c.Bound = fmt.Sprintf("search-object histories: every sequence of <= %d steps over the menu, 4 base states", depth)
}

// ---------------------------------------------------------------------------
// BM25

// every document has its own length (and the replacement text another one): two documents
// never tie on a query term, so that the per-query cut of a multi-query search never
// falls on a tie (which the implementation may break either way)
var vBuilderTexts = []string{"apple", "apple banana", "apple apple cherry", "banana cherry date egg", "cherry egg egg fig fig fig", "date date apple banana fig grape grape"}

func vTextBuilderSys(state int) *vBuilderSys[TextSearch] {
	var idx *BM25SearchIndex
	sys := &vBuilderSys[TextSearch]{What: "text search object", Config: fmt.Sprintf("bm25 builder-state=%d", state)}
	sys.Setup = func() func() TextSearch {
		idx = NewBM25SearchIndex()
		n := 5
		if state == 0 {
			n = 0
		}
		for i := 0; i < n; i++ {
			idx.Add(uint32(i+1), vBuilderTexts[i])
		}
		if state >= 2 {
			idx.Remove(2)
		}
		if state >= 3 {
			idx.Flush()
		}
		return func() TextSearch { return idx.NewSearch() }
	}
	sys.Base = func(s TextSearch) TextSearch { return s.WithQuery("apple").WithK(3) }
	sys.Exec = func(s TextSearch) ([]vIDScore, error) {
		r, err := s.Execute()
		return vIDScores(r), err
	}
	obj := func(name string, f func(s TextSearch) TextSearch) {
		sys.Menu = append(sys.Menu, vBStep[TextSearch]{Name: name, Do: f})
	}
	ix := func(name string, f func()) { sys.Menu = append(sys.Menu, vBStep[TextSearch]{Name: name, Idx: f}) }
	obj("WithQuery(banana cherry)", func(s TextSearch) TextSearch { return s.WithQuery("banana cherry") })
	obj("WithQuery(apple,date)", func(s TextSearch) TextSearch { return s.WithQuery("apple", "date") })
	obj("WithQuery()", func(s TextSearch) TextSearch { return s.WithQuery() })
	obj("WithNode(1)", func(s TextSearch) TextSearch { return s.WithNode(1) })
	obj("WithNode(2,4)", func(s TextSearch) TextSearch { return s.WithNode(2, 4) })
	obj("WithNode()", func(s TextSearch) TextSearch { return s.WithNode() })
	obj("WithK(1)", func(s TextSearch) TextSearch { return s.WithK(1) })
	obj("WithK(-1)", func(s TextSearch) TextSearch { return s.WithK(-1) })
	obj("WithDocumentIDs(1,3)", func(s TextSearch) TextSearch { return s.WithDocumentIDs(1, 3) })
	obj("WithDocumentIDs(4,9)", func(s TextSearch) TextSearch { return s.WithDocumentIDs(4, 9) })
	obj("WithDocumentIDs()", func(s TextSearch) TextSearch { return s.WithDocumentIDs() })
	obj("WithScoreAggregation(max)", func(s TextSearch) TextSearch { return s.WithScoreAggregation(MaxAggregation) })
	obj("WithScoreAggregation(mean)", func(s TextSearch) TextSearch { return s.WithScoreAggregation(MeanAggregation) })
	obj("WithCutoff(1)", func(s TextSearch) TextSearch { return s.WithCutoff(1) })
	obj("WithCutoff(-1)", func(s TextSearch) TextSearch { return s.WithCutoff(-1) })
	ix("other object: WithDocumentIDs(3,4) executes", func() {
		idx.NewSearch().WithQuery("cherry date").WithDocumentIDs(3, 4).WithK(2).Execute()
	})
	ix("index.Add(6)", func() { idx.Add(6, vBuilderTexts[5]) })
	ix("index.Add(1,replace)", func() { idx.Add(1, "banana fig fig fig fig grape grape grape") })
	ix("index.Remove(3)", func() { idx.Remove(3) })
	ix("index.Flush()", func() { idx.Flush() })
	return sys
}

func vTextBuilderShard(c *vCtx, depth int) {
	for _, state := range []int{2, 3, 1, 0} {
		vBuilderMC(c, vTextBuilderSys(state), depth)
	}
	c.Bound = fmt.Sprintf("search-object histories: every sequence of <= %d steps over the menu, 4 base states", depth)
}

// ---------------------------------------------------------------------------
// metadata

func vMetaBuilderDocs() []map[string]interface{} {
	return []map[string]interface{}{
		{"cat": "a", "n": 1, "p": 0.5, "ok": true},
		{"cat": "b", "n": 2, "p": 1.25},
		{"cat": "a", "n": 3, "ok": false},
		{"cat": "c", "n": -4, "p": 9.75, "ok": true},
		{"cat": "b", "p": 2.5},
		{"cat": "a", "n": 2, "p": 1.25, "ok": true},
	}
}

func vMetaBuilderSys(state int) *vBuilderSys[MetadataSearch] {
	var idx *RoaringMetadataIndex
	docs := vMetaBuilderDocs()
	sys := &vBuilderSys[MetadataSearch]{What: "metadata search object", Config: fmt.Sprintf("metadata builder-state=%d", state), Unordered: true}
	sys.Setup = func() func() MetadataSearch {
		idx = NewRoaringMetadataIndex()
		n := 5
		if state == 0 {
			n = 0
		}
		for i := 0; i < n; i++ {
			idx.Add(*NewMetadataNodeWithID(uint32(i+1), docs[i]))
		}
		if state >= 2 {
			idx.Remove(*NewMetadataNodeWithID(2, nil))
		}
		if state >= 3 {
			idx.Flush()
		}
		return func() MetadataSearch { return idx.NewSearch() }
	}
	sys.Base = func(s MetadataSearch) MetadataSearch { return s }
	sys.Exec = func(s MetadataSearch) ([]vIDScore, error) {
		r, err := s.Execute()
		return vIDScores(r), err
	}
	obj := func(name string, f func(s MetadataSearch) MetadataSearch) {
		sys.Menu = append(sys.Menu, vBStep[MetadataSearch]{Name: name, Do: f})
	}
	ix := func(name string, f func()) { sys.Menu = append(sys.Menu, vBStep[MetadataSearch]{Name: name, Idx: f}) }
	obj("WithFilters(cat=a)", func(s MetadataSearch) MetadataSearch { return s.WithFilters(Eq("cat", "a")) })
	obj("WithFilters(n>=2,cat!=c)", func(s MetadataSearch) MetadataSearch { return s.WithFilters(Gte("n", 2), Ne("cat", "c")) })
	obj("WithFilters(p in [1,3])", func(s MetadataSearch) MetadataSearch { return s.WithFilters(Range("p", 1.0, 3.0)) })
	obj("WithFilters(not ok)", func(s MetadataSearch) MetadataSearch { return s.WithFilters(Not(Eq("ok", true))) })
	obj("WithFilters(cat in a,c)", func(s MetadataSearch) MetadataSearch { return s.WithFilters(In("cat", "a", "c")) })
	obj("WithFilters(none matches)", func(s MetadataSearch) MetadataSearch { return s.WithFilters(Eq("cat", "zz")) })
	obj("WithFilters()", func(s MetadataSearch) MetadataSearch { return s.WithFilters() })
	obj("WithFilterGroups(cat=b | n<0)", func(s MetadataSearch) MetadataSearch {
		return s.WithFilterGroups(&FilterGroup{Filters: []Filter{Eq("cat", "b")}, Logic: AND}, &FilterGroup{Filters: []Filter{Lt("n", 0)}, Logic: AND})
	})
	obj("WithFilterGroups(exists ok & cat=a)", func(s MetadataSearch) MetadataSearch {
		return s.WithFilterGroups(&FilterGroup{Filters: []Filter{Exists("ok"), Eq("cat", "a")}, Logic: AND})
	})
	obj("WithFilterGroups(OR-group)", func(s MetadataSearch) MetadataSearch {
		return s.WithFilterGroups(&FilterGroup{Filters: []Filter{Eq("cat", "c"), Eq("n", 1)}, Logic: OR})
	})
	obj("WithFilterGroups()", func(s MetadataSearch) MetadataSearch { return s.WithFilterGroups() })
	ix("other object: n>=2 executes", func() { idx.NewSearch().WithFilters(Gte("n", 2)).Execute() })
	ix("index.Add(6)", func() { idx.Add(*NewMetadataNodeWithID(6, docs[5])) })
	ix("index.Remove(1)", func() { idx.Remove(*NewMetadataNodeWithID(1, nil)) })
	ix("index.Flush()", func() { idx.Flush() })
	return sys
}

func vMetaBuilderShard(c *vCtx, depth int) {
	for _, state := range []int{2, 3, 1, 0} {
		vBuilderMC(c, vMetaBuilderSys(state), depth)
	}
	c.Bound = fmt.Sprintf("search-object histories: every sequence of <= %d steps over the menu, 4 base states", depth)
}

// ---------------------------------------------------------------------------
// hybrid

func vHybridBuilderSys(vkind string, state int) *vBuilderSys[HybridSearch] {
	var idx HybridSearchIndex
	metas := vMetaBuilderDocs()
	cfg := vVecCfg{Kind: vkind, Metric: Euclidean, Dim: 2, M: 4, Ef: 16, NList: 2, NBits: 2, Train: 0}
	if vkind == "pq" || vkind == "ivfpq" {
		cfg.M = 1
	}
	vecs := [][]float32{{1, 0.5}, {2, 1.75}, {0.25, 3}, {4, 4.5}, {-1, -2.25}, {6, 1.25}}
	q0, q1 := []float32{0.125, 0.25}, []float32{3, 3.375}
	sys := &vBuilderSys[HybridSearch]{What: "hybrid search object", Config: fmt.Sprintf("hybrid vector=%s builder-state=%d", vkind, state)}
	sys.Setup = func() func() HybridSearch {
		vi, err := cfg.New()
		if err != nil {
			panic(err)
		}
		idx = NewHybridSearchIndex(vi, NewBM25SearchIndex(), NewRoaringMetadataIndex())
		n := 5
		if state == 0 {
			n = 0
		}
		for i := 0; i < n; i++ {
			if err := idx.AddWithID(uint32(i+1), vCopyVec(vecs[i]), vBuilderTexts[i], metas[i]); err != nil {
				panic(err)
			}
		}
		if state >= 2 {
			idx.Remove(2)
		}
		if state >= 3 {
			idx.Flush()
		}
		return func() HybridSearch { return idx.NewSearch() }
	}
	sys.Base = func(s HybridSearch) HybridSearch { return s.WithVector(vCopyVec(q0)).WithK(3) }
	sys.Exec = func(s HybridSearch) ([]vIDScore, error) {
		r, err := s.Execute()
		return vIDScores(r), err
	}
	obj := func(name string, f func(s HybridSearch) HybridSearch) {
		sys.Menu = append(sys.Menu, vBStep[HybridSearch]{Name: name, Do: f})
	}
	ix := func(name string, f func()) { sys.Menu = append(sys.Menu, vBStep[HybridSearch]{Name: name, Idx: f}) }
	obj("WithVector(q1)", func(s HybridSearch) HybridSearch { return s.WithVector(vCopyVec(q1)) })
	obj("WithVector(nil)", func(s HybridSearch) HybridSearch { return s.WithVector(nil) })
	quantising := vkind == "pq" || vkind == "ivfpq"
	if !quantising {
		// the quantising kinds stay single-modality: documents that share their codes tie in
		// the vector sub-search, ties at ITS cut are broken arbitrarily, and with a second
		// modality the choice shows in the middle of the fused list, not only at its end
		obj("WithText(apple)", func(s HybridSearch) HybridSearch { return s.WithText("apple") })
		obj("WithText(banana cherry,date)", func(s HybridSearch) HybridSearch { return s.WithText("banana cherry", "date") })
		obj("WithText()", func(s HybridSearch) HybridSearch { return s.WithText() })
	}
	obj("WithMetadata(cat=a)", func(s HybridSearch) HybridSearch { return s.WithMetadata(Eq("cat", "a")) })
	obj("WithMetadata(n>=1)", func(s HybridSearch) HybridSearch { return s.WithMetadata(Gte("n", 1)) })
	obj("WithMetadata(none matches)", func(s HybridSearch) HybridSearch { return s.WithMetadata(Eq("cat", "zz")) })
	obj("WithMetadata()", func(s HybridSearch) HybridSearch { return s.WithMetadata() })
	obj("WithMetadataGroups(cat=b | n<0)", func(s HybridSearch) HybridSearch {
		return s.WithMetadataGroups(&FilterGroup{Filters: []Filter{Eq("cat", "b")}, Logic: AND}, &FilterGroup{Filters: []Filter{Lt("n", 0)}, Logic: AND})
	})
	obj("WithMetadataGroups()", func(s HybridSearch) HybridSearch { return s.WithMetadataGroups() })
	obj("WithK(1)", func(s HybridSearch) HybridSearch { return s.WithK(1) })
	obj("WithK(10)", func(s HybridSearch) HybridSearch { return s.WithK(10) })
	if vkind != "pq" && vkind != "ivfpq" {
		// rank-based fusion is left out for the quantising kinds: documents that share their
		// codes tie in the vector ranking, and the rank of tied documents is unspecified
		obj("WithFusionKind(rrf)", func(s HybridSearch) HybridSearch { return s.WithFusionKind(ReciprocalRankFusion) })
	}
	obj("WithFusionKind(max)", func(s HybridSearch) HybridSearch { return s.WithFusionKind(MaxFusion) })
	obj("WithThreshold(3)", func(s HybridSearch) HybridSearch { return s.WithThreshold(3) })
	obj("WithThreshold(0)", func(s HybridSearch) HybridSearch { return s.WithThreshold(0) })
	obj("WithCutoff(1)", func(s HybridSearch) HybridSearch { return s.WithCutoff(1) })
	obj("WithCutoff(-1)", func(s HybridSearch) HybridSearch { return s.WithCutoff(-1) })
	switch vkind {
	case "ivf", "ivfpq":
		obj("WithNProbes(1)", func(s HybridSearch) HybridSearch { return s.WithNProbes(1) })
	case "hnsw":
		obj("WithEfSearch(1)", func(s HybridSearch) HybridSearch { return s.WithEfSearch(1) })
	}
	ix("other object: cat=b, text executes", func() {
		idx.NewSearch().WithVector(vCopyVec(q1)).WithText("cherry date").WithMetadata(Eq("cat", "b")).WithK(2).Execute()
	})
	_ = quantising
	ix("index.AddWithID(6)", func() { idx.AddWithID(6, vCopyVec(vecs[5]), vBuilderTexts[5], metas[5]) })
	ix("index.Remove(1)", func() { idx.Remove(1) })
	ix("index.Flush()", func() { idx.Flush() })
	return sys
}

func vHybridBuilderShard(c *vCtx, vkind string, depth int) {
	vFixLevels()
	for _, state := range []int{2, 3, 1} {
		vBuilderMC(c, vHybridBuilderSys(vkind, state), depth)
	}
	c.Bound = fmt.Sprintf("search-object histories: every sequence of <= %d steps over the menu, 3 base states", depth)
}

// ---------------------------------------------------------------------------
// replay: the configuration string names the system, the history names the steps

func vBuilderReplayOn[S any](c *vCtx, sys *vBuilderSys[S], v *vViolation) bool {
	var seq []int
	for _, name := range v.History {
		found := -1
		for i, st := range sys.Menu {
			if st.Name == name {
				found = i
			}
		}
		if found < 0 {
			fmt.Println("unknown step", name)
			return false
		}
		seq = append(seq, found)
	}
	vBuilderJudge(c, sys, seq)
	_, ok := c.viol[v.Sig()]
	return ok
}

func init() {
	vClassReplay["search-object-history"] = func(c *vCtx, v *vViolation) bool {
		vFixLevels()
		var state int
		i := -1
		for j := 0; j+len(" builder-state=") <= len(v.Config); j++ {
			if v.Config[j:j+len(" builder-state=")] == " builder-state=" {
				i = j
			}
		}
		if i < 0 {
			return false
		}
		fmt.Sscanf(v.Config[i:], " builder-state=%d", &state)
		head := v.Config[:i]
		var vk string
		switch {
		case head == "bm25":
			return vBuilderReplayOn(c, vTextBuilderSys(state), v)
		case head == "metadata":
			return vBuilderReplayOn(c, vMetaBuilderSys(state), v)
		case len(head) > 14 && head[:14] == "hybrid vector=":
			vk = head[14:]
			return vBuilderReplayOn(c, vHybridBuilderSys(vk, state), v)
		default:
			return vBuilderReplayOn(c, vVecBuilderSys(vParseVecCfg(head), state), v)
		}
	}
}
