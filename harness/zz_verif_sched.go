//go:build verif && verifl2

package comet

// schedmc — stateless exploration of thread interleavings of small scenarios under
// the cooperative scheduler of internal/vrt, with iterative preemption bounding.

import (
	"bufio"
	"fmt"
	"os"
	"os/exec"
	"regexp"
	"runtime"
	"sort"
	"strings"
	"sync"
	"syscall"
	"time"

	"github.com/wizenheimer/comet/internal/vrt"
	vos "github.com/wizenheimer/comet/internal/vrt/vos"
	vtime "github.com/wizenheimer/comet/internal/vrt/vtime"
)

// vEvent is one completed operation with logical call / return stamps.
type vEvent struct {
	Thread string
	Op     string
	Call   int64
	Ret    int64
	Err    string
	IDs    []uint32 // search result / returned id
}

// vSchedExec is the per-execution context handed to a scenario body.
type vSchedExec struct {
	free   bool // free-running (real goroutines, for the -race pass)
	mu     sync.Mutex
	wg     sync.WaitGroup
	events []vEvent
	clock  int64
	fs     *vos.MemFS
	notes  []string
	canon  func() string // canonical shared state (state-key pruning); set by the body
	order  uint64        // hash of the real-time order of call / return events so far
	// crash images taken by the body at the instant an operation acknowledged durability
	// (Flush / Close returned nil), with the documents added before the call
	acks []vAckImage
}

type vAckImage struct {
	what    string
	img     *vos.MemFS
	durable []uint32
	docs    []int
}

// stateHash is installed as vrt.StateHook during a controlled execution.
func (x *vSchedExec) stateHash() uint64 {
	h := x.order
	if x.canon != nil {
		h ^= vHash(x.canon()) * 0x9e3779b97f4a7c15
	}
	return h
}

func (x *vSchedExec) note(s string) {
	x.order = x.order*1099511628211 ^ vHash(s)
}

func (x *vSchedExec) now() int64 {
	if !x.free {
		return vrt.Now()
	}
	x.mu.Lock()
	defer x.mu.Unlock()
	x.clock++
	return x.clock
}

// Spawn starts a scenario thread.
func (x *vSchedExec) Spawn(name string, f func()) {
	if x.free {
		x.wg.Add(1)
		go func() { defer x.wg.Done(); f() }()
		return
	}
	vrt.GoNamed(name, false, f)
}

// Join waits for all scenario threads.
func (x *vSchedExec) Join() {
	if x.free {
		x.wg.Wait()
		return
	}
	vrt.JoinAll()
}

// Op runs one operation and records it.
func (x *vSchedExec) Op(thread, op string, f func() (ids []uint32, err error)) {
	call := x.now()
	if !x.free {
		x.note("call " + thread + " " + op)
	}
	ids, err := f()
	ret := x.now()
	e := vEvent{Thread: thread, Op: op, Call: call, Ret: ret, IDs: ids}
	if err != nil {
		e.Err = err.Error()
	}
	if !x.free {
		x.note(fmt.Sprintf("ret %s %s %v %v", thread, op, vSortedIDs(ids), e.Err))
	}
	if x.free {
		x.mu.Lock()
		x.events = append(x.events, e)
		x.mu.Unlock()
		return
	}
	x.events = append(x.events, e)
}

type vScenario struct {
	Prop string
	Name string
	// Body runs on the main thread: set up, Spawn threads, Join, then return.
	Body func(x *vSchedExec)
	// Judge evaluates the recorded events of one complete execution; returns (class, cause, detail) triples.
	Judge func(x *vSchedExec) [][3]string
}

var vScenarios []*vScenario

// vSchedPrune enables global-state-key pruning (DESIGN 2.2): a scheduling point whose
// key (canonical shared state + per-thread observation histories + real-time order of
// call/return events + running thread) was already expanded with no more preemptions
// used is not expanded again.
var vSchedPrune = true

type vRunResult struct {
	trace   []vrt.Point
	log     []string
	dead    string
	viol    [][3]string
	outcome string
}

func vSchedRunOnce(sc *vScenario, prefix []int, keepLog bool) *vRunResult {
	vResetGlobals()
	fs := vos.NewMemFS()
	vos.FS = fs
	vtime.ResetTickers()
	nodeIDCounter = 100
	documentFilterPool.Reset()
	heapPool.Reset()
	minHeapPool.Reset()
	maxHeapPool.Reset()
	x := &vSchedExec{fs: fs}
	vrt.StateHook = nil
	if vSchedPrune {
		vrt.StateHook = x.stateHash
	}
	s := vrt.Begin(prefix, 100000)
	s.KeepLog = keepLog
	r := &vRunResult{}
	func() {
		defer func() {
			if rec := recover(); rec != nil {
				if _, ok := rec.(vrt.Abort); ok {
					switch {
					case s.Deadlock:
						r.dead = "deadlock: " + s.DeadlockAt
					case s.Horizon:
						r.dead = "step horizon exceeded"
					case len(s.Panics) > 0:
						r.dead = "panic: " + s.Panics[0]
					default:
						r.dead = "aborted"
					}
					return
				}
				r.dead = fmt.Sprintf("panic: main: %v", rec)
			}
		}()
		sc.Body(x)
	}()
	s.End()
	vrt.StateHook = nil
	vos.FS = nil
	if s.Leaked {
		fmt.Fprintln(os.Stderr, "HARNESS-ERROR: a thread did not unwind at teardown in scenario", sc.Name)
		os.Exit(3)
	}
	if s.Diverged != "" {
		if vSchedReplaying {
			// replaying a recorded schedule on a tree that behaves differently (e.g. the
			// defect was repaired): the schedule no longer fits => not reproduced
			fmt.Println("schedule does not fit this tree any more:", s.Diverged)
			return &vRunResult{trace: s.Trace, log: s.Log}
		}
		fmt.Fprintln(os.Stderr, "HARNESS-DIVERGENCE:", sc.Name, s.Diverged)
		os.Exit(3)
	}
	r.trace = s.Trace
	r.log = s.Log
	if r.dead == "" {
		r.viol = sc.Judge(x)
		var sb strings.Builder
		for _, e := range x.events {
			fmt.Fprintf(&sb, "%s:%s=%v/%v;", e.Thread, e.Op, vSortedIDs(e.IDs), e.Err != "")
		}
		r.outcome = sb.String()
	}
	return r
}

func vChoices(tr []vrt.Point, n int) []int {
	out := make([]int, n)
	for i := 0; i < n; i++ {
		out[i] = tr[i].Chosen
	}
	return out
}

func vTraceSig(tr []vrt.Point) string {
	var sb strings.Builder
	for _, p := range tr {
		fmt.Fprintf(&sb, "%s%d/%d:%s;", p.Kind, p.Chosen, p.N, p.Desc)
	}
	return sb.String()
}

// vExplore: DFS over choice prefixes, bounded by preemptions and environment deviations.
func vExplore(c *vCtx, sc *vScenario, pb, db, fb int) {
	cfgS := fmt.Sprintf("sched %s/%s pb=%d db=%d fb=%d", sc.Prop, sc.Name, pb, db, fb)
	stack := [][]int{nil}
	execs := 0
	visited := map[uint64]int{}
	pruned := int64(0)
	for len(stack) > 0 {
		if execs%64 == 0 && c.Expired() {
			c.Bound = fmt.Sprintf("%s: deadline after %d executions (bound not completed)", sc.Name, execs)
			return
		}
		prefix := stack[len(stack)-1]
		stack = stack[:len(stack)-1]
		r := vSchedRunOnce(sc, prefix, false)
		execs++
		c.Traces++
		c.Transitions += int64(len(r.trace))
		c.Evaluations++
		c.NewState(sc.Name + vTraceSig(r.trace))
		if execs%64 == 1 {
			// determinism self-check: the same choice list must reproduce the same trace
			r2 := vSchedRunOnce(sc, vChoices(r.trace, len(r.trace)), false)
			if vTraceSig(r2.trace) != vTraceSig(r.trace) || r2.outcome != r.outcome {
				fmt.Fprintf(os.Stderr, "HARNESS-DIVERGENCE: scenario %s is not deterministic under replay\n%s\n%s\n", sc.Name, vTraceSig(r.trace), vTraceSig(r2.trace))
				os.Exit(3)
			}
		}
		pre, dev, _ := vrt.Cost(r.trace, len(r.trace))
		if r.dead != "" {
			cl := strings.SplitN(r.dead, ":", 2)[0]
			c.ViolationCh(cl, vDeadCause(r.dead), cfgS, []string{sc.Name}, vChoices(r.trace, len(r.trace)), r.dead)
		}
		for _, v := range r.viol {
			c.ViolationCh(v[0], v[1], cfgS, []string{sc.Name}, vChoices(r.trace, len(r.trace)), v[2])
		}
		if r.outcome != "" {
			c.Outcome(sc.Name + r.outcome)
		}
		if pre > 0 || dev > 0 {
			c.Nontrivial(sc.Name + vTraceSig(r.trace))
		}
		if len(c.Samples) < c.maxSamples && pre > 0 {
			nz := map[string]int{}
			for i, p := range r.trace {
				if p.Chosen != 0 {
					nz[fmt.Sprintf("point %d (%s)", i, p.Desc)] = p.Chosen
				}
			}
			c.Sample(map[string]any{"scenario": sc.Name, "points": len(r.trace), "non_default_choices": nz, "preemptions": pre, "outcome": r.outcome})
		}
		for i := len(prefix); i < len(r.trace); i++ {
			p := r.trace[i]
			cp, cd, cf := vrt.Cost(r.trace, i)
			if p.Key != 0 {
				cost := cp*4096 + cd*64 + cf
				if old, seen := visited[p.Key]; seen && old <= cost {
					pruned++
					break // this state (and everything after it) was expanded before
				}
				visited[p.Key] = cost
			}
			for alt := 1; alt < p.N; alt++ {
				np, nd, nf := cp, cd, cf
				if p.Kind == "sched" {
					if p.Cur {
						np++
					} else {
						nf++
					}
				} else {
					nd++
				}
				if np > pb || nd > db || nf > fb {
					continue
				}
				stack = append(stack, append(vChoices(r.trace, i), alt))
			}
		}
	}
	c.Extra["executions"] += int64(execs)
	c.Extra["states_pruned_by_key"] += pruned
	c.Extra["distinct_state_keys"] += int64(len(visited))
	if c.Bound == "" {
		c.Bound = fmt.Sprintf("preemption bound %d, deviation bound %d, blocking-switch bound %d completed", pb, db, fb)
	}
}

// vDeadCause extracts a stable label from a deadlock / panic description.
func vDeadCause(d string) string {
	if strings.HasPrefix(d, "panic") {
		// first line of the panic message without addresses
		l := strings.SplitN(d, "\n", 2)[0]
		if i := strings.Index(l, "): "); i >= 0 {
			l = l[i+3:]
		}
		if len(l) > 80 {
			l = l[:80]
		}
		return l
	}
	if strings.HasPrefix(d, "deadlock") {
		return "deadlock"
	}
	return d
}

func vSchedShards(prop, tier string) []vShard {
	var sh []vShard
	for _, sc := range vScenarios {
		if sc.Prop != prop {
			continue
		}
		sc := sc
		// store scenarios have ~100 scheduling points per thread (gzip + file system);
		// their bound is one lower than that of the in-memory scenarios
		pb, db, fb := 2, 1, 2
		if tier == "thorough" {
			pb, db, fb = 3, 2, 3
		}
		if strings.HasPrefix(sc.Name, "store/") || strings.HasSuffix(sc.Name, "close-use") {
			pb--
			fb--
			db = 1
		}
		sh = append(sh, vShard{Name: "sched/" + sc.Name, Run: func(c *vCtx) {
			// iterate the bound: everything with 0 preemptions, then 1, then 2 ...
			done := -1
			for b := 0; b <= pb; b++ {
				d := db
				if b < pb && d > 1 {
					d = 1
				}
				c.Bound = ""
				vExplore(c, sc, b, d, fb)
				if !c.Exhaustive {
					c.Bound = fmt.Sprintf("%s: preemption bound %d completed; deadline hit inside bound %d", sc.Name, done, b)
					return
				}
				done = b
			}
			c.Bound = fmt.Sprintf("<= %d preemptions, <= %d environment deviations, <= %d non-default choices at blocking switches: completed", pb, db, fb)
		}})
	}
	return sh
}

var vSchedReplaying bool

func vSchedReplay(c *vCtx, v *vViolation) bool {
	vSchedReplaying = true
	if strings.HasPrefix(v.Config, "racepass ") {
		fmt.Println("a race-pass finding is replayed by re-running the check (free-running executions are not schedule-replayable)")
		return false
	}
	for _, sc := range vScenarios {
		if len(v.History) == 0 || sc.Name != v.History[0] {
			continue
		}
		r := vSchedRunOnce(sc, v.Choices, true)
		fmt.Printf("schedule (%d points):\n  %s\n", len(r.trace), strings.Join(r.log, "\n  "))
		if r.dead != "" {
			c.ViolationCh(strings.SplitN(r.dead, ":", 2)[0], vDeadCause(r.dead), v.Config, v.History, v.Choices, r.dead)
		}
		for _, w := range r.viol {
			c.ViolationCh(w[0], w[1], v.Config, v.History, v.Choices, w[2])
		}
	}
	_, ok := c.viol[v.Sig()]
	return ok
}

// ---------------------------------------------------------------------------
// visibility oracle shared by the scenarios

type vDocLife struct {
	addCall, addRet int64 // 0,0 = present before the threads started
	addOK           bool
	added           bool
	remCall, remRet int64
	remOK           bool
	removed         bool
	addRetLast      int64 // return of the last add (several adds of one id)
	nAdds           int
}

// vJudgeVisibility checks every search event against the add/remove events.
// ops are named Add(id), Remove(id), Search...; pre = ids present before the threads start.
func vJudgeVisibility(events []vEvent, pre []uint32, allowedErr func(e vEvent) bool) [][3]string {
	var out [][3]string
	life := map[uint32]*vDocLife{}
	// earlier lives of an id that was removed and then added again (update = remove + add):
	// a search is judged against every life of the id
	past := map[uint32][]*vDocLife{}
	for _, id := range pre {
		life[id] = &vDocLife{added: true, addOK: true}
	}
	for _, e := range events {
		var id uint32
		switch {
		case strings.HasPrefix(e.Op, "Add("):
			fmt.Sscanf(e.Op, "Add(%d)", &id)
			l := life[id]
			if l == nil {
				l = &vDocLife{}
				life[id] = l
			}
			if l.added && l.removed && l.remOK && e.Call > l.remRet {
				// the id was removed (completed) before this add was called: a new life
				past[id] = append(past[id], l)
				l = &vDocLife{}
				life[id] = l
			}
			l.nAdds++
			if !l.added {
				l.added, l.addCall, l.addRet, l.addOK, l.addRetLast = true, e.Call, e.Ret, e.Err == "", e.Ret
			} else {
				// several adds of one id (a replace racing a replace): the document exists from
				// the earliest call on, is guaranteed from the earliest successful return on,
				// and only a removal that follows the LAST add is definitive
				if e.Call < l.addCall {
					l.addCall = e.Call
				}
				if e.Err == "" && (!l.addOK || e.Ret < l.addRet) {
					l.addRet = e.Ret
				}
				l.addOK = l.addOK || e.Err == ""
				if e.Ret > l.addRetLast {
					l.addRetLast = e.Ret
				}
			}
		case strings.HasPrefix(e.Op, "Remove("):
			fmt.Sscanf(e.Op, "Remove(%d)", &id)
			l := life[id]
			if l == nil {
				l = &vDocLife{}
				life[id] = l
			}
			if e.Err == "" || !l.removed {
				if !l.removed || e.Call < l.remCall {
					l.remCall = e.Call
				}
				if e.Err == "" {
					l.remRet, l.remOK = e.Ret, true
				}
				l.removed = true
			}
		}
		if e.Err != "" && !allowedErr(e) {
			out = append(out, [3]string{"spurious-failure", e.Op[:strings.IndexAny(e.Op+"(", "(")], fmt.Sprintf("%s %s failed: %s", e.Thread, e.Op, e.Err)})
		}
	}
	for _, e := range events {
		if !strings.HasPrefix(e.Op, "Search") || e.Err != "" {
			continue
		}
		got := map[uint32]bool{}
		for _, id := range e.IDs {
			got[id] = true
		}
		for id, cur := range life {
			mustInclude, mustExclude := false, true
			l := cur
			for _, x := range append(append([]*vDocLife(nil), past[id]...), cur) {
				inc := x.added && x.addOK && x.addRet < e.Call && (!x.removed || x.remCall > e.Ret)
				exc := (x.removed && x.remOK && x.remRet < e.Call && x.remRet > x.addRet && (x.nAdds <= 1 || x.remCall > x.addRetLast)) || !x.added || (x.added && x.addCall > e.Ret) || (x.added && !x.addOK)
				mustInclude = mustInclude || inc
				mustExclude = mustExclude && exc
			}
			if mustInclude && !got[id] {
				out = append(out, [3]string{"search-missed-completed-add", "", fmt.Sprintf("%s %s [%d,%d] returned %v but Add(%d) completed at %d and no removal had begun", e.Thread, e.Op, e.Call, e.Ret, e.IDs, id, l.addRet)})
			}
			if mustExclude && got[id] {
				out = append(out, [3]string{"search-returned-removed-or-unknown", "", fmt.Sprintf("%s %s [%d,%d] returned %v; id %d must not appear (life %+v)", e.Thread, e.Op, e.Call, e.Ret, e.IDs, id, *l)})
			}
		}
		for id := range got {
			if life[id] == nil {
				out = append(out, [3]string{"search-returned-removed-or-unknown", "never-added", fmt.Sprintf("%s %s returned id %d that was never added", e.Thread, e.Op, id)})
			}
		}
		if len(e.IDs) != len(got) {
			out = append(out, [3]string{"search-duplicate-id", "", fmt.Sprintf("%s %s returned %v", e.Thread, e.Op, e.IDs)})
		}
	}
	return out
}

func vSortedIDs(ids []uint32) []uint32 {
	out := append([]uint32(nil), ids...)
	sort.Slice(out, func(i, j int) bool { return out[i] < out[j] })
	return out
}

func vrtNumThreads() int      { return vrt.NumThreads() }
func vrtMarkDaemons(from int) { vrt.MarkDaemons(from) }

// ---------------------------------------------------------------------------
// free-running race-detector pass over the same scenario bodies

func vRunFree(sc *vScenario) {
	fs := vos.NewMemFS()
	vos.FS = fs
	nodeIDCounter = 100
	x := &vSchedExec{free: true, fs: fs}
	func() {
		defer func() {
			if r := recover(); r != nil {
				fmt.Fprintf(os.Stderr, "panic: (recovered in free-running body) %v\n", r)
			}
		}()
		sc.Body(x)
	}()
	vos.FS = nil
}

func init() {
	vExtraModes["racepass"] = func(args []string) int {
		iters := 20
		if len(args) > 0 {
			fmt.Sscan(args[0], &iters)
		}
		vrt.DeterministicPools = false
		runtime.GOMAXPROCS(8)
		seen := map[string]bool{}
		n := 0
		var only *regexp.Regexp
		if len(args) > 1 {
			only = regexp.MustCompile(args[1])
		}
		for _, sc := range vScenarios {
			if seen[sc.Name] || (only != nil && !only.MatchString(sc.Name)) {
				continue
			}
			seen[sc.Name] = true
			fmt.Fprintf(os.Stderr, "RACEPASS-SCENARIO %s\n", sc.Name)
			for i := 0; i < iters; i++ {
				vRunFree(sc)
				fmt.Fprintln(os.Stderr, "RACEPASS-ITER")
				n++
			}
		}
		fmt.Printf("racepass: %d free-running executions of %d scenarios\n", n, len(seen))
		return 0
	}
}

var vRaceFrame = regexp.MustCompile(`^\s+(github\.com/wizenheimer/comet\.\S+?)\(\)\s*$`)

// vRaceShard runs the -race binary (built by bin/check, path in VERIF_RACE_BIN) and
// turns every distinct data race that involves a non-harness comet frame into a violation.
func vRaceShard(tier string) vShard {
	return vShard{Name: "racepass", Run: func(c *vCtx) {
		bin := os.Getenv("VERIF_RACE_BIN")
		if bin == "" {
			c.Notes = append(c.Notes, "race pass skipped: VERIF_RACE_BIN not set")
			c.NewState("racepass-skipped")
			c.Transitions++
			return
		}
		iters := "15"
		if tier == "thorough" {
			iters = "100"
		}
		cmd := exec.Command(bin, "racepass", iters)
		cmd.Env = append(os.Environ(), "GORACE=halt_on_error=0 history_size=3", "GOMAXPROCS=8")
		stderr, _ := cmd.StderrPipe()
		out, _ := cmd.StdoutPipe()
		if err := cmd.Start(); err != nil {
			c.Notes = append(c.Notes, "race pass could not start: "+err.Error())
			return
		}
		go func() {
			sc := bufio.NewScanner(out)
			for sc.Scan() {
				c.Notes = append(c.Notes, sc.Text())
			}
		}()
		sc := bufio.NewScanner(stderr)
		sc.Buffer(make([]byte, 1<<20), 1<<20)
		scenario := ""
		inRace := false
		// watchdog: a free-running body that makes no progress is hung (a real deadlock or
		// livelock in the code under test). Wall-clock silence alone is no evidence - on a
		// loaded machine the process may simply not be scheduled - so the verdict is taken
		// from the process itself: a DEADLOCK is 30 consecutive one-second samples without
		// progress in which no thread of the process was runnable (state R/D in
		// /proc/<pid>/task/*/stat) in at least 27 of them; a LIVELOCK is no progress while the
		// process burnt 60 s of CPU time (hundreds of times what one iteration needs). A starved process (threads runnable, no CPU
		// granted) is neither, and the pass just keeps waiting until the budget ends.
		var wmu sync.Mutex
		lastProgress := time.Now()
		hungAt := ""
		hungWhy := ""
		dumping := false
		var dump []string
		stopWatch := make(chan struct{})
		go func() {
			asleep, samples := 0, 0
			var cpuAtProgress float64 = -1
			var seenProgress time.Time
			for {
				select {
				case <-stopWatch:
					return
				case <-time.After(time.Second):
				}
				wmu.Lock()
				lp := lastProgress
				cur := scenario
				wmu.Unlock()
				if c.Expired() {
					cmd.Process.Kill()
					return
				}
				runnable, cpu := vProcActivity(cmd.Process.Pid)
				if lp != seenProgress {
					seenProgress, asleep, samples, cpuAtProgress = lp, 0, 0, cpu
					continue
				}
				samples++
				if !runnable {
					asleep++
				}
				why := ""
				switch {
				case samples >= 30 && asleep*10 >= samples*9:
					why = fmt.Sprintf("deadlock: no progress during %d one-second samples, no runnable thread in %d of them", samples, asleep)
				case cpuAtProgress >= 0 && cpu-cpuAtProgress > 60:
					why = fmt.Sprintf("livelock: no progress while the process used %.0f s of CPU time", cpu-cpuAtProgress)
				}
				if why != "" {
					wmu.Lock()
					hungAt, hungWhy, dumping = cur, why, true
					wmu.Unlock()
					cmd.Process.Signal(syscall.SIGQUIT) // goroutine dump on stderr, then exit
					time.Sleep(5 * time.Second)
					cmd.Process.Kill()
					return
				}
			}
		}()
		var block []string
		isHarness := func(f string) bool {
			return strings.Contains(f, "comet.v") || strings.Contains(f, "comet.(*v") || strings.Contains(f, "comet.init.") || strings.Contains(f, "comet.VerifMain")
		}
		flush := func() {
			if !inRace {
				return
			}
			inRace = false
			// the report is a sequence of stacks separated by blank lines; the first two are
			// the conflicting accesses: label the race by the innermost non-harness comet
			// frame of each
			var stacks [][]string
			cur := []string{}
			for _, l := range block[1:] {
				if strings.TrimSpace(l) == "" {
					if len(cur) > 0 {
						stacks = append(stacks, cur)
					}
					cur = []string{}
					continue
				}
				cur = append(cur, l)
			}
			if len(cur) > 0 {
				stacks = append(stacks, cur)
			}
			var fs []string
			for i, st := range stacks {
				if i >= 2 {
					break
				}
				for _, l := range st {
					if m := vRaceFrame.FindStringSubmatch(l); m != nil && !isHarness(m[1]) {
						fs = append(fs, strings.TrimPrefix(m[1], "github.com/wizenheimer/comet."))
						break
					}
				}
			}
			if len(fs) == 0 {
				c.Extra["race_reports_without_comet_frame"]++
				return
			}
			sort.Strings(fs)
			b := strings.Join(block, "\n")
			if len(b) > 3000 {
				b = b[:3000]
			}
			c.Violation("data-race", strings.Join(fs, " / "), "racepass "+scenario, []string{scenario}, b)
		}
		for sc.Scan() {
			line := sc.Text()
			switch {
			case strings.HasPrefix(line, "RACEPASS-SCENARIO ") || strings.HasPrefix(line, "RACEPASS-ITER"):
				wmu.Lock()
				lastProgress = time.Now()
				wmu.Unlock()
				if strings.HasPrefix(line, "RACEPASS-ITER") {
					continue
				}
				flush()
				wmu.Lock()
				scenario = strings.TrimPrefix(line, "RACEPASS-SCENARIO ")
				wmu.Unlock()
				c.NewState("race|" + scenario)
				c.Transitions++
				c.Traces++
			case strings.HasPrefix(line, "fatal error:") || strings.HasPrefix(line, "panic:"):
				flush()
				c.Violation("free-running-crash", strings.TrimSpace(line), "racepass "+scenario, []string{scenario}, line)
			case strings.HasPrefix(line, "WARNING: DATA RACE"):
				flush()
				inRace = true
				block = []string{line}
				c.Extra["race_reports"]++
			case strings.HasPrefix(line, "=================="):
				if inRace && len(block) > 1 {
					flush()
				}
			default:
				if inRace {
					block = append(block, line)
				}
				wmu.Lock()
				if dumping && len(dump) < 400 {
					dump = append(dump, line)
				}
				wmu.Unlock()
			}
		}
		flush()
		close(stopWatch)
		cmd.Wait()
		wmu.Lock()
		if hungAt != "" {
			c.Violation("free-running-hang", strings.SplitN(hungWhy, ":", 2)[0], "racepass "+hungAt, []string{hungAt}, "the free-running execution of this scenario hung ("+hungWhy+"); the pass was killed. Goroutines:\n"+strings.Join(dump, "\n"))
		}
		wmu.Unlock()
		c.Evaluations += int64(len(vScenarios))
		c.Bound = "free-running race-detector pass (sampling; cross-check, not enumeration)"
	}}
}

// vProcActivity: is any thread of the process runnable (or in uninterruptible I/O) right now,
// and how much CPU time (seconds, user+system) has the process used so far.
func vProcActivity(pid int) (runnable bool, cpu float64) {
	field := func(stat string, n int) string { // n counts from 1; the comm field may hold spaces
		i := strings.LastIndexByte(stat, ')')
		if i < 0 {
			return ""
		}
		f := strings.Fields(stat[i+1:])
		if n-3 < 0 || n-3 >= len(f) {
			return ""
		}
		return f[n-3]
	}
	if b, err := os.ReadFile(fmt.Sprintf("/proc/%d/stat", pid)); err == nil {
		var ut, st float64
		fmt.Sscan(field(string(b), 14), &ut)
		fmt.Sscan(field(string(b), 15), &st)
		cpu = (ut + st) / 100
	}
	tasks, err := os.ReadDir(fmt.Sprintf("/proc/%d/task", pid))
	if err != nil {
		return true, cpu // cannot tell: never call it asleep
	}
	for _, t := range tasks {
		b, err := os.ReadFile(fmt.Sprintf("/proc/%d/task/%s/stat", pid, t.Name()))
		if err != nil {
			continue
		}
		if st := field(string(b), 3); st == "R" || st == "D" {
			return true, cpu
		}
	}
	return false, cpu
}
