//go:build verif && verifl2

package comet

// C08 — an acknowledged write to the open store stays visible to later searches, and
// C09 — data acknowledged by Flush or Close survives a restart (histmc over store
// histories under the controlled scheduler and the in-memory file system).

import (
	"fmt"
	"regexp"
	"sort"
	"strconv"
	"strings"

	"github.com/wizenheimer/comet/internal/vrt"
	vos "github.com/wizenheimer/comet/internal/vrt/vos"
	vtime "github.com/wizenheimer/comet/internal/vrt/vtime"
)

type vStoreDocM struct {
	doc       int
	decodesAt int // number of segment decodes when the add was acknowledged
	compactAt int // number of compactions when the add was acknowledged
	durable   bool
	session   int
}

// file-system faults injected into one Flush (c09 mode): the n-th call of a kind fails with EIO
// (FlushFault(A,B,0): the B-th call of kind vC09FaultKinds[A] made from now on fails; used by the
// exhaustive fault sweep vC09FaultSweep, not offered in the BFS alphabet)
var vC09FaultKinds = []string{"create", "write", "stat", "remove", "openfile", "writestring", "mkdirall", "readdir", "open", "rename"}

type vStoreSys struct {
	respell  bool // the sessions spell the directory's path differently (vStoreSpellings)
	c        *vCtx
	cfg      vStoreCfg
	cfgS     string
	mode     string // "c08" | "c09"
	env      *vStoreEnv
	st       *PersistentHybridIndex
	live     map[uint32]*vStoreDocM
	removed  map[uint32]bool
	remAt    map[uint32]int // segment decodes at the time of the acknowledged removal
	ever     map[uint32]bool
	nextID   uint32
	nAdd     int
	maxAdd   int
	session  int
	maxSess  int
	compacts int
	nBg      int // Compact / Tick operations used (bounded in c09 mode)
	nRemOps  int
	nBad     int               // refused writes used (bounded in c09 mode)
	nFault   int               // flushes with an injected file-system fault (c09 mode, at most one per history)
	segNames map[string]string // every segment file ever created -> content hash when completed
	logSeen  int
	// an operation other than an explicit eviction dropped the cached index of a segment
	// that still exists (the known shared-template finding is witnessed by decodes that the
	// history explains: first load after a flush / compaction / reopen, explicit eviction)
	unexplainedDrop string
	narrow          bool // deep-narrow shards: AddWithID / Flush / Search / Idle / Evict only
	// canonical state right after the operation, BEFORE the end-of-history observation: the
	// observation searches load and cache segments, i.e. they change the store, and the
	// next BFS level re-creates the state by replaying the operations without them
	preObsKey string
}

func (s *vStoreSys) Reset() {
	if s.env != nil {
		s.env.end()
	}
	s.env = vStoreBegin(nil, nil)
	if s.respell {
		vos.ResetAliases()
		vos.Alias("/alias-of-the-store-directory", vStoreDir)
	}
	s.live = map[uint32]*vStoreDocM{}
	s.removed = map[uint32]bool{}
	s.remAt = map[uint32]int{}
	s.ever = map[uint32]bool{}
	s.nextID = 1
	s.nAdd = 0
	s.session = 1
	s.compacts = 0
	s.nBg = 0
	s.nRemOps = 0
	s.nBad = 0
	s.nFault = 0
	s.segNames = map[string]string{}
	s.logSeen = 0
	s.unexplainedDrop = ""
	s.preObsKey = ""
	var err error
	vStoreSessionNo = 1
	s.st, err = s.env.open(s.cfg.config())
	if err != nil || s.env.dead != "" {
		// opening a fresh, unowned directory must succeed: a violation, not a harness failure
		s.c.Violation("initial-open-failed", "", s.cfgS, nil, fmt.Sprintf("OpenPersistentHybridIndex on a fresh directory %q: %v %s", vStoreDir, err, s.env.dead))
		if s.env.dead == "" {
			s.env.dead = "initial open failed"
		}
		s.st = nil
	}
}

func (s *vStoreSys) Enabled() []vOp {
	if s.env.dead != "" {
		return nil
	}
	var ops []vOp
	if s.st == nil {
		return ops
	}
	if s.nAdd < s.maxAdd {
		ops = append(ops, vOp{K: "AddWithID", A: int(s.nextID), B: s.nAdd % 3})
		if s.mode == "c08" && s.nAdd == 1 {
			ops = append(ops, vOp{K: "Add", B: 1})
		}
	}
	if s.narrow {
		ops = append(ops, vOp{K: "Flush"}, vOp{K: "Search", B: 0}, vOp{K: "Evict"})
		if len(s.st.segmentManager.segments) >= 1 {
			ops = append(ops, vOp{K: "Idle"})
		}
		return ops
	}
	if s.mode == "c08" {
		ids := []int{}
		for id := range s.live {
			ids = append(ids, int(id))
		}
		sort.Ints(ids)
		for _, id := range ids {
			ops = append(ops, vOp{K: "Remove", A: id})
		}
		// a write that the store must refuse (vector of the wrong dimension), aimed at an id
		// that holds an acknowledged document: it fails and changes nothing
		for _, id := range ids {
			ops = append(ops, vOp{K: "BadAdd", A: id})
		}
		// update = remove + add: an acknowledged re-add of a removed id must be visible again
		rids := []int{}
		for id := range s.removed {
			rids = append(rids, int(id))
		}
		sort.Ints(rids)
		for _, id := range rids {
			ops = append(ops, vOp{K: "AddWithID", A: id, B: (id + 1) % 3, C: 1})
		}
		ops = append(ops, vOp{K: "Flush"}, vOp{K: "Rotate"}, vOp{K: "Drain"}, vOp{K: "Compact"}, vOp{K: "Evict"}, vOp{K: "Search", B: 0})
		if len(s.st.segmentManager.segments) >= 1 {
			// Tick: the background tickers fire; Idle: a long time passes (the clock moves on
			// by 1000 hours), then they fire
			ops = append(ops, vOp{K: "Tick"}, vOp{K: "Idle"})
		}
	} else {
		ops = append(ops, vOp{K: "Flush"}, vOp{K: "Search", B: 0})
		if s.session < s.maxSess {
			ops = append(ops, vOp{K: "CloseReopen"})
		}
		if s.nRemOps < 2 {
			// removals (refused: unknown id; accepted: a live id of the active memtable)
			ops = append(ops, vOp{K: "Remove", A: 99})
			ids := []int{}
			for id := range s.live {
				ids = append(ids, int(id))
			}
			sort.Ints(ids)
			for _, id := range ids {
				ops = append(ops, vOp{K: "Remove", A: id})
			}
		}
		if s.nBad < 1 {
			// one refused write per history, aimed at any live id (see the c08 alphabet)
			ids := []int{}
			for id := range s.live {
				ids = append(ids, int(id))
			}
			sort.Ints(ids)
			if len(ids) > 0 && s.session == 1 && s.maxSess > 3 {
				// thorough tier only (the quick space is at its budget)
				ops = append(ops, vOp{K: "BadAdd", A: ids[0]})
			}
		}
		if s.nBg < 2 {
			// background activity that can happen in any session: the compaction check
			// (threshold not reached in these configurations) and the compaction ticker
			ops = append(ops, vOp{K: "Compact"}, vOp{K: "Tick"})
		}
	}
	return ops
}

// vC09FaultSweep: EVERY file-system call of a Flush (and of the final flush inside Close)
// fails in turn. For each base history the fault-free run counts the calls per kind; then
// for every (kind, n) the n-th call of that kind fails with EIO, followed by every
// continuation of a small menu, and the store is reopened with fresh templates: whatever
// the faulted call answered, each Flush()/Close() that returned nil promised durability.
func vC09FaultSweep(c *vCtx, cfg vStoreCfg) {
	add := func(id, doc int) vOp { return vOp{K: "AddWithID", A: id, B: doc} }
	bases := [][]vOp{{add(1, 0)}, {add(1, 0), add(2, 1)}, {add(1, 0), {K: "Flush"}, add(2, 1)}}
	conts := [][]vOp{{{K: "CloseReopen"}}, {{K: "Flush"}, {K: "CloseReopen"}}, {add(3, 2), {K: "Flush"}, {K: "CloseReopen"}}, {{K: "Flush"}, {K: "Flush"}, {K: "CloseReopen"}, add(3, 2), {K: "CloseReopen"}}}
	run := func(hist []vOp) *vStoreSys {
		s := &vStoreSys{c: c, cfg: cfg, cfgS: "c09 " + cfg.String(), mode: "c09", maxAdd: 4, maxSess: 4}
		s.Reset()
		for i, op := range hist {
			s.Apply(op, hist[:i], i >= len(hist)-1 || hist[i].K == "CloseReopen")
			c.Transitions++
		}
		c.Traces++
		c.NewState(s.cfgS + strings.Join(vHistStrings(hist), ";"))
		return s
	}
	for _, base := range bases {
		for _, faulted := range []string{"FlushFault", "CloseReopen"} {
			// count the calls of the fault-free operation
			s := &vStoreSys{c: c, cfg: cfg, cfgS: "c09 " + cfg.String(), mode: "c09", maxAdd: 4, maxSess: 4}
			s.Reset()
			for i, op := range base {
				s.Apply(op, base[:i], false)
			}
			before := map[string]int{}
			for _, k := range vC09FaultKinds {
				before[k] = s.env.fs.Count(k)
			}
			if faulted == "FlushFault" {
				s.Apply(vOp{K: "Flush"}, base, false)
			} else {
				s.env.do(func() { s.st.Close() })
			}
			counts := map[string]int{}
			for _, k := range vC09FaultKinds {
				counts[k] = s.env.fs.Count(k) - before[k]
			}
			s.env.end()
			s.env = nil
			for ki, k := range vC09FaultKinds {
				for n := 1; n <= counts[k]; n++ {
					if c.Expired() {
						c.Bound = "fault sweep: deadline"
						return
					}
					for _, cont := range conts {
						var hist []vOp
						hist = append(hist, base...)
						if faulted == "FlushFault" {
							hist = append(hist, vOp{K: "FlushFault", A: ki, B: n})
						} else {
							hist = append(hist, vOp{K: "CloseReopen", A: ki + 1, B: n})
						}
						hist = append(hist, cont...)
						fs := run(hist)
						fs.env.end()
						fs.env = nil
						c.Nontrivial(fs.cfgS + strings.Join(vHistStrings(hist), ";"))
					}
				}
			}
		}
	}
	c.Sample(cfg.String() + ": every file-system call of a Flush / of Close's final flush fails in turn; 3 base histories x 4 continuations; reopened with fresh templates")
	if c.Bound == "" {
		c.Bound = "fault sweep: every call of every kind"
	}
}

// vC09DirNames: the base directory's NAME is user input. For every name of vStoreDirNames
// a three-session history (add, flush, add, close, reopen, search, add, close, reopen,
// close, reopen) runs with the complete C09 oracle.
func vC09DirNames(c *vCtx) {
	old := vStoreDir
	defer func() { vStoreDir = old }()
	add := func(id, doc int) vOp { return vOp{K: "AddWithID", A: id, B: doc} }
	hist := []vOp{add(1, 0), {K: "Flush"}, add(2, 1), {K: "CloseReopen"}, {K: "Search"}, add(3, 2), {K: "CloseReopen"}, {K: "CloseReopen"}}
	for _, name := range vStoreDirNames {
		for _, cfg := range []vStoreCfg{{Mem: 2, Thr: 1, Comp: 1000000, Tmpl: "vtm", Vec: "flat"}, {Mem: 0, Thr: 0, Comp: 1000000, Tmpl: "v", Vec: "flat"}} {
			vStoreDir = name
			s := &vStoreSys{c: c, cfg: cfg, cfgS: fmt.Sprintf("c09 %s dir=%q", cfg.String(), name), mode: "c09", maxAdd: 4, maxSess: 4}
			s.Reset()
			for i, op := range hist {
				s.Apply(op, hist[:i], true)
				c.Transitions++
			}
			if s.env != nil {
				s.env.end()
				s.env = nil
			}
			c.Traces++
			c.NewState(s.cfgS)
			c.Nontrivial(s.cfgS)
		}
	}
	// one directory, another spelling of its path in every session
	vStoreDir = old
	vStoreSpellings = []string{old, "/alias-of-the-store-directory", old + "/../" + old[1:], "/alias-of-the-store-directory/"}
	defer func() { vStoreSpellings = nil }()
	for _, cfg := range []vStoreCfg{{Mem: 2, Thr: 1, Comp: 1000000, Tmpl: "vtm", Vec: "flat"}, {Mem: 0, Thr: 0, Comp: 1000000, Tmpl: "v", Vec: "flat"}} {
		s := &vStoreSys{c: c, cfg: cfg, cfgS: fmt.Sprintf("c09 %s dir=respelled-every-session", cfg.String()), mode: "c09", maxAdd: 4, maxSess: 4, respell: true}
		s.Reset()
		for i, op := range hist {
			s.Apply(op, hist[:i], true)
			c.Transitions++
		}
		if s.env != nil {
			s.env.end()
			s.env = nil
		}
		c.Traces++
		c.NewState(s.cfgS)
		c.Nontrivial(s.cfgS)
	}
	c.Sample(fmt.Sprintf("base directory names %q", vStoreDirNames))
	c.Bound = fmt.Sprintf("%d directory names x 2 configurations x one 3-session history; one directory spelled in 4 ways", len(vStoreDirNames))
}

func (s *vStoreSys) decodes() int { return vSegmentDecodes(s.env.fs) }

func (s *vStoreSys) Apply(op vOp, hist []vOp, check bool) {
	s.preObsKey = ""
	if s.env.dead != "" {
		return
	}
	h := func() []string { return vHistStrings(append(hist, op)) }
	segsBefore := 0
	cachedBefore := map[uint64]bool{}
	stBefore := s.st
	if s.st != nil {
		segsBefore = len(s.st.segmentManager.segments)
		for _, seg := range s.st.segmentManager.segments {
			cachedBefore[seg.id] = seg.cachedIndex != nil
		}
	}
	noteDrops := func() {
		if s.st == nil || s.st != stBefore || op.K == "Evict" {
			return
		}
		for _, seg := range s.st.segmentManager.segments {
			if cachedBefore[seg.id] && seg.cachedIndex == nil && s.unexplainedDrop == "" {
				s.unexplainedDrop = op.K
			}
		}
	}
	if op.K == "Search" {
		defer noteDrops() // the search of a checked step runs inside the switch
	}
	switch op.K {
	case "AddWithID", "Add":
		d := vStoreDocs[op.B]
		var id uint32
		var err error
		s.env.do(func() {
			if op.K == "Add" {
				id, err = s.st.Add(vCopyVec(d.Vec), d.Text, vCloneMeta(d.Meta))
				vSpoilMeta()
			} else {
				id = uint32(op.A)
				err = s.st.AddWithID(id, vCopyVec(d.Vec), d.Text, vCloneMeta(d.Meta))
				vSpoilMeta()
			}
		})
		if op.C == 0 {
			s.nAdd++
			if op.K == "AddWithID" {
				s.nextID++
			}
		}
		if s.env.dead == "" {
			if err != nil {
				if check {
					s.c.Violation("add-failed", "", s.cfgS, h(), err.Error())
				}
			} else {
				if check && op.K == "Add" && s.ever[id] {
					s.c.Violation("auto-id-collides", "", s.cfgS, h(), fmt.Sprintf("Add returned id %d which is in use", id))
				}
				s.live[id] = &vStoreDocM{doc: op.B, decodesAt: s.decodes(), compactAt: s.compacts, session: s.session}
				s.ever[id] = true
				delete(s.removed, id)
			}
		}
	case "BadAdd":
		var err error
		s.nBad++
		s.env.do(func() {
			err = s.st.AddWithID(uint32(op.A), []float32{1, 0, 0}, "refused", map[string]interface{}{"s": "x"})
		})
		if s.env.dead == "" && err == nil && check {
			s.c.Violation("invalid-add-accepted", "", s.cfgS, h(), fmt.Sprintf("AddWithID(%d, vector of dimension 3) returned nil", op.A))
		}
	case "Remove":
		var err error
		s.nRemOps++
		s.env.do(func() { err = s.st.Remove(uint32(op.A)) })
		if s.env.dead == "" && err == nil {
			delete(s.live, uint32(op.A))
			s.removed[uint32(op.A)] = true
			s.remAt[uint32(op.A)] = s.decodes()
		}
	case "Flush":
		var err error
		s.env.do(func() { err = s.st.Flush() })
		if s.env.dead == "" {
			if err != nil {
				if check {
					s.c.Violation("flush-failed", "", s.cfgS, h(), err.Error())
				}
			} else {
				for _, d := range s.live {
					d.durable = true
				}
			}
		}
	case "FlushFault":
		s.nFault++
		var err error
		s.checkSegmentFiles(h())
		mark := len(s.env.fs.Log)
		s.env.fs.FailOn(vC09FaultKinds[op.A], op.B)
		s.env.do(func() { err = s.st.Flush() })
		s.env.fs.ClearFaults()
		s.abandon(h(), mark, err)
		if s.env.dead == "" && err == nil {
			// acknowledged all the same (the fault may not have been reached, or was
			// survivable): the promise holds
			for _, d := range s.live {
				d.durable = true
			}
		}
	case "Rotate":
		s.env.do(func() { s.st.memtableQueue.Rotate() })
	case "Drain":
		s.env.do(func() { vrt.Quiesce() })
	case "Compact":
		s.nBg++
		s.env.do(func() { s.st.TriggerCompaction(); vrt.Quiesce() })
	case "Tick":
		s.nBg++
		s.env.do(func() { vtime.FireAll(); vrt.Quiesce() })
	case "Idle":
		s.nBg++
		s.env.do(func() { vtime.Advance(1000 * vtime.Hour); vtime.FireAll(); vrt.Quiesce() })
	case "Evict":
		s.env.do(func() { s.st.segmentManager.EvictAllCaches() })
	case "Search":
		// searching mutates the store (loads and caches segments): it is an operation
		if check {
			s.search(h(), op.B)
		} else {
			s.env.do(func() { vStoreSearch(s.st, op.B) })
		}
	case "CloseReopen":
		var err error
		s.checkSegmentFiles(h())
		mark := len(s.env.fs.Log)
		if op.A > 0 {
			s.env.fs.FailOn(vC09FaultKinds[op.A-1], op.B)
		}
		s.env.do(func() { err = s.st.Close() })
		s.env.fs.ClearFaults()
		if op.A > 0 {
			s.abandon(h(), mark, err)
		}
		if s.env.dead != "" {
			break
		}
		if err != nil {
			if check && op.A == 0 {
				s.c.Violation("close-failed", "", s.cfgS, h(), err.Error())
			}
			// a Close that failed may have left the lock behind; the next session starts
			// like a new process would (C10/C17 judge the lock itself)
			s.env.fs.RemoveRaw(vLock())
		} else {
			for _, d := range s.live {
				d.durable = true
			}
		}
		s.session++
		// reopen with FRESH templates
		vStoreSessionNo = s.session
		s.st, err = s.env.open(s.cfg.config())
		if s.env.dead == "" && err != nil {
			if check {
				s.c.Violation("reopen-failed", "", s.cfgS, h(), err.Error())
			}
			s.st = nil
		}
		if s.st != nil {
			// what this session can know: only durable documents survive
			for id, d := range s.live {
				if !d.durable {
					delete(s.live, id)
				}
			}
		}
	}
	if op.K != "Search" {
		noteDrops()
	}
	if s.st != nil && len(s.st.segmentManager.segments) < segsBefore {
		s.compacts++
	}
	if s.env.dead != "" {
		if check {
			s.c.Violation("execution-aborted", vDeadCause(s.env.dead), s.cfgS, h(), s.env.dead)
		}
		return
	}
	if check {
		s.preObsKey = s.keyNow()
		s.checkSegmentFiles(h())
		if s.st != nil && (op.K != "Search") {
			// end-of-history observation = full Q (on a state that the next BFS level re-creates)
			for _, q := range vStoreQueries(s.cfg.Tmpl) {
				s.search(h(), q)
			}
			if strings.HasPrefix(s.cfg.Vec, "ivf") {
				s.search(h(), 8)
			}
		}
	}
}

var vSegRe = regexp.MustCompile(`_(\d+)\.bin\.gz$`)

// segment identifiers are never reused: a path *_NNNNNN.bin.gz is never created twice
// over the life of the directory, and a completed file's content never changes.
func (s *vStoreSys) checkSegmentFiles(h []string) {
	log := s.env.fs.Log
	for ; s.logSeen < len(log); s.logSeen++ {
		op := log[s.logSeen]
		if !vSegRe.MatchString(op.Path) {
			continue
		}
		switch op.Kind {
		case "create":
			s.c.Evaluations++
			if _, seen := s.segNames[op.Path]; seen {
				s.c.Violation("segment-file-created-twice", "", s.cfgS, h, fmt.Sprintf("%s was created again (segment identifier reused)", op.Path))
			}
			s.segNames[op.Path] = ""
			s.c.Nontrivial("segfile|" + s.cfgS + "|" + strings.Join(h, ";") + op.Path)
		}
	}
}

// abandon: segment files created by an operation that FAILED and removed again by its own
// clean-up never belonged to a segment; creating the same names later is no reuse.
func (s *vStoreSys) abandon(h []string, mark int, err error) {
	log := s.env.fs.Log
	s.checkSegmentFiles(h)
	if err == nil {
		return
	}
	for _, op := range log[mark:] {
		if op.Kind == "create" && vSegRe.MatchString(op.Path) && !s.env.fs.Exists(op.Path) {
			delete(s.segNames, op.Path)
		}
	}
}

func (s *vStoreSys) search(h []string, q int) {
	var got map[uint32]float64
	var err error
	s.env.do(func() { got, err = vStoreSearch(s.st, q) })
	if s.env.dead != "" {
		s.c.Violation("execution-aborted", vDeadCause(s.env.dead), s.cfgS, h, s.env.dead)
		return
	}
	s.c.Evaluations++
	if err != nil {
		s.c.Violation("search-error", "", s.cfgS, h, fmt.Sprintf("query %d: %v", q, err))
		return
	}
	dec := s.decodes()
	nseg := len(s.st.segmentManager.segments)
	for id, d := range s.live {
		if s.mode == "c09" && d.session == s.session && !d.durable {
			// C09 judges only documents made durable; same-session visibility is C08's business
			continue
		}
		if !vStoreMatches(vStoreDocs[d.doc], q, s.cfg.Tmpl) {
			continue
		}
		if _, ok := got[id]; !ok {
			cause := ""
			switch {
			case s.mode == "c09" && d.session < s.session && nseg >= 2:
				cause = "several-segments-decoded-into-shared-templates"
			case dec > d.decodesAt:
				cause = "segment-decoded-into-shared-templates-after-add"
			}
			if s.compacts > d.compactAt {
				cause += "+compaction-ran"
			}
			if s.unexplainedDrop != "" {
				cause += "+cached-segment-dropped-by:" + s.unexplainedDrop
			}
			// the known finding WIPES the document from the shared template objects (it is
			// on disk only); a document that a loaded index still holds and that the query
			// nevertheless misses is something else
			if cause != "" && vTemplatesHold(s.st, id, q) {
				cause += "+the-loaded-index-objects-hold-it"
			}
			class := "missing-acknowledged-doc"
			if s.mode == "c09" {
				class = "durable-doc-lost"
				if d.session == s.session {
					class = "durable-doc-lost-same-session"
				}
			}
			s.c.Violation(class, cause, s.cfgS, h, fmt.Sprintf("query %d returned %v; document %d (acknowledged, live) is missing; decodes %d->%d segments %d", q, vIDSet(got), id, d.decodesAt, dec, nseg))
		}
	}
	for id := range got {
		if !s.ever[id] {
			s.c.Violation("returned-never-added-id", "", s.cfgS, h, fmt.Sprintf("query %d returned id %d", q, id))
		}
	}
	// vector-only queries over the exact template: same id set as one in-memory hybrid index
	if s.mode == "c08" && (q == 0 || q == 4) && s.cfg.Vec == "flat" {
		want := map[uint32]bool{}
		for id := range s.live {
			want[id] = true
		}
		for id := range got {
			if !want[id] && s.ever[id] {
				cause := "removed-doc-returned"
				if s.removed[id] && dec > s.remAt[id] {
					cause += ":a-segment-decode-resurrected-it"
				}
				s.c.Violation("vector-only-differs-from-in-memory-index", cause, s.cfgS, h, fmt.Sprintf("query %d returned %v, in-memory index over the live documents returns %v", q, vIDSet(got), vSetStr(want)))
			}
		}
	}
	if len(s.live) > 0 {
		s.c.Nontrivial(fmt.Sprintf("%s|%s|q%d", s.cfgS, strings.Join(h, ";"), q))
	}
	s.c.Outcome(fmt.Sprint(vIDSet(got)))
}

func (s *vStoreSys) Key() string {
	if s.preObsKey != "" {
		return s.preObsKey
	}
	return s.keyNow()
}

func (s *vStoreSys) keyNow() string {
	var sb strings.Builder
	if s.st != nil {
		vrt.Quiet(func() { sb.WriteString(vCanonStore(s.st, s.env.fs)) })
	} else {
		sb.WriteString("nostore|" + vCanonDir(s.env.fs))
	}
	ids := []int{}
	for id := range s.live {
		ids = append(ids, int(id))
	}
	sort.Ints(ids)
	sb.WriteString("#")
	for _, id := range ids {
		d := s.live[uint32(id)]
		fmt.Fprintf(&sb, "%d=%d/%v/%v/%v;", id, d.doc, d.durable, s.decodes() > d.decodesAt, s.compacts > d.compactAt)
	}
	fmt.Fprintf(&sb, "rem%v n%d sess%d bg%d ro%d fl%d bad%d", vSetStr(s.removed), s.nAdd, s.session, s.nBg, s.nRemOps, s.nFault, s.nBad)
	return sb.String()
}

func vC08Cfgs(tier string) []vStoreCfg {
	var out []vStoreCfg
	for _, mem := range []int{0, 1, 2} {
		for _, thr := range []int{0, 1} {
			for _, comp := range []int{2, 3} {
				for _, tm := range []string{"vtm", "v"} {
					if tier != "thorough" && ((tm == "v" && (mem == 1 || comp == 3)) || (comp == 3 && mem == 2)) {
						continue
					}
					out = append(out, vStoreCfg{Mem: mem, Thr: thr, Comp: comp, Tmpl: tm, Vec: "flat"})
				}
			}
		}
	}
	return out
}

func vC09Cfgs(tier string) []vStoreCfg {
	var out []vStoreCfg
	for _, mem := range []int{0, 1, 2} {
		for _, vec := range []string{"flat", "hnsw", "ivf"} {
			for _, tm := range []string{"vtm", "v"} {
				if tier != "thorough" && tm == "v" && vec != "flat" {
					continue
				}
				out = append(out, vStoreCfg{Mem: mem, Thr: 1, Comp: 5, Tmpl: tm, Vec: vec})
			}
		}
	}
	// IVF templates trained differently in every session (one large memtable: one segment per
	// session boundary)
	out = append(out, vStoreCfg{Mem: 2, Thr: 1, Comp: 5, Tmpl: "v", Vec: "ivfalt"})
	if tier == "thorough" {
		out = append(out, vStoreCfg{Mem: 0, Thr: 1, Comp: 5, Tmpl: "vtm", Vec: "ivfalt"})
	}
	return out
}

func vStoreShards(mode, tier string) []vShard {
	var sh []vShard
	cfgs := vC08Cfgs(tier)
	depth, maxAdd, maxSess := 4, 3, 1
	if mode == "c09" {
		cfgs = vC09Cfgs(tier)
		depth, maxAdd, maxSess = 7, 3, 3
	}
	if tier == "thorough" {
		depth++
		if mode == "c09" {
			depth, maxAdd, maxSess = 9, 4, 4
		}
	}
	if mode == "c08" {
		for _, mem := range []int{2, 0} {
			mem := mem
			sh = append(sh, vShard{Name: fmt.Sprintf("%s/builders/mem=%d", mode, mem), Run: func(c *vCtx) { vStoreBuilderShard(c, mem, 3) }})
		}
		// deep-narrow: few operations (add, flush, search, explicit eviction, a long idle
		// period followed by the tickers), longer histories
		for _, cfg := range []vStoreCfg{{Mem: 2, Thr: 0, Comp: 3, Tmpl: "vtm", Vec: "flat"}, {Mem: 0, Thr: 1, Comp: 2, Tmpl: "v", Vec: "flat"}} {
			cfg := cfg
			nd := depth + 3
			sh = append(sh, vShard{Name: mode + "/narrow/" + strings.ReplaceAll(cfg.String(), " ", ","), Run: func(c *vCtx) {
				s := &vStoreSys{c: c, cfg: cfg, cfgS: mode + " narrow " + cfg.String(), mode: mode, maxAdd: 2, maxSess: 1, narrow: true}
				vBFS(c, s, nd)
				if s.env != nil {
					s.env.end()
				}
			}})
		}
	}
	for _, cfg := range cfgs {
		cfg := cfg
		sh = append(sh, vShard{Name: mode + "/" + strings.ReplaceAll(cfg.String(), " ", ","), Run: func(c *vCtx) {
			s := &vStoreSys{c: c, cfg: cfg, cfgS: mode + " " + cfg.String(), mode: mode, maxAdd: maxAdd, maxSess: maxSess}
			vBFS(c, s, depth)
			if s.env != nil {
				s.env.end()
			}
		}})
	}
	return sh
}

// vC09Identifiers: for EVERY N in 1..limit a directory holding one valid segment with
// identifier N (and, for every tenth N, a second one with identifier N-3) is opened
// with fresh templates; Add; Flush must create files with an identifier above every
// identifier present, must not touch the existing files, and a second session must
// again move on. Covers the digit boundaries 7/8/9/10, 99/100, 999/1000 (decimal vs
// octal parsing, lexicographic vs numeric order, counting files instead of parsing).
func vC09Identifiers(c *vCtx, limit int) {
	cfgS := "c09 segment-identifiers"
	scfg := vStoreCfg{Mem: 2, Thr: 1, Comp: 1000000, Tmpl: "vtm", Vec: "flat"}
	// a valid segment's four files, produced by a real flush
	h := vCrashRecord(vCrashCfg{Rounds: 1, InFlight: "none", Tmpl: "vtm"})
	if h.dead != "" {
		c.Violation("history-aborted", "", cfgS, nil, h.dead)
		return
	}
	src := h.snap.Files()
	// every N in 1..limit, then the neighbourhoods of the powers of ten up to 10^15 (file
	// names carry at least six digits: seven and more must keep working) and of 2^16,
	// 2^31, 2^32, 2^53, 2^62
	ns := make([]int, 0, limit+80)
	for n := 1; n <= limit; n++ {
		ns = append(ns, n)
	}
	p10 := 10000
	for k := 4; k <= 15; k++ {
		for d := -2; d <= 1; d++ {
			if p10+d > limit {
				ns = append(ns, p10+d)
			}
		}
		p10 *= 10
	}
	for _, k := range []uint{16, 31, 32, 53, 62} {
		for d := -2; d <= 1; d++ {
			if v := (1 << k) + d; v > limit {
				ns = append(ns, v)
			}
		}
	}
	for ni, n := range ns {
		if ni%64 == 0 && c.Expired() {
			c.Bound = fmt.Sprintf("identifiers: %d of %d values (deadline)", ni, len(ns))
			return
		}
		img := vos.NewMemFS()
		present := []int{n}
		if n%10 == 0 && n > 3 {
			present = append(present, n-3)
		}
		for _, id := range present {
			for p, b := range src {
				if m := vSegRe.FindStringSubmatch(p); m != nil {
					img.WriteFileRaw(strings.Replace(p, "_"+m[1]+".", fmt.Sprintf("_%06d.", id), 1), b)
				}
			}
		}
		before := img.Files()
		hist := []string{fmt.Sprintf("directory with segments %v; open; AddWithID; Flush; Close; open; AddWithID; Flush", present)}
		env := vStoreBegin(nil, img)
		maxSeen := n
		for sess := 0; sess < 2; sess++ {
			st, err := env.open(scfg.config())
			if err != nil || env.dead != "" {
				c.Violation("reopen-failed", "", cfgS, hist, fmt.Sprint(err, env.dead))
				break
			}
			if sess == 0 {
				// the documents of the segment that was found in the directory are served
				var got map[uint32]float64
				var serr error
				env.do(func() { got, serr = vStoreSearch(st, 0) })
				for _, id := range h.durable {
					if _, ok := got[id]; !ok && env.dead == "" {
						c.Violation("durable-doc-lost", "segment-identifier", cfgS, hist, fmt.Sprintf("document %d of the segment found in the directory is not returned (%v, err %v)", id, vIDSet(got), serr))
					}
				}
			}
			logStart := len(env.fs.Log)
			env.do(func() {
				st.AddWithID(uint32(7000+sess), []float32{2, 2}, "delta", map[string]interface{}{"s": "y"})
				st.Flush()
				st.Close()
			})
			if env.dead != "" {
				c.Violation("execution-aborted", vDeadCause(env.dead), cfgS, hist, env.dead)
				break
			}
			created := 0
			newMax := maxSeen
			for _, op := range env.fs.Log[logStart:] {
				if m := vSegRe.FindStringSubmatch(op.Path); m != nil && op.Kind == "create" {
					id, _ := strconv.Atoi(m[1])
					created++
					if id <= maxSeen {
						c.Violation("segment-identifier-reused", "", cfgS, hist, fmt.Sprintf("session %d created %s although identifiers up to %d exist", sess+1, op.Path, maxSeen))
					}
					if id > newMax {
						newMax = id
					}
				}
			}
			if created == 0 {
				c.Violation("flush-wrote-nothing", "", cfgS, hist, "Add; Flush created no segment file")
			}
			maxSeen = newMax
			c.Evaluations++
			c.Transitions++
		}
		after := env.fs.Files()
		for p, b := range before {
			if string(after[p]) != string(b) {
				c.Violation("existing-segment-file-changed", "", cfgS, hist, fmt.Sprintf("%s was modified or removed by a later flush", p))
			}
		}
		env.end()
		c.Traces++
		c.NewState(fmt.Sprintf("%s|%d", cfgS, n))
		c.Nontrivial(fmt.Sprintf("%s|%d", cfgS, n))
	}
	c.Sample("segments [10 7] on disk; open; AddWithID; Flush; Close; open; AddWithID; Flush => identifiers 11, 12")
	c.Bound = fmt.Sprintf("identifiers 1..%d and the neighbourhoods of 10^4..10^15, 2^16, 2^31, 2^32, 2^53, 2^62", limit)
}

func vStoreReplay(c *vCtx, v *vViolation) bool {
	if v.Config == "c09 segment-identifiers" {
		vC09Identifiers(c, 1100)
		_, ok := c.viol[v.Sig()]
		return ok
	}
	if strings.HasPrefix(v.Config, "sched ") {
		return vSchedReplay(c, v)
	}
	if i := strings.Index(v.Config, " dir="); i >= 0 {
		var name string
		fmt.Sscanf(v.Config[i:], " dir=%q", &name)
		old := vStoreDir
		vStoreDir = name
		defer func() { vStoreDir = old }()
	}
	mode := v.Config[:3]
	narrow := strings.HasPrefix(v.Config[3:], " narrow ")
	cfg := vParseStoreCfg(strings.TrimPrefix(v.Config[4:], "narrow "))
	s := &vStoreSys{c: c, cfg: cfg, cfgS: v.Config, mode: mode, maxAdd: 4, maxSess: 4, narrow: narrow}
	vReplayHist(s, v.History)
	if s.env != nil {
		s.env.end()
	}
	_, ok := c.viol[v.Sig()]
	return ok
}

var _ = vos.NewMemFS

func init() {
	vRegister(&vCheck{
		ID: "C08", Level: "model_checking", Engine: "histmc",
		Rule:        "BFS over sequential store histories Add / AddWithID / Remove / Flush / forced Rotate / Drain (let every enabled background thread run to quiescence) / Compact (TriggerCompaction + drain) / Tick (compaction ticker + drain) / Evict (EvictAllCaches) / Search-as-an-operation, for memtable limits {1 doc, 2 docs, unlimited} x flush threshold {1 byte, unlimited} x compaction threshold {2,3} x templates {flat+bm25+metadata, flat}, on the real store over the in-memory file system with its worker and per-segment goroutines run as scheduler threads under the canonical default schedule; after every transition every probe query (vector, text, metadata, vector+filter) must return every matching acknowledged live document and no id never added; vector-only answers must equal the live set (what one in-memory hybrid index returns). Plus schedmc shards: every interleaving (bounded) of user threads with the background flush / compaction workers (T2, T3, T5, W1). Non-trivial = distinct (config, history, query) with at least one acknowledged document.",
		Assumptions: []string{"a document counts as removed only when Remove returned nil", "sequential part: the only scheduling freedom is when pending background work runs (explicit Drain); schedules are explored by the schedmc shards", "known shared-template defect (F12/F13) is identified by the witness: a segment was decoded into the shared template objects after the missing document was added"},
		Shards: func(tier string) []vShard {
			sh := vStoreShards("c08", tier)
			sh = append(sh, vSchedShards("C08", tier)...)
			return sh
		},
		Replay: vStoreReplay,
	})
	vRegister(&vCheck{
		ID: "C09", Level: "model_checking", Engine: "histmc",
		Rule:        "BFS over multi-session histories (AddWithID | Flush | Search)* CloseReopen ... with up to 3 (quick) / 4 (thorough) sessions, reopening the same in-memory directory with FRESHLY constructed templates, for memtable limits {1 doc, 2 docs, unlimited} x vector template {flat, hnsw, trained ivf} x {with, without text+metadata}; after every transition every document added before the last Flush/Close that returned nil must be found by the vector, text and metadata probes, in the session that made it durable and in every later one; from the file-system log: no segment file name *_NNNNNN.bin.gz is ever created twice (identifiers never reused); background compaction checks / ticks (threshold not reached) are part of the alphabet; plus the identifier sweep: for EVERY N in 1..1100 (12000 thorough) a directory holding a valid segment N is opened, flushed to, closed, reopened and flushed to again: new identifiers above every existing one, existing files byte-identical. Non-trivial = distinct (config, history, query) with a durable document, and distinct segment-file creations. Configuration ivfalt: every session trains its own IVF template (same sample in another order / another sample); with IVF templates probe 8 asks for a stored vector at default probing.",
		Assumptions: []string{"process death is modelled by reopening the directory image (everything handed to the OS survives)", "known shared-template defect: with >= 2 segments on disk all of them are decoded into the same template objects and the last one wins; identified by that witness"},
		Shards: func(tier string) []vShard {
			sh := vStoreShards("c09", tier)
			limit := 1100
			if tier == "thorough" {
				limit = 12000
			}
			for _, cfg := range []vStoreCfg{{Mem: 2, Thr: 1, Comp: 1000000, Tmpl: "vtm", Vec: "flat"}, {Mem: 0, Thr: 1, Comp: 1000000, Tmpl: "v", Vec: "flat"}} {
				cfg := cfg
				sh = append(sh, vShard{Name: "c09/faults/" + strings.ReplaceAll(cfg.String(), " ", ","), Run: func(c *vCtx) { vC09FaultSweep(c, cfg) }})
			}
			sh = append(sh, vSchedShards("C09", tier)...)
			sh = append(sh, vShard{Name: "c09/dirnames", Run: vC09DirNames})
			sh = append(sh, vShard{Name: "c09/segment-identifiers", Run: func(c *vCtx) { vC09Identifiers(c, limit) }})
			return sh
		},
		Replay: vStoreReplay,
	})
}
