//go:build verif

package comet

// Shared pieces for the vector-index checks (C01, C02, C12, C13, C14): reference
// distances, alphabets, instance factories, canonical state dumps, acceptance
// relations.

import (
	"fmt"
	"math"
	"sort"
	"strings"

	"github.com/RoaringBitmap/roaring"
	"github.com/wizenheimer/comet/internal/vrt"
)

// ---------------------------------------------------------------------------
// reference distances (float64, from raw vectors; independent of comet's preprocessing)

func vRefDist(metric DistanceKind, q, v []float32) float64 {
	switch metric {
	case Euclidean, L2Squared:
		s := 0.0
		for i := range q {
			d := float64(q[i]) - float64(v[i])
			s += d * d
		}
		if metric == Euclidean {
			return math.Sqrt(s)
		}
		return s
	case Cosine:
		var dot, nq, nv float64
		for i := range q {
			dot += float64(q[i]) * float64(v[i])
			nq += float64(q[i]) * float64(q[i])
			nv += float64(v[i]) * float64(v[i])
		}
		c := dot / math.Sqrt(nq*nv)
		if c > 1 {
			c = 1
		}
		if c < -1 {
			c = -1
		}
		return 1 - c
	}
	panic("metric")
}

func vIsZero(v []float32) bool {
	for _, x := range v {
		if x != 0 {
			return false
		}
	}
	return true
}

func vAllInts(v []float32) bool {
	for _, x := range v {
		if x != float32(math.Trunc(float64(x))) || math.Abs(float64(x)) > 1024 {
			return false
		}
	}
	return true
}

func vCopyVec(v []float32) []float32 { return append([]float32(nil), v...) }

// ---------------------------------------------------------------------------
// alphabets

// vVecAlphabet: duplicates, exact ties, 3-4-5 triangle, zero vector (last).
func vVecAlphabet(d int) [][]float32 {
	switch d {
	case 1:
		return [][]float32{{1}, {-1}, {3}, {1}, {5}, {0}}
	case 2:
		return [][]float32{{1, 0}, {0, 1}, {1, 1}, {-1, 0}, {3, 4}, {1, 0}, {0, 0}}
	case 3:
		return [][]float32{{1, 0, 0}, {0, 1, 0}, {1, 1, 0}, {0, 0, -1}, {2, 3, 6}, {1, 0, 0}, {0, 0, 0}}
	case 4:
		return [][]float32{{1, 0, 0, 0}, {0, 1, 0, 0}, {1, 1, 1, 1}, {-1, 0, 0, 0}, {3, 4, 0, 0}, {1, 0, 0, 0}, {0, 0, 0, 0}}
	}
	// structured high dimension: the d=2 alphabet embedded block-wise
	base := vVecAlphabet(2)
	out := make([][]float32, len(base))
	for i, b := range base {
		v := make([]float32, d)
		for j := 0; j < d; j++ {
			v[j] = b[j%2]
		}
		out[i] = v
	}
	return out
}

func vQueryAlphabet(d int) [][]float32 {
	switch d {
	case 1:
		return [][]float32{{1}, {2}, {-4}, {0}}
	case 2:
		return [][]float32{{1, 0}, {0.5, 0.5}, {-7, -7}, {2, 2}, {0, 0}}
	case 3:
		return [][]float32{{1, 0, 0}, {0.5, 0.5, 0}, {-7, -7, -7}, {0, 0, 0}}
	case 4:
		return [][]float32{{1, 0, 0, 0}, {0.5, 0.5, 0, 0}, {-7, -7, -7, -7}, {0, 0, 0, 0}}
	}
	base := vQueryAlphabet(2)
	out := make([][]float32, len(base))
	for i, b := range base {
		v := make([]float32, d)
		for j := 0; j < d; j++ {
			v[j] = b[j%2]
		}
		out[i] = v
	}
	return out
}

// ---------------------------------------------------------------------------
// model

type vVecModel struct {
	live    map[uint32][]float32 // raw vectors as supplied by the caller
	removed map[uint32]bool      // removed and not live again
	ever    map[uint32]bool
	order   []uint32 // insertion order of ever-added ids
}

func newVecModel() *vVecModel {
	return &vVecModel{live: map[uint32][]float32{}, removed: map[uint32]bool{}, ever: map[uint32]bool{}}
}

func (m *vVecModel) key() string {
	ids := make([]int, 0, len(m.ever))
	for id := range m.ever {
		ids = append(ids, int(id))
	}
	sort.Ints(ids)
	var sb strings.Builder
	for _, id := range ids {
		if v, ok := m.live[uint32(id)]; ok {
			fmt.Fprintf(&sb, "%d:L%s;", id, vF32bits(v))
		} else {
			fmt.Fprintf(&sb, "%d:R;", id)
		}
	}
	return sb.String()
}

// ---------------------------------------------------------------------------
// HNSW level control

// vWithLevel runs f with rand.Float64 scripted so that randomLevel() returns level.
func vWithLevel(level int, f func()) {
	n := 0
	vrt.RandHook = func() float64 {
		n++
		if n <= level {
			return 0
		}
		return 0.999
	}
	defer func() { vrt.RandHook = nil }()
	f()
}

// vFixLevels pins every HNSW insert to level 0 for the rest of the process (checks
// whose oracle compares two instances must not let real randomness differ between them).
func vFixLevels() { vrt.RandHook = func() float64 { return 0.999 } }

// ---------------------------------------------------------------------------
// canonical dumps of private state

func vBitmapStr(b *roaring.Bitmap) string {
	if b == nil {
		return "nil"
	}
	return fmt.Sprint(b.ToArray())
}

func vCanonVec(idx VectorIndex) string {
	var sb strings.Builder
	switch x := idx.(type) {
	case *FlatIndex:
		fmt.Fprintf(&sb, "flat d=%d %s|", x.dim, x.distanceKind)
		for _, v := range x.vectors {
			fmt.Fprintf(&sb, "%d:%s;", v.ID(), vF32bits(v.Vector()))
		}
		sb.WriteString("|del=" + vBitmapStr(x.deletedNodes))
	case *HNSWIndex:
		fmt.Fprintf(&sb, "hnsw d=%d %s M=%d efc=%d efs=%d max=%d ep=%d next=%d|", x.dim, x.distanceKind, x.M, x.efConstruction, x.efSearch, x.maxLevel, x.entryPoint, x.nextID)
		ids := make([]int, 0, len(x.nodes))
		for id := range x.nodes {
			ids = append(ids, int(id))
		}
		sort.Ints(ids)
		for _, id := range ids {
			n := x.nodes[uint32(id)]
			fmt.Fprintf(&sb, "%d(id=%d,l=%d):%s:%v;", id, n.ID(), n.Level, vF32bits(n.Vector()), n.Edges)
		}
		sb.WriteString("|del=" + vBitmapStr(x.deletedNodes))
	case *IVFIndex:
		fmt.Fprintf(&sb, "ivf d=%d %s nlist=%d tr=%v|", x.dim, x.distanceKind, x.nlist, x.trained)
		for _, c := range x.centroids {
			sb.WriteString(vF32bits(c) + "/")
		}
		for i, l := range x.lists {
			fmt.Fprintf(&sb, "|L%d:", i)
			for _, v := range l {
				fmt.Fprintf(&sb, "%d:%s;", v.ID(), vF32bits(v.Vector()))
			}
		}
		sb.WriteString("|del=" + vBitmapStr(x.deletedNodes))
	case *PQIndex:
		fmt.Fprintf(&sb, "pq d=%d %s M=%d nb=%d tr=%v|", x.dim, x.distanceKind, x.M, x.Nbits, x.trained)
		for _, c := range x.codebooks {
			sb.WriteString(vF32bits(c) + "/")
		}
		for i, v := range x.vectorNodes {
			fmt.Fprintf(&sb, "%d:%v:%s;", v.ID(), x.codes[i], vF32bits(v.Vector()))
		}
		sb.WriteString("|del=" + vBitmapStr(x.deletedNodes))
	case *IVFPQIndex:
		fmt.Fprintf(&sb, "ivfpq d=%d %s nlist=%d M=%d nb=%d tr=%v|", x.dim, x.distanceKind, x.nlist, x.M, x.Nbits, x.trained)
		for _, c := range x.centroids {
			sb.WriteString(vF32bits(c) + "/")
		}
		for _, c := range x.codebooks {
			sb.WriteString(vF32bits(c) + "/")
		}
		for i, l := range x.lists {
			fmt.Fprintf(&sb, "|L%d:", i)
			for _, cv := range l {
				fmt.Fprintf(&sb, "%d:%v:%s;", cv.Node.ID(), cv.Code, vF32bits(cv.Node.Vector()))
			}
		}
		sb.WriteString("|del=" + vBitmapStr(x.deletedNodes))
	default:
		sb.WriteString("unknown-kind")
	}
	return sb.String()
}

// vDeletedBitmap returns the soft-delete bitmap of a vector index (witness predicates).
func vDeletedBitmap(idx VectorIndex) *roaring.Bitmap {
	switch x := idx.(type) {
	case *FlatIndex:
		return x.deletedNodes
	case *HNSWIndex:
		return x.deletedNodes
	case *IVFIndex:
		return x.deletedNodes
	case *PQIndex:
		return x.deletedNodes
	case *IVFPQIndex:
		return x.deletedNodes
	}
	return nil
}

// ---------------------------------------------------------------------------
// queries and acceptance

type vVecQuery struct {
	Q     []float32
	K     int
	Thr   float32
	IDs   []uint32
	NProb int
	Ef    int
	Node  uint32 // search from node id instead of Q when != 0
}

func (q vVecQuery) String() string {
	return fmt.Sprintf("q=%v k=%d thr=%v ids=%v np=%d ef=%d node=%d", q.Q, q.K, q.Thr, q.IDs, q.NProb, q.Ef, q.Node)
}

func vRunVecQuery(idx VectorIndex, q vVecQuery) ([]VectorResult, error) {
	return vBuildVecSearch(idx, q).Execute()
}

// vBuildVecSearch prepares (but does not execute) the search object for q.
func vBuildVecSearch(idx VectorIndex, q vVecQuery) VectorSearch {
	s := idx.NewSearch()
	if q.Node != 0 || q.Q == nil {
		s = s.WithNode(q.Node)
	} else {
		s = s.WithQuery(vCopyVec(q.Q))
	}
	s = s.WithK(q.K)
	if q.Thr != 0 {
		s = s.WithThreshold(q.Thr)
	}
	if len(q.IDs) > 0 {
		s = s.WithDocumentIDs(q.IDs...)
	}
	if q.NProb != 0 {
		s = s.WithNProbes(q.NProb)
	}
	if q.Ef != 0 {
		s = s.WithEfSearch(q.Ef)
	}
	return s
}

type vCand struct {
	id   uint32
	dist float64
}

// vEligible computes the model's eligible candidates for a query. boundary reports
// that some candidate lies within tolerance of the threshold while the arithmetic is
// not exact (the query is then not judged).
func vEligible(metric DistanceKind, live map[uint32][]float32, q vVecQuery, crisp bool, scoreOf func(id uint32, v []float32) float64) (cands []vCand, boundary bool) {
	restrict := map[uint32]bool{}
	for _, id := range q.IDs {
		restrict[id] = true
	}
	exact := crisp && metric != Cosine && vAllInts(q.Q)
	for id, v := range live {
		if len(restrict) > 0 && !restrict[id] {
			continue
		}
		d := scoreOf(id, v)
		if q.Thr > 0 {
			t := float64(q.Thr)
			if exact && vAllInts(v) {
				if float32(d) > q.Thr {
					continue
				}
			} else {
				if math.Abs(d-t) <= 1e-4*math.Max(vTolFloor, math.Abs(t)) {
					boundary = true
				}
				if d > t {
					continue
				}
			}
		}
		cands = append(cands, vCand{id, d})
	}
	sort.Slice(cands, func(i, j int) bool {
		if cands[i].dist != cands[j].dist {
			return cands[i].dist < cands[j].dist
		}
		return cands[i].id < cands[j].id
	})
	return
}

// vAcceptExact is the acceptance relation of DESIGN 3.1 for exact kinds: correct
// length, distinct eligible ids, per-id score, ascending order, best-len score multiset.
func vAcceptExact(res []VectorResult, cands []vCand, k int) string {
	want := len(cands)
	if k > 0 && k < want {
		want = k
	}
	if len(res) != want {
		return fmt.Sprintf("length %d, expected %d", len(res), want)
	}
	ref := map[uint32]float64{}
	for _, c := range cands {
		ref[c.id] = c.dist
	}
	seen := map[uint32]bool{}
	for i, r := range res {
		id := r.Node.ID()
		if seen[id] {
			return fmt.Sprintf("id %d returned twice", id)
		}
		seen[id] = true
		d, ok := ref[id]
		if !ok {
			return fmt.Sprintf("id %d is not an eligible live vector", id)
		}
		if !vApprox(float64(r.Score), d) {
			return fmt.Sprintf("id %d scored %v, reference %v", id, r.Score, d)
		}
		if i > 0 && res[i-1].Score > r.Score {
			return fmt.Sprintf("not ascending at rank %d (%v > %v)", i, res[i-1].Score, r.Score)
		}
		if !vApprox(float64(r.Score), cands[i].dist) {
			return fmt.Sprintf("rank %d has score %v but the %d-th best eligible distance is %v", i, r.Score, i, cands[i].dist)
		}
	}
	return ""
}

// vAcceptSound is the soundness-only relation for approximate kinds.
func vAcceptSound(res []VectorResult, cands []vCand, k int, checkScore bool) string {
	if k > 0 && len(res) > k {
		return fmt.Sprintf("%d results for k=%d", len(res), k)
	}
	if len(res) > len(cands) {
		return fmt.Sprintf("%d results but only %d eligible", len(res), len(cands))
	}
	ref := map[uint32]float64{}
	for _, c := range cands {
		ref[c.id] = c.dist
	}
	seen := map[uint32]bool{}
	for i, r := range res {
		id := r.Node.ID()
		if seen[id] {
			return fmt.Sprintf("id %d returned twice", id)
		}
		seen[id] = true
		d, ok := ref[id]
		if !ok {
			return fmt.Sprintf("id %d is not an eligible live vector", id)
		}
		if checkScore && !vApprox(float64(r.Score), d) {
			return fmt.Sprintf("id %d scored %v, reference %v", id, r.Score, d)
		}
		if i > 0 && res[i-1].Score > r.Score {
			return fmt.Sprintf("not ascending at rank %d", i)
		}
	}
	return ""
}

func vResIDs(res []VectorResult) []uint32 {
	out := make([]uint32, len(res))
	for i, r := range res {
		out[i] = r.Node.ID()
	}
	return out
}

func vResStr(res []VectorResult) string {
	var sb strings.Builder
	for _, r := range res {
		fmt.Fprintf(&sb, "%d@%v ", r.Node.ID(), r.Score)
	}
	return sb.String()
}

// vStructuredVecs returns n pairwise distinct, non-zero vectors on a small integer
// lattice (exact arithmetic for l2 / l2^2), deterministic.
func vStructuredVecs(dim, n int) [][]float32 {
	out := make([][]float32, n)
	for i := 0; i < n; i++ {
		v := make([]float32, dim)
		x := i + 1
		for j := 0; j < dim; j++ {
			v[j] = float32((x%9)-4) + float32(j%2)
			x = x/9 + j + 1
		}
		v[0] += float32(i/9) * 9 // make them pairwise distinct for any n
		if vIsZero(v) {
			v[0] = 0.5
		}
		out[i] = v
	}
	return out
}

// ---------------------------------------------------------------------------
// affine transforms of the data ("xf" shards): every vector handed to the index (data,
// training set, queries) is v -> (v + Off) * 2^Exp. Off is a multiple of 1/8 below 2^21
// and the alphabets are small dyadic numbers, so the transformed data is exactly
// representable and Euclidean distances between transformed points are the original ones
// times 2^Exp exactly: an index must give the same answers, scaled. What changes is the
// float32 arithmetic of anything that is NOT a plain difference-of-coordinates formula
// (expanded norms, absolute epsilons, early-outs).

type vAffine struct {
	Off float32
	Exp int
}

var vXF vAffine

// vTolFloor is the magnitude below which vApprox compares absolutely (1 for unscaled data).
var vTolFloor = 1.0

var vXFs = []vAffine{{0, -20}, {0, -40}, {0, 20}, {4096, 0}, {1 << 20, 0}, {4096, -20}, {20000, 0}}

func (x vAffine) active() bool { return x.Off != 0 || x.Exp != 0 }

func vXFTag() string {
	if !vXF.active() {
		return ""
	}
	return fmt.Sprintf(" xf=%g:%d", vXF.Off, vXF.Exp)
}

// vXFParse sets vXF (and the tolerance unit for metric) from a configuration string that
// may carry an xf tag; the returned function restores the defaults.
func vXFParse(cfg string, metric DistanceKind) func() {
	i := strings.Index(cfg, " xf=")
	if i < 0 {
		return func() {}
	}
	var off float64
	var e int
	fmt.Sscanf(cfg[i:], " xf=%g:%d", &off, &e)
	return vXFSet(vAffine{float32(off), e}, metric)
}

func vXFSet(x vAffine, metric DistanceKind) func() {
	vXF = x
	switch metric {
	case Euclidean:
		vTolFloor = math.Ldexp(1, x.Exp)
	case L2Squared:
		vTolFloor = math.Ldexp(1, 2*x.Exp)
	default:
		vTolFloor = 1
	}
	return func() { vXF = vAffine{}; vTolFloor = 1 }
}

func vXFScalar(t float32, metric DistanceKind) float32 {
	switch metric {
	case Euclidean:
		return float32(math.Ldexp(float64(t), vXF.Exp))
	case L2Squared:
		return float32(math.Ldexp(float64(t), 2*vXF.Exp))
	}
	return t
}

func vXFVec(v []float32) []float32 {
	out := make([]float32, len(v))
	for i, x := range v {
		out[i] = float32(math.Ldexp(float64(x+vXF.Off), vXF.Exp))
	}
	return out
}

func vXFVecs(vs [][]float32) [][]float32 {
	if !vXF.active() {
		return vs
	}
	out := make([][]float32, len(vs))
	for i, v := range vs {
		out[i] = vXFVec(v)
	}
	return out
}

// vXFStrip removes the xf tag from a configuration string (after vXFParse has read it).
func vXFStrip(cfg string) string {
	i := strings.Index(cfg, " xf=")
	if i < 0 {
		return cfg
	}
	j := strings.Index(cfg[i+1:], " ")
	if j < 0 {
		return cfg[:i]
	}
	return cfg[:i] + cfg[i+1+j:]
}

// vXFUnit: the magnitude of "one unit" of the (preprocessed) data under the current
// transform, to the given power (1 = lengths, 2 = squared lengths); 1 for cosine, whose
// preprocessing normalises the scale away.
func vXFUnit(metric DistanceKind, power int) float64 {
	if metric == Cosine {
		return 1
	}
	return math.Ldexp(1, power*vXF.Exp)
}
