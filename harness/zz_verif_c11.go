//go:build verif && verifl2

package comet

// C11 — indexes and store are race-free and visibility-linearizable under concurrency
// (schedmc scenarios; the same bodies are run free under the race detector).
// Also registers the concurrent scenarios of C17 and C08.

import (
	"bytes"
	"fmt"
	"io"
	"math"
	"sort"
	"strings"

	"github.com/wizenheimer/comet/internal/vrt"
)

// ---------------------------------------------------------------------------
// index adaptors

type vConcIdx struct {
	canon   func() string
	name    string
	add     func(id uint32, content int) error
	remove  func(id uint32) error
	search  func(restrict []uint32) ([]uint32, error) // a query that matches every document
	search2 func() ([]uint32, error)                  // the same with two queries / a query and a node id (nil if n/a)
	flush   func() error
	write   func() error
	// snap (nil if n/a): WriteTo, then - outside the schedule - the written bytes are read
	// into a fresh index, which must be internally consistent (an id is found by every
	// modality and can be removed, or by none and cannot); returns the ids the snapshot holds
	snap func() ([]uint32, error)
}

var vConcVecs = [][]float32{{1, 0}, {0, 1}, {3, 4}, {2, 2}}
var vConcTexts = []string{"alpha", "alpha beta", "gamma alpha", "alpha alpha"}

func vConcVec(cfg vVecCfg) func() *vConcIdx {
	return func() *vConcIdx {
		idx, err := cfg.New()
		if err != nil {
			panic(err)
		}
		return &vConcIdx{
			canon:  func() string { return vCanonVec(idx) },
			name:   cfg.Kind,
			add:    func(id uint32, c int) error { return idx.Add(*NewVectorNodeWithID(id, vCopyVec(vConcVecs[c%4]))) },
			remove: func(id uint32) error { return idx.Remove(*NewVectorNodeWithID(id, nil)) },
			search: func(r []uint32) ([]uint32, error) {
				s := idx.NewSearch().WithQuery([]float32{1, 1}).WithK(-1).WithNProbes(-1).WithEfSearch(64)
				if len(r) > 0 {
					s = s.WithDocumentIDs(r...)
				}
				res, err := s.Execute()
				return vResIDs(res), err
			},
			flush: func() error { return idx.Flush() },
			write: func() error { _, err := idx.WriteTo(io.Discard); return err },
			search2: func() ([]uint32, error) {
				res, err := idx.NewSearch().WithQuery([]float32{1, 1}, []float32{0, 2}).WithK(-1).WithNProbes(-1).WithEfSearch(64).Execute()
				return vResIDs(res), err
			},
		}
	}
}

func vConcKinds() map[string]func() *vConcIdx {
	return map[string]func() *vConcIdx{
		"flat":  vConcVec(vVecCfg{Kind: "flat", Metric: Cosine, Dim: 2}),
		"hnsw":  vConcVec(vVecCfg{Kind: "hnsw", Metric: Euclidean, Dim: 2, M: 2, Ef: 8}),
		"ivf":   vConcVec(vVecCfg{Kind: "ivf", Metric: Euclidean, Dim: 2, NList: 2, Train: 0}),
		"pq":    vConcVec(vVecCfg{Kind: "pq", Metric: Euclidean, Dim: 2, M: 2, NBits: 2, Train: 0}),
		"ivfpq": vConcVec(vVecCfg{Kind: "ivfpq", Metric: Euclidean, Dim: 2, NList: 2, M: 1, NBits: 2, Train: 0}),
		"bm25": func() *vConcIdx {
			idx := NewBM25SearchIndex()
			return &vConcIdx{name: "bm25", canon: func() string { return vCanonBM25(idx) },
				add:    func(id uint32, c int) error { return idx.Add(id, vConcTexts[c%4]) },
				remove: func(id uint32) error { return idx.Remove(id) },
				search: func(r []uint32) ([]uint32, error) {
					// every token of the text alphabet: whatever a document holds (or a lost
					// update left behind in the postings) matches
					s := idx.NewSearch().WithQuery("alpha beta gamma").WithK(-1)
					if len(r) > 0 {
						s = s.WithDocumentIDs(r...)
					}
					res, err := s.Execute()
					ids := make([]uint32, len(res))
					for i, x := range res {
						ids[i] = x.Id
					}
					return ids, err
				},
				flush: func() error { return idx.Flush() },
				write: func() error { _, err := idx.WriteTo(io.Discard); return err },
				search2: func() ([]uint32, error) {
					res, err := idx.NewSearch().WithQuery("alpha", "beta gamma").WithK(-1).Execute()
					ids := make([]uint32, len(res))
					for i, x := range res {
						ids[i] = x.Id
					}
					return ids, err
				},
			}
		},
		"metadata": func() *vConcIdx {
			idx := NewRoaringMetadataIndex()
			return &vConcIdx{name: "metadata", canon: func() string { return vCanonMeta(idx) },
				add: func(id uint32, c int) error {
					return idx.Add(*NewMetadataNodeWithID(id, map[string]interface{}{"s": "x", "n": c}))
				},
				remove: func(id uint32) error { return idx.Remove(*NewMetadataNodeWithID(id, nil)) },
				search: func(r []uint32) ([]uint32, error) {
					res, err := idx.NewSearch().WithFilters(Eq("s", "x")).Execute()
					var ids []uint32
					for _, x := range res {
						keep := len(r) == 0
						for _, w := range r {
							if w == x.GetId() {
								keep = true
							}
						}
						if keep {
							ids = append(ids, x.GetId())
						}
					}
					return ids, err
				},
				flush: func() error { return idx.Flush() },
				write: func() error { _, err := idx.WriteTo(io.Discard); return err },
			}
		},
		"hybrid": func() *vConcIdx {
			f, _ := NewFlatIndex(2, Euclidean)
			idx := NewHybridSearchIndex(f, NewBM25SearchIndex(), NewRoaringMetadataIndex())
			return &vConcIdx{name: "hybrid",
				canon: func() string {
					h := idx.(*hybridSearchIndex)
					return vCanonHybridIdx(h) + vCanonVec(h.vectorIndex) + vCanonBM25(h.textIndex.(*BM25SearchIndex)) + vCanonMeta(h.metadataIndex.(*RoaringMetadataIndex))
				},
				add: func(id uint32, c int) error {
					return idx.AddWithID(id, vCopyVec(vConcVecs[c%4]), vConcTexts[c%4], map[string]interface{}{"s": "x"})
				},
				remove: func(id uint32) error { return idx.Remove(id) },
				search: func(r []uint32) ([]uint32, error) {
					res, err := idx.NewSearch().WithVector([]float32{1, 1}).WithText("alpha").WithMetadata(Eq("s", "x")).WithK(10).Execute()
					ids := make([]uint32, len(res))
					for i, x := range res {
						ids[i] = x.ID
					}
					return ids, err
				},
				flush: func() error { return idx.Flush() },
				write: func() error {
					var a, b, c, d bytes.Buffer
					return idx.WriteTo(&a, &b, &c, &d)
				},
				snap: func() (ids []uint32, err error) {
					var a, b, c, d bytes.Buffer
					if err := idx.WriteTo(&a, &b, &c, &d); err != nil {
						return nil, err
					}
					vrt.Quiet(func() {
						f2, _ := NewFlatIndex(2, Euclidean)
						l := NewHybridSearchIndex(f2, NewBM25SearchIndex(), NewRoaringMetadataIndex())
						if _, rerr := l.(*hybridSearchIndex).ReadFrom(io.MultiReader(&a, &b, &c, &d)); rerr != nil {
							err = fmt.Errorf("snapshot taken during concurrent use cannot be read back: %v", rerr)
							return
						}
						set := func(res []HybridSearchResult, e error) map[uint32]bool {
							m := map[uint32]bool{}
							for _, r := range res {
								m[r.ID] = true
							}
							if e != nil && err == nil {
								err = fmt.Errorf("search on the reloaded snapshot failed: %v", e)
							}
							return m
						}
						vs := set(l.NewSearch().WithVector([]float32{1, 1}).WithK(10).Execute())
						ts := set(l.NewSearch().WithText("alpha").WithK(10).Execute())
						ms := set(l.NewSearch().WithMetadata(Eq("s", "x")).WithK(10).Execute())
						for id := uint32(1); id <= 4; id++ {
							rem := l.Remove(id) == nil
							if vs[id] != ts[id] || ts[id] != ms[id] || ms[id] != rem {
								if err == nil {
									err = fmt.Errorf("torn snapshot: document %d is in the reloaded index by vector=%v text=%v metadata=%v, removable=%v", id, vs[id], ts[id], ms[id], rem)
								}
							}
							if vs[id] {
								ids = append(ids, id)
							}
						}
					})
					return ids, err
				},
			}
		},
	}
}

func vNoErr(e vEvent) bool { return false }

func vRemoveMayFail(e vEvent) bool { return strings.HasPrefix(e.Op, "Remove(") }

func vIdxScenario(kind, name string, mk func() *vConcIdx, pre func(ix *vConcIdx), threads func(x *vSchedExec, ix *vConcIdx), preIDs []uint32, allowed func(vEvent) bool, post func(x *vSchedExec, ix *vConcIdx)) *vScenario {
	return &vScenario{Prop: "C11", Name: kind + "/" + name,
		Body: func(x *vSchedExec) {
			ix := mk()
			pre(ix)
			x.canon = ix.canon
			threads(x, ix)
			x.Join()
			if post != nil {
				post(x, ix)
			}
		},
		Judge: func(x *vSchedExec) [][3]string {
			return vJudgeVisibility(x.events, preIDs, allowed)
		},
	}
}

func init() {
	kinds := vConcKinds()
	names := make([]string, 0, len(kinds))
	for k := range kinds {
		names = append(names, k)
	}
	sort.Strings(names)
	srch := func(x *vSchedExec, ix *vConcIdx, th string, r []uint32) {
		x.Op(th, fmt.Sprintf("Search%v", r), func() ([]uint32, error) { return ix.search(r) })
	}
	// WriteTo as an operation: where the kind can read its snapshot back, the snapshot is
	// judged like a search (op name "Search-in-snapshot": what it holds must respect the
	// real-time order of completed adds / removals) and must not be torn
	wr := func(x *vSchedExec, ix *vConcIdx) {
		if ix.snap != nil {
			x.Op("A", "Search-in-snapshot(WriteTo)", func() ([]uint32, error) { return ix.snap() })
			return
		}
		x.Op("A", "WriteTo", func() ([]uint32, error) { return nil, ix.write() })
	}
	for _, k := range names {
		mk := kinds[k]
		k := k
		// S1: Add(1) || Search || Remove(2)
		vScenarios = append(vScenarios, vIdxScenario(k, "S1-add-search-remove", mk,
			func(ix *vConcIdx) { ix.add(2, 1) },
			func(x *vSchedExec, ix *vConcIdx) {
				x.Spawn("A", func() { x.Op("A", "Add(1)", func() ([]uint32, error) { return nil, ix.add(1, 0) }) })
				x.Spawn("B", func() { srch(x, ix, "B", nil) })
				x.Spawn("C", func() { x.Op("C", "Remove(2)", func() ([]uint32, error) { return nil, ix.remove(2) }) })
			}, []uint32{2}, vNoErr,
			func(x *vSchedExec, ix *vConcIdx) { srch(x, ix, "main", nil) }))
		// S2: Remove(1) || Remove(1) || Search
		vScenarios = append(vScenarios, vIdxScenario(k, "S2-remove-remove-search", mk,
			func(ix *vConcIdx) { ix.add(1, 0); ix.add(2, 1) },
			func(x *vSchedExec, ix *vConcIdx) {
				x.Spawn("A", func() { x.Op("A", "Remove(1)", func() ([]uint32, error) { return nil, ix.remove(1) }) })
				x.Spawn("B", func() { x.Op("B", "Remove(1)", func() ([]uint32, error) { return nil, ix.remove(1) }) })
				x.Spawn("C", func() { srch(x, ix, "C", nil) })
			}, []uint32{1, 2}, vRemoveMayFail,
			func(x *vSchedExec, ix *vConcIdx) { srch(x, ix, "main", nil) }))
		// S3: Add(1) || Flush || Search with a soft-deleted document present
		vScenarios = append(vScenarios, vIdxScenario(k, "S3-add-flush-search", mk,
			func(ix *vConcIdx) { ix.add(2, 1); ix.add(3, 2); ix.remove(3) },
			func(x *vSchedExec, ix *vConcIdx) {
				x.Spawn("A", func() { x.Op("A", "Add(1)", func() ([]uint32, error) { return nil, ix.add(1, 0) }) })
				x.Spawn("B", func() { x.Op("B", "Flush", func() ([]uint32, error) { return nil, ix.flush() }) })
				x.Spawn("C", func() { srch(x, ix, "C", nil) })
			}, []uint32{2}, vNoErr,
			func(x *vSchedExec, ix *vConcIdx) { srch(x, ix, "main", nil) }))
		// S4: WriteTo || Add(1) || Remove(2)
		vScenarios = append(vScenarios, vIdxScenario(k, "S4-write-add-remove", mk,
			func(ix *vConcIdx) { ix.add(2, 1); ix.add(3, 2) },
			func(x *vSchedExec, ix *vConcIdx) {
				x.Spawn("A", func() { wr(x, ix) })
				x.Spawn("B", func() { x.Op("B", "Add(1)", func() ([]uint32, error) { return nil, ix.add(1, 0) }) })
				x.Spawn("C", func() { x.Op("C", "Remove(2)", func() ([]uint32, error) { return nil, ix.remove(2) }) })
			}, []uint32{2, 3}, vNoErr,
			func(x *vSchedExec, ix *vConcIdx) { srch(x, ix, "main", nil) }))
		// S7: two adds and a search race on an EMPTY index (first-insert paths)
		vScenarios = append(vScenarios, vIdxScenario(k, "S7-add-add-search-on-empty", mk,
			func(ix *vConcIdx) {},
			func(x *vSchedExec, ix *vConcIdx) {
				x.Spawn("A", func() { x.Op("A", "Add(1)", func() ([]uint32, error) { return nil, ix.add(1, 0) }) })
				x.Spawn("B", func() { x.Op("B", "Add(2)", func() ([]uint32, error) { return nil, ix.add(2, 1) }) })
				x.Spawn("C", func() { srch(x, ix, "C", nil) })
			}, nil, vNoErr,
			func(x *vSchedExec, ix *vConcIdx) { srch(x, ix, "main", nil) }))
		// S8: add, remove and re-add of the same id race with a search
		vScenarios = append(vScenarios, vIdxScenario(k, "S8-remove-readd-search", mk,
			func(ix *vConcIdx) { ix.add(1, 0); ix.add(2, 1) },
			func(x *vSchedExec, ix *vConcIdx) {
				x.Spawn("A", func() {
					x.Op("A", "Remove(1)", func() ([]uint32, error) { return nil, ix.remove(1) })
					x.Op("A", "Add(3)", func() ([]uint32, error) { return nil, ix.add(3, 2) })
				})
				x.Spawn("B", func() { x.Op("B", "Flush", func() ([]uint32, error) { return nil, ix.flush() }) })
				x.Spawn("C", func() { srch(x, ix, "C", nil) })
			}, []uint32{1, 2}, vNoErr,
			func(x *vSchedExec, ix *vConcIdx) { srch(x, ix, "main", nil) }))
		// S9: Flush || Flush || Search with two soft-deleted documents
		vScenarios = append(vScenarios, vIdxScenario(k, "S9-flush-flush-search", mk,
			func(ix *vConcIdx) { ix.add(1, 0); ix.add(2, 1); ix.add(3, 2); ix.remove(2); ix.remove(3) },
			func(x *vSchedExec, ix *vConcIdx) {
				x.Spawn("A", func() { x.Op("A", "Flush", func() ([]uint32, error) { return nil, ix.flush() }) })
				x.Spawn("B", func() { x.Op("B", "Flush", func() ([]uint32, error) { return nil, ix.flush() }) })
				x.Spawn("C", func() { srch(x, ix, "C", nil) })
			}, []uint32{1}, vNoErr,
			func(x *vSchedExec, ix *vConcIdx) { srch(x, ix, "main", nil) }))
		// S10: WriteTo || Flush || Add
		vScenarios = append(vScenarios, vIdxScenario(k, "S10-write-flush-add", mk,
			func(ix *vConcIdx) { ix.add(1, 0); ix.add(2, 1); ix.remove(2) },
			func(x *vSchedExec, ix *vConcIdx) {
				x.Spawn("A", func() { wr(x, ix) })
				x.Spawn("B", func() { x.Op("B", "Flush", func() ([]uint32, error) { return nil, ix.flush() }) })
				x.Spawn("C", func() { x.Op("C", "Add(3)", func() ([]uint32, error) { return nil, ix.add(3, 2) }) })
			}, []uint32{1}, vNoErr,
			func(x *vSchedExec, ix *vConcIdx) { srch(x, ix, "main", nil) }))
		// S13: Remove(2) || Flush || Search with another soft-deleted document present (the
		// Flush has work to do): a removal that lands inside the Flush stays a removal
		vScenarios = append(vScenarios, vIdxScenario(k, "S13-remove-flush-search", mk,
			func(ix *vConcIdx) { ix.add(1, 0); ix.add(2, 1); ix.add(3, 2); ix.remove(3) },
			func(x *vSchedExec, ix *vConcIdx) {
				x.Spawn("A", func() { x.Op("A", "Remove(2)", func() ([]uint32, error) { return nil, ix.remove(2) }) })
				x.Spawn("B", func() { x.Op("B", "Flush", func() ([]uint32, error) { return nil, ix.flush() }) })
				x.Spawn("C", func() { srch(x, ix, "C", nil) })
			}, []uint32{1, 2}, vNoErr,
			func(x *vSchedExec, ix *vConcIdx) { srch(x, ix, "main", nil) }))
		// S16: Flush || Flush || Add(3) with a soft-deleted document present: two overlapping
		// compactions do not lose an add that completed
		vScenarios = append(vScenarios, vIdxScenario(k, "S16-flush-flush-add", mk,
			func(ix *vConcIdx) { ix.add(1, 0); ix.add(2, 1); ix.add(4, 3); ix.remove(2) },
			func(x *vSchedExec, ix *vConcIdx) {
				x.Spawn("A", func() { x.Op("A", "Flush", func() ([]uint32, error) { return nil, ix.flush() }) })
				x.Spawn("B", func() { x.Op("B", "Flush", func() ([]uint32, error) { return nil, ix.flush() }) })
				x.Spawn("C", func() {
					x.Op("C", "Remove(4)", func() ([]uint32, error) { return nil, ix.remove(4) })
					x.Op("C", "Add(3)", func() ([]uint32, error) { return nil, ix.add(3, 2) })
				})
			}, []uint32{1, 4}, vNoErr,
			func(x *vSchedExec, ix *vConcIdx) { srch(x, ix, "main", nil) }))
		// S17: update = Remove(1); Add(1, other content) while two searches run: once the
		// re-add has returned the document is visible again (an Add that has to compact or
		// purge first must not give up because readers are active)
		vScenarios = append(vScenarios, vIdxScenario(k, "S17-readd-same-id-searches", mk,
			func(ix *vConcIdx) { ix.add(1, 0); ix.add(2, 1) },
			func(x *vSchedExec, ix *vConcIdx) {
				x.Spawn("A", func() {
					x.Op("A", "Remove(1)", func() ([]uint32, error) { return nil, ix.remove(1) })
					x.Op("A", "Add(1)", func() ([]uint32, error) { return nil, ix.add(1, 2) })
				})
				x.Spawn("B", func() { srch(x, ix, "B", nil) })
				x.Spawn("C", func() { srch(x, ix, "C", nil) })
			}, []uint32{1, 2}, vNoErr,
			func(x *vSchedExec, ix *vConcIdx) { srch(x, ix, "main", nil) }))
		// S15 (kinds for which Add on an existing id replaces the document): two adds of the
		// SAME fresh id race; afterwards the id is removed and flushed and must be gone
		if k == "bm25" || k == "hybrid" {
			vScenarios = append(vScenarios, vIdxScenario(k, "S15-same-id-adds", mk,
				func(ix *vConcIdx) { ix.add(2, 1) },
				func(x *vSchedExec, ix *vConcIdx) {
					x.Spawn("A", func() { x.Op("A", "Add(1)", func() ([]uint32, error) { return nil, ix.add(1, 0) }) })
					x.Spawn("B", func() { x.Op("B", "Add(1)", func() ([]uint32, error) { return nil, ix.add(1, 2) }) })
					x.Spawn("C", func() { srch(x, ix, "C", nil) })
				}, []uint32{2}, vNoErr,
				func(x *vSchedExec, ix *vConcIdx) {
					srch(x, ix, "main", nil)
					x.Op("main", "Remove(1)", func() ([]uint32, error) { return nil, ix.remove(1) })
					x.Op("main", "Flush", func() ([]uint32, error) { return nil, ix.flush() })
					srch(x, ix, "main", nil)
				}))
		}
		// S11: a search with SEVERAL queries || Add || Remove (per-query locking)
		if probe := mk(); probe.search2 != nil {
			vScenarios = append(vScenarios, vIdxScenario(k, "S11-multiquery-add-remove", mk,
				func(ix *vConcIdx) { ix.add(2, 1); ix.add(3, 2) },
				func(x *vSchedExec, ix *vConcIdx) {
					x.Spawn("A", func() { x.Op("A", "Search2", func() ([]uint32, error) { return ix.search2() }) })
					x.Spawn("B", func() { x.Op("B", "Add(1)", func() ([]uint32, error) { return nil, ix.add(1, 0) }) })
					x.Spawn("C", func() { x.Op("C", "Remove(2)", func() ([]uint32, error) { return nil, ix.remove(2) }) })
				}, []uint32{2, 3}, vNoErr,
				func(x *vSchedExec, ix *vConcIdx) { srch(x, ix, "main", nil) }))
		}
		// S5: two restricted searches (pooled filters / heaps) + an add
		if k != "metadata" && k != "hybrid" {
			vScenarios = append(vScenarios, &vScenario{Prop: "C11", Name: k + "/S5-restricted-searches",
				Body: func(x *vSchedExec) {
					ix := mk()
					ix.add(1, 0)
					ix.add(2, 1)
					x.canon = func() string {
						return ix.canon() + fmt.Sprint(len(documentFilterPool.Contents()), len(minHeapPool.Contents()), len(maxHeapPool.Contents()), len(heapPool.Contents()))
					}
					x.Spawn("A", func() { srch(x, ix, "A", []uint32{1}); srch(x, ix, "A", []uint32{1}) })
					x.Spawn("B", func() { srch(x, ix, "B", []uint32{2}) })
					x.Join()
				},
				Judge: func(x *vSchedExec) [][3]string {
					var out [][3]string
					for _, e := range x.events {
						want := "[1]"
						if e.Thread == "B" {
							want = "[2]"
						}
						if e.Err != "" || fmt.Sprint(e.IDs) != want {
							out = append(out, [3]string{"restricted-search-wrong", "", fmt.Sprintf("%s %s returned %v (%s), expected %s", e.Thread, e.Op, e.IDs, e.Err, want)})
						}
					}
					return out
				}})
		}
	}
	// S6: automatically generated ids are unique across goroutines and instances
	vScenarios = append(vScenarios, &vScenario{Prop: "C11", Name: "ids/S6-auto-ids",
		Body: func(x *vSchedExec) {
			mk := func() HybridSearchIndex {
				f, _ := NewFlatIndex(2, Euclidean)
				return NewHybridSearchIndex(f, nil, nil)
			}
			a, b := mk(), mk()
			x.Spawn("A", func() {
				x.Op("A", "AutoAdd", func() ([]uint32, error) { id, err := a.Add([]float32{1, 0}, "", nil); return []uint32{id}, err })
				x.Op("A", "AutoAdd", func() ([]uint32, error) { id, err := a.Add([]float32{1, 0}, "", nil); return []uint32{id}, err })
			})
			x.Spawn("B", func() {
				x.Op("B", "AutoAdd", func() ([]uint32, error) { id, err := b.Add([]float32{0, 1}, "", nil); return []uint32{id}, err })
			})
			x.Spawn("C", func() {
				x.Op("C", "NewVectorNode", func() ([]uint32, error) { return []uint32{NewVectorNode([]float32{1}).ID()}, nil })
				x.Op("C", "NewMetadataNode", func() ([]uint32, error) { return []uint32{NewMetadataNode(nil).ID()}, nil })
			})
			x.Join()
		},
		Judge: func(x *vSchedExec) [][3]string {
			seen := map[uint32]string{}
			var out [][3]string
			for _, e := range x.events {
				if e.Err != "" {
					out = append(out, [3]string{"spurious-failure", e.Op, e.Err})
					continue
				}
				if o, dup := seen[e.IDs[0]]; dup || e.IDs[0] == 0 {
					out = append(out, [3]string{"auto-id-not-unique", "", fmt.Sprintf("id %d returned by %s and %s", e.IDs[0], o, e.Thread+":"+e.Op)})
				}
				seen[e.IDs[0]] = e.Thread + ":" + e.Op
			}
			return out
		}})
	// S12: as S6, with adds that are REFUSED (wrong dimension, after the id was drawn) on one
	// instance while other instances draw ids: whatever a refused add does with the id it
	// drew, every id handed out stays unique
	vScenarios = append(vScenarios, &vScenario{Prop: "C11", Name: "ids/S12-auto-ids-refused-adds",
		Body: func(x *vSchedExec) {
			mk := func() HybridSearchIndex {
				f, _ := NewFlatIndex(2, Euclidean)
				return NewHybridSearchIndex(f, NewBM25SearchIndex(), NewRoaringMetadataIndex())
			}
			a, b := mk(), mk()
			x.Spawn("A", func() {
				x.Op("A", "RefusedAdd", func() ([]uint32, error) {
					id, err := a.Add([]float32{1, 0, 0}, "t", nil)
					return []uint32{id}, err
				})
				x.Op("A", "AutoAdd", func() ([]uint32, error) { id, err := a.Add([]float32{1, 0}, "t", nil); return []uint32{id}, err })
			})
			x.Spawn("B", func() {
				x.Op("B", "AutoAdd", func() ([]uint32, error) { id, err := b.Add([]float32{0, 1}, "u", nil); return []uint32{id}, err })
				x.Op("B", "AutoAdd", func() ([]uint32, error) { id, err := b.Add([]float32{0, 1}, "u", nil); return []uint32{id}, err })
			})
			x.Spawn("C", func() {
				x.Op("C", "RefusedAdd", func() ([]uint32, error) {
					id, err := b.Add([]float32{1, 0}, "v", map[string]interface{}{"bad": []int{1}})
					return []uint32{id}, err
				})
				x.Op("C", "NewVectorNode", func() ([]uint32, error) { return []uint32{NewVectorNode([]float32{1}).ID()}, nil })
			})
			x.Join()
		},
		Judge: func(x *vSchedExec) [][3]string {
			seen := map[uint32]string{}
			var out [][3]string
			for _, e := range x.events {
				if e.Op == "RefusedAdd" {
					if e.Err == "" {
						out = append(out, [3]string{"invalid-add-accepted", e.Op, fmt.Sprint(e.IDs)})
					}
					continue
				}
				if e.Err != "" {
					out = append(out, [3]string{"spurious-failure", e.Op, e.Err})
					continue
				}
				if o, dup := seen[e.IDs[0]]; dup || e.IDs[0] == 0 {
					out = append(out, [3]string{"auto-id-not-unique", "", fmt.Sprintf("id %d returned by %s and %s", e.IDs[0], o, e.Thread+":"+e.Op)})
				}
				seen[e.IDs[0]] = e.Thread + ":" + e.Op
			}
			return out
		}})
	// S18: as S6, on an instance that already holds EXPLICIT ids just above the generator's
	// position (imported records): whatever Add does when the id it drew is taken, every
	// automatically generated id stays unique across goroutines, instances and node constructors
	vScenarios = append(vScenarios, &vScenario{Prop: "C11", Name: "ids/S18-auto-ids-next-to-explicit-ids",
		Body: func(x *vSchedExec) {
			mk := func() HybridSearchIndex {
				f, _ := NewFlatIndex(2, Euclidean)
				return NewHybridSearchIndex(f, nil, nil)
			}
			a, b := mk(), mk()
			next := NewVectorNode([]float32{1}).ID() // the generator's position
			for i := uint32(1); i <= 3; i++ {
				if err := a.AddWithID(next+i, []float32{1, float32(i)}, "", nil); err != nil {
					panic(err)
				}
			}
			x.Spawn("A", func() {
				x.Op("A", "AutoAdd", func() ([]uint32, error) { id, err := a.Add([]float32{1, 0}, "", nil); return []uint32{id}, err })
				x.Op("A", "AutoAdd", func() ([]uint32, error) { id, err := a.Add([]float32{1, 0}, "", nil); return []uint32{id}, err })
			})
			x.Spawn("B", func() {
				x.Op("B", "AutoAdd", func() ([]uint32, error) { id, err := b.Add([]float32{0, 1}, "", nil); return []uint32{id}, err })
				x.Op("B", "AutoAdd", func() ([]uint32, error) { id, err := b.Add([]float32{0, 1}, "", nil); return []uint32{id}, err })
			})
			x.Spawn("C", func() {
				x.Op("C", "NewVectorNode", func() ([]uint32, error) { return []uint32{NewVectorNode([]float32{1}).ID()}, nil })
				x.Op("C", "NewVectorNode", func() ([]uint32, error) { return []uint32{NewVectorNode([]float32{1}).ID()}, nil })
			})
			x.Join()
		},
		Judge: func(x *vSchedExec) [][3]string {
			seen := map[uint32]string{}
			var out [][3]string
			for _, e := range x.events {
				if e.Err != "" {
					out = append(out, [3]string{"spurious-failure", e.Op, e.Err})
					continue
				}
				if o, dup := seen[e.IDs[0]]; dup || e.IDs[0] == 0 {
					out = append(out, [3]string{"auto-id-not-unique", "explicit-ids-next-to-the-generator", fmt.Sprintf("id %d returned by %s and %s", e.IDs[0], o, e.Thread+":"+e.Op)})
				}
				seen[e.IDs[0]] = e.Thread + ":" + e.Op
			}
			return out
		}})
	// S19: the metric objects returned by NewDistance are shared singletons, documented as
	// safe for concurrent use: three goroutines preprocess different vectors with the cosine
	// metric at the same time (twice each; the first calls of a process included); every
	// result is the unit vector along ITS argument and stays that after the others are done
	for _, prop := range []string{"C11", "C18"} {
		vScenarios = append(vScenarios, &vScenario{Prop: prop, Name: "metric/S19-concurrent-cosine-preprocess",
			Body: func(x *vSchedExec) {
				dist, _ := NewDistance(Cosine)
				ins := [][]float32{{3, 4}, {0, -2}, {5, 12, 0}, {1, 0}, {-8, 6}, {0, 0, 7}}
				outs := make([][]float32, len(ins))
				for t := 0; t < 3; t++ {
					t := t
					name := string(rune('A' + t))
					x.Spawn(name, func() {
						for j := 0; j < 2; j++ {
							i := 2*t + j
							x.Op(name, fmt.Sprintf("Preprocess(%d)", i), func() ([]uint32, error) {
								o, err := dist.Preprocess(vCopyVec(ins[i]))
								outs[i] = o
								return nil, err
							})
						}
					})
				}
				x.Join()
				x.Op("main", "Inspect", func() ([]uint32, error) {
					var bad []uint32
					for i, o := range outs {
						n := vNorm64(ins[i])
						ok := len(o) == len(ins[i])
						for j := range o {
							if ok && math.Abs(float64(o[j])-float64(ins[i][j])/n) > 1e-6 {
								ok = false
							}
						}
						if !ok {
							bad = append(bad, uint32(i+1))
						}
					}
					return bad, nil
				})
			},
			Judge: func(x *vSchedExec) [][3]string {
				var out [][3]string
				for _, e := range x.events {
					if e.Err != "" {
						out = append(out, [3]string{"spurious-failure", e.Op, e.Err})
					}
					if e.Op == "Inspect" && len(e.IDs) > 0 {
						out = append(out, [3]string{"preprocessed-vector-overwritten-by-a-concurrent-call", "", fmt.Sprintf("results %v (1-based) are not the unit vectors of their arguments after three goroutines preprocessed concurrently", e.IDs)})
					}
				}
				return out
			}})
	}
	vInitStoreScenarios()
}

// ---------------------------------------------------------------------------
// store scenarios (C11 T1-T5, C08 schedules, C17 schedules)

type vStoreScn struct {
	x            *vSchedExec
	st           *PersistentHybridIndex
	decodesAtAdd map[uint32]int
}

func vStoreOpen(x *vSchedExec, cfg vStoreCfg) (*PersistentHybridIndex, error) {
	return vStoreOpenCfg(x, cfg.config())
}

func vStoreOpenCfg(x *vSchedExec, sc *StorageConfig) (*PersistentHybridIndex, error) {
	from := 0
	if !x.free {
		from = vrtNumThreads()
	}
	st, err := OpenPersistentHybridIndex(sc)
	if !x.free {
		vrtMarkDaemons(from)
		if err == nil {
			prev := x.canon
			x.canon = func() string {
				s := vCanonStoreLight(st, x.fs)
				if prev != nil {
					s += prev()
				}
				return s
			}
		} else if x.canon == nil {
			x.canon = func() string { return x.fs.LogHash() }
		}
	}
	return st, err
}

func vStoreAdd(x *vSchedExec, st *PersistentHybridIndex, th string, id uint32, doc int) {
	d := vStoreDocs[doc%3]
	x.Op(th, fmt.Sprintf("Add(%d)", id), func() ([]uint32, error) {
		return nil, st.AddWithID(id, vCopyVec(d.Vec), d.Text, vCloneMeta(d.Meta))
	})
}

func vStoreSearchOp(x *vSchedExec, st *PersistentHybridIndex, th string) {
	x.Op(th, "Search", func() ([]uint32, error) {
		m, err := vStoreSearch(st, 0)
		return vIDSet(m), err
	})
}

// vStoreJudge: visibility + a witness tag for the known shared-template defect: a
// missed document is attributed to it when a segment was decoded (into the shared
// template objects) after the document was added.
func vStoreJudge(x *vSchedExec, pre []uint32, allowed func(vEvent) bool) [][3]string {
	out := vJudgeVisibility(x.events, pre, allowed)
	dec := vSegmentDecodes(x.fs)
	for i := range out {
		if out[i][0] == "search-missed-completed-add" && dec > 0 {
			out[i][1] = "segment-decoded-into-shared-templates"
		}
	}
	return out
}

// vJudgeAcks reopens every acknowledgement image (sequentially, fresh templates) and looks
// for the documents that the acknowledged call had promised.
func vJudgeAcks(x *vSchedExec) [][3]string {
	var out [][3]string
	for _, a := range x.acks {
		img := a.img
		img.RemoveRaw(vLock())
		env := vStoreBegin(nil, img)
		st, err := env.open(vStoreCfg{Mem: 2, Thr: 1, Comp: 5, Tmpl: "vtm", Vec: "flat"}.config())
		if err != nil || env.dead != "" {
			out = append(out, [3]string{"reopen-failed-on-acknowledged-image", "", fmt.Sprint(err, env.dead)})
			env.end()
			continue
		}
		for _, q := range vStoreQueries("vtm") {
			var got map[uint32]float64
			var serr error
			env.do(func() { got, serr = vStoreSearch(st, q) })
			if env.dead != "" || serr != nil {
				out = append(out, [3]string{"search-failed-on-acknowledged-image", "", fmt.Sprint(serr, env.dead)})
				break
			}
			for i, id := range a.durable {
				if !vStoreMatches(vStoreDocs[a.docs[i]], q, "vtm") {
					continue
				}
				if _, ok := got[id]; !ok {
					out = append(out, [3]string{"acknowledged-doc-lost-if-the-process-dies-now", "", fmt.Sprintf("%s returned nil; a copy of the directory taken at that instant, reopened with fresh templates, answers probe %d with %v: document %d is missing", a.what, q, vIDSet(got), id)})
				}
			}
		}
		env.do(func() { st.Close() })
		env.end()
	}
	return out
}

func vClosedMayFail(e vEvent) bool { return strings.Contains(e.Err, "closed") }

func vInitStoreScenarios() {
	both := func(sc *vScenario, props ...string) {
		for _, p := range props {
			c := *sc
			c.Prop = p
			vScenarios = append(vScenarios, &c)
		}
	}
	// T1: Add a || [Add b; Add c] with a one-document memtable
	both(&vScenario{Name: "store/T1-add-add-rotation",
		Body: func(x *vSchedExec) {
			st, err := vStoreOpen(x, vStoreCfg{Mem: 0, Thr: 1, Comp: 5, Tmpl: "vtm", Vec: "flat"})
			if err != nil {
				panic(err)
			}
			x.Spawn("A", func() { vStoreAdd(x, st, "A", 1, 0) })
			x.Spawn("B", func() { vStoreAdd(x, st, "B", 2, 1); vStoreAdd(x, st, "B", 3, 2) })
			x.Join()
			vStoreSearchOp(x, st, "main")
			if x.free {
				st.Close()
			}
		},
		Judge: func(x *vSchedExec) [][3]string {
			out := vStoreJudge(x, nil, vNoErr)
			for i := range out {
				if out[i][0] == "spurious-failure" && strings.Contains(out[i][2], "memtable is frozen") {
					out[i][1] = "Add:memtable-frozen-between-choice-and-write"
				}
			}
			return out
		}}, "C11")
	// T2: Add || background flush || Search  (flush threshold 1 byte: every add signals the worker)
	both(&vScenario{Name: "store/T2-add-bgflush-search",
		Body: func(x *vSchedExec) {
			st, err := vStoreOpen(x, vStoreCfg{Mem: 0, Thr: 0, Comp: 5, Tmpl: "vtm", Vec: "flat"})
			if err != nil {
				panic(err)
			}
			vStoreAdd(x, st, "main", 1, 0) // fills the first memtable and signals the flush worker
			x.Spawn("A", func() { vStoreAdd(x, st, "A", 2, 1) })
			x.Spawn("C", func() { vStoreSearchOp(x, st, "C") })
			x.Join()
			vStoreSearchOp(x, st, "main")
			if x.free {
				st.Close()
			}
		},
		Judge: func(x *vSchedExec) [][3]string { return vStoreJudge(x, nil, vNoErr) }}, "C11", "C08")
	// T3: Search || compaction || Evict, two segments on disk
	both(&vScenario{Name: "store/T3-search-compaction-evict",
		Body: func(x *vSchedExec) {
			st, err := vStoreOpen(x, vStoreCfg{Mem: 2, Thr: 1, Comp: 2, Tmpl: "vtm", Vec: "flat"})
			if err != nil {
				panic(err)
			}
			vStoreAdd(x, st, "main", 1, 0)
			st.memtableQueue.Rotate()
			st.Flush()
			vStoreAdd(x, st, "main", 2, 1)
			st.memtableQueue.Rotate()
			st.Flush()
			x.Spawn("A", func() { vStoreSearchOp(x, st, "A") })
			x.Spawn("B", func() {
				x.Op("B", "TriggerCompaction", func() ([]uint32, error) { st.TriggerCompaction(); return nil, nil })
			})
			x.Spawn("C", func() {
				x.Op("C", "Evict", func() ([]uint32, error) { st.segmentManager.EvictAllCaches(); return nil, nil })
			})
			x.Join()
			vStoreSearchOp(x, st, "main")
			if x.free {
				st.Close()
			}
		},
		Judge: func(x *vSchedExec) [][3]string { return vStoreJudge(x, nil, vNoErr) }}, "C11", "C08")
	// T4: Add || Close
	both(&vScenario{Name: "store/T4-add-close",
		Body: func(x *vSchedExec) {
			st, err := vStoreOpen(x, vStoreCfg{Mem: 0, Thr: 0, Comp: 5, Tmpl: "vtm", Vec: "flat"})
			if err != nil {
				panic(err)
			}
			vStoreAdd(x, st, "main", 1, 0)
			x.Spawn("A", func() { vStoreAdd(x, st, "A", 2, 1); vStoreAdd(x, st, "A", 3, 2) })
			x.Spawn("B", func() { x.Op("B", "Close", func() ([]uint32, error) { return nil, st.Close() }) })
			x.Join()
		},
		Judge: func(x *vSchedExec) [][3]string {
			out := vStoreJudge(x, nil, vClosedMayFail)
			if x.fs.Exists(vLock()) {
				out = append(out, [3]string{"lock-left-after-close", "", "LOCK present after Close returned"})
			}
			return out
		}}, "C11", "C17")
	// T5: explicit Flush || background flush of the same frozen memtable || Search
	both(&vScenario{Name: "store/T5-flush-bgflush",
		Body: func(x *vSchedExec) {
			st, err := vStoreOpen(x, vStoreCfg{Mem: 0, Thr: 0, Comp: 5, Tmpl: "vtm", Vec: "flat"})
			if err != nil {
				panic(err)
			}
			vStoreAdd(x, st, "main", 1, 0)
			vStoreAdd(x, st, "main", 2, 1) // rotates: memtable with doc 1 is frozen, worker signalled
			x.Spawn("A", func() { x.Op("A", "Flush", func() ([]uint32, error) { return nil, st.Flush() }) })
			x.Spawn("C", func() { vStoreSearchOp(x, st, "C") })
			x.Join()
			vStoreSearchOp(x, st, "main")
			if x.free {
				st.Close()
			}
		},
		Judge: func(x *vSchedExec) [][3]string { return vStoreJudge(x, nil, vNoErr) }}, "C11", "C08")
	// T8: an id whose document sits in a segment is (tried to be) removed and then added
	// again while a compaction of the segments runs. Both segments were loaded (cached) by a
	// search beforehand, so the compaction decodes nothing while the add runs. After the
	// threads and the background work are done, the store's loaded index objects are probed
	// for the re-added id BEFORE the final search (whose own decode of the merged segment is
	// the known shared-template mechanism): an acknowledged re-add that is already gone at
	// that point, without any segment having been decoded since it was called, and that the
	// search then misses, was lost by something else.
	both(&vScenario{Name: "store/T8-readd-compaction",
		Body: func(x *vSchedExec) {
			st, err := vStoreOpen(x, vStoreCfg{Mem: 2, Thr: 1, Comp: 2, Tmpl: "vtm", Vec: "flat"})
			if err != nil {
				panic(err)
			}
			vStoreAdd(x, st, "main", 1, 0)
			st.memtableQueue.Rotate()
			st.Flush()
			vStoreAdd(x, st, "main", 2, 1)
			st.memtableQueue.Rotate()
			st.Flush()
			vStoreSearchOp(x, st, "main") // loads both segments
			x.Op("main", "RemoveFlushed", func() ([]uint32, error) { st.Remove(1); return nil, nil })
			dec0 := vSegmentDecodes(x.fs)
			x.Spawn("A", func() { vStoreAdd(x, st, "A", 1, 2) })
			x.Spawn("B", func() {
				x.Op("B", "TriggerCompaction", func() ([]uint32, error) { st.TriggerCompaction(); return nil, nil })
			})
			x.Join()
			if !x.free {
				vrt.Quiesce()
			}
			x.Op("main", "Probe", func() ([]uint32, error) {
				var held []uint32
				if vTemplatesHold(st, 1, 0) {
					held = append(held, 1)
				}
				if vSegmentDecodes(x.fs) > dec0 {
					held = append(held, 999) // marker: a segment was decoded since the add was called
				}
				return held, nil
			})
			vStoreSearchOp(x, st, "main")
			if x.free {
				st.Close()
			}
		},
		Judge: func(x *vSchedExec) [][3]string {
			var out [][3]string
			addOK, held, decoded, probed := false, false, false, false
			var last []uint32
			for _, e := range x.events {
				switch {
				case e.Thread == "A" && strings.HasPrefix(e.Op, "Add("):
					addOK = e.Err == ""
					if e.Err != "" {
						out = append(out, [3]string{"spurious-failure", "Add", e.Err})
					}
				case e.Op == "Probe":
					probed = true
					for _, id := range e.IDs {
						if id == 1 {
							held = true
						}
						if id == 999 {
							decoded = true
						}
					}
				case e.Op == "Search":
					if e.Err != "" {
						out = append(out, [3]string{"spurious-failure", "Search", e.Err})
					}
					last = e.IDs
				}
			}
			found := false
			for _, id := range last {
				if id == 1 {
					found = true
				}
			}
			if addOK && probed && !found {
				cause := "segment-decoded-into-shared-templates"
				if !held && !decoded {
					cause = "re-added-document-gone-although-no-segment-was-decoded-since-the-add"
				}
				out = append(out, [3]string{"search-missed-completed-add", cause, fmt.Sprintf("AddWithID(1) returned nil while a compaction ran; afterwards the loaded index objects hold id 1: %v, a segment was decoded since the add was called: %v; the final search returned %v", held, decoded, last)})
			}
			return out
		}}, "C08")
	// D1 / D2 (C09): the acknowledgement of Flush / Close under a concurrently running
	// background flush. At the instant the call returns nil the directory is copied (the
	// process could die right there); after the execution a store is opened on the copy
	// with fresh templates and must find every document added before the call. One
	// memtable, hence one segment (several segments would run into the shared-template
	// finding). FlushThreshold = 1 byte: every add wakes the background flush worker.
	for variant := 0; variant < 3; variant++ {
		closing := variant == 1
		// D3: as D1, while the compaction worker makes one of its periodic checks (there is
		// nothing to compact: the check itself must not disturb the flush)
		withCheck := variant == 2
		name := "store/D1-flush-ack-durable"
		if closing {
			name = "store/D2-close-ack-durable"
		}
		if withCheck {
			name = "store/D3-flush-ack-durable-during-compaction-check"
		}
		both(&vScenario{Name: name,
			Body: func(x *vSchedExec) {
				st, err := vStoreOpen(x, vStoreCfg{Mem: 2, Thr: 0, Comp: 5, Tmpl: "vtm", Vec: "flat"})
				if err != nil {
					panic(err)
				}
				vStoreAdd(x, st, "main", 1, 0) // wakes the worker (nothing frozen yet: it finds nothing to do)
				vStoreAdd(x, st, "main", 2, 1)
				x.Spawn("A", func() {
					x.Op("A", map[bool]string{false: "Flush", true: "Close"}[closing], func() ([]uint32, error) {
						var err error
						if closing {
							err = st.Close()
						} else {
							err = st.Flush()
						}
						if err == nil && !x.free {
							x.acks = append(x.acks, vAckImage{what: name, img: x.fs.Snapshot(), durable: []uint32{1, 2}, docs: []int{0, 1}})
						}
						return nil, err
					})
				})
				if withCheck {
					x.Spawn("B", func() {
						x.Op("B", "TriggerCompaction", func() ([]uint32, error) { st.TriggerCompaction(); return nil, nil })
					})
				}
				x.Join()
				if x.free && !closing {
					st.Close()
				}
			},
			Judge: func(x *vSchedExec) [][3]string {
				out := vStoreJudge(x, nil, vNoErr)
				return append(out, vJudgeAcks(x)...)
			}}, map[bool][]string{false: {"C09"}, true: {"C09", "C10"}}[withCheck]...)
	}
	// T6: explicit Flush || Add, then Search
	both(&vScenario{Name: "store/T6-flush-add",
		Body: func(x *vSchedExec) {
			st, err := vStoreOpen(x, vStoreCfg{Mem: 1, Thr: 1, Comp: 5, Tmpl: "v", Vec: "flat"})
			if err != nil {
				panic(err)
			}
			vStoreAdd(x, st, "main", 1, 0)
			x.Spawn("A", func() { x.Op("A", "Flush", func() ([]uint32, error) { return nil, st.Flush() }) })
			x.Spawn("B", func() { vStoreAdd(x, st, "B", 2, 1); vStoreAdd(x, st, "B", 3, 2) })
			x.Join()
			vStoreSearchOp(x, st, "main")
			if x.free {
				st.Close()
			}
		},
		Judge: func(x *vSchedExec) [][3]string { return vStoreJudge(x, nil, vNoErr) }}, "C11", "C08")
	// T7: Search || Close
	both(&vScenario{Name: "store/T7-search-close",
		Body: func(x *vSchedExec) {
			st, err := vStoreOpen(x, vStoreCfg{Mem: 0, Thr: 1, Comp: 5, Tmpl: "v", Vec: "flat"})
			if err != nil {
				panic(err)
			}
			vStoreAdd(x, st, "main", 1, 0)
			vStoreAdd(x, st, "main", 2, 1)
			st.Flush()
			x.Spawn("A", func() { vStoreSearchOp(x, st, "A") })
			x.Spawn("B", func() { x.Op("B", "Close", func() ([]uint32, error) { return nil, st.Close() }) })
			x.Join()
		},
		Judge: func(x *vSchedExec) [][3]string {
			out := vStoreJudge(x, nil, vClosedMayFail)
			if x.fs.Exists(vLock()) {
				out = append(out, [3]string{"lock-left-after-close", "", "LOCK present after Close returned"})
			}
			return out
		}}, "C11", "C17")
	// W1 (C08): [Add; Evict; Search] || background flush, one segment already on disk
	both(&vScenario{Name: "store/W1-add-evict-search-bgflush",
		Body: func(x *vSchedExec) {
			st, err := vStoreOpen(x, vStoreCfg{Mem: 0, Thr: 0, Comp: 5, Tmpl: "vtm", Vec: "flat"})
			if err != nil {
				panic(err)
			}
			vStoreAdd(x, st, "main", 1, 0)
			x.Spawn("A", func() {
				vStoreAdd(x, st, "A", 2, 1)
				x.Op("A", "Evict", func() ([]uint32, error) { st.segmentManager.EvictAllCaches(); return nil, nil })
				vStoreSearchOp(x, st, "A")
			})
			x.Join()
			if x.free {
				st.Close()
			}
		},
		Judge: func(x *vSchedExec) [][3]string { return vStoreJudge(x, nil, vNoErr) }}, "C08")

	// ---- C17: ownership races
	openOp := func(x *vSchedExec, th string, slot *[3]*PersistentHybridIndex, i int) {
		x.Op(th, "Open", func() ([]uint32, error) {
			st, err := vStoreOpen(x, vStoreCfg{Mem: 2, Thr: 1, Comp: 5, Tmpl: "v", Vec: "flat"})
			slot[i] = st
			return nil, err
		})
	}
	vScenarios = append(vScenarios, &vScenario{Prop: "C17", Name: "own/O1-open-open-open",
		Body: func(x *vSchedExec) {
			var h [3]*PersistentHybridIndex
			x.Spawn("A", func() { openOp(x, "A", &h, 0) })
			x.Spawn("B", func() { openOp(x, "B", &h, 1) })
			x.Spawn("C", func() { openOp(x, "C", &h, 2) })
			x.Join()
			lockBefore := x.fs.Exists(vLock())
			n := 0
			for _, st := range h {
				if st != nil {
					n++
					x.Op("main", "CloseWinner", func() ([]uint32, error) { return nil, st.Close() })
				}
			}
			x.notes = append(x.notes, fmt.Sprintf("winners=%d lockBefore=%v lockAfter=%v", n, lockBefore, x.fs.Exists(vLock())))
		},
		Judge: func(x *vSchedExec) [][3]string {
			var out [][3]string
			ok := 0
			for _, e := range x.events {
				if e.Op == "Open" && e.Err == "" {
					ok++
				}
				if e.Op == "CloseWinner" && e.Err != "" {
					out = append(out, [3]string{"close-failed", "", e.Err})
				}
			}
			if ok != 1 {
				out = append(out, [3]string{"concurrent-open-winners", fmt.Sprintf("winners=%d", ok), fmt.Sprintf("%d of 3 concurrent opens succeeded; %v", ok, x.notes)})
			}
			if len(x.notes) > 0 && !strings.Contains(x.notes[0], "lockBefore=true lockAfter=false") {
				out = append(out, [3]string{"lock-file-vs-owner", "", x.notes[0]})
			}
			return out
		}})
	vScenarios = append(vScenarios, &vScenario{Prop: "C17", Name: "own/O2-close-open",
		Body: func(x *vSchedExec) {
			var h [3]*PersistentHybridIndex
			st, err := vStoreOpen(x, vStoreCfg{Mem: 2, Thr: 1, Comp: 5, Tmpl: "v", Vec: "flat"})
			if err != nil {
				panic(err)
			}
			x.Spawn("A", func() { x.Op("A", "Close", func() ([]uint32, error) { return nil, st.Close() }) })
			x.Spawn("B", func() { openOp(x, "B", &h, 1) })
			x.Join()
			x.notes = append(x.notes, fmt.Sprintf("second=%v lock=%v", h[1] != nil, x.fs.Exists(vLock())))
			if h[1] != nil && x.free {
				h[1].Close()
			}
		},
		Judge: func(x *vSchedExec) [][3]string {
			var out [][3]string
			for _, e := range x.events {
				if e.Op == "Close" && e.Err != "" {
					out = append(out, [3]string{"close-failed", "", e.Err})
				}
			}
			if n := x.notes[0]; n != "second=true lock=true" && n != "second=false lock=false" {
				out = append(out, [3]string{"lock-file-vs-owner", n, "after Close || Open: " + n})
			}
			return out
		}})
	vScenarios = append(vScenarios, &vScenario{Prop: "C17", Name: "own/O5-close-with-data-open",
		Body: func(x *vSchedExec) {
			var h [3]*PersistentHybridIndex
			st, err := vStoreOpen(x, vStoreCfg{Mem: 2, Thr: 1, Comp: 5, Tmpl: "v", Vec: "flat"})
			if err != nil {
				panic(err)
			}
			vStoreAdd(x, st, "main", 1, 0) // unflushed: Close has a final flush to do
			x.Spawn("A", func() { x.Op("A", "Close", func() ([]uint32, error) { return nil, st.Close() }) })
			x.Spawn("B", func() { openOp(x, "B", &h, 1) })
			x.Join()
			x.notes = append(x.notes, fmt.Sprintf("second=%v lock=%v", h[1] != nil, x.fs.Exists(vLock())))
			x.notes = append(x.notes, vLockReleasedEarly(x.fs.Log))
			if h[1] != nil && x.free {
				h[1].Close()
			}
		},
		Judge: func(x *vSchedExec) [][3]string {
			var out [][3]string
			if n := x.notes[0]; n != "second=true lock=true" && n != "second=false lock=false" {
				out = append(out, [3]string{"lock-file-vs-owner", n, "after Close || Open: " + n})
			}
			if x.notes[1] != "" {
				out = append(out, [3]string{"lock-released-before-close-finished", "", x.notes[1]})
			}
			return out
		}})
	// O6 (C09): as O5, and a successor that got the directory goes on to add and flush. The
	// segment files acknowledged by the predecessor's Close are never created a second time
	// (an Open that waited for the lock must not work with what it saw before it waited).
	vScenarios = append(vScenarios, &vScenario{Prop: "C09", Name: "store/O6-close-open-flush",
		Body: func(x *vSchedExec) {
			var h [3]*PersistentHybridIndex
			st, err := vStoreOpen(x, vStoreCfg{Mem: 2, Thr: 1, Comp: 5, Tmpl: "v", Vec: "flat"})
			if err != nil {
				panic(err)
			}
			vStoreAdd(x, st, "main", 1, 0)
			x.Spawn("A", func() { x.Op("A", "Close", func() ([]uint32, error) { return nil, st.Close() }) })
			x.Spawn("B", func() { openOp(x, "B", &h, 1) })
			x.Join()
			if h[1] != nil {
				x.Op("main", "Add(2)", func() ([]uint32, error) {
					d := vStoreDocs[1]
					return nil, h[1].AddWithID(2, vCopyVec(d.Vec), d.Text, vCloneMeta(d.Meta))
				})
				x.Op("main", "Flush", func() ([]uint32, error) { return nil, h[1].Flush() })
				if x.free {
					h[1].Close()
				}
			}
			created := map[string]int{}
			for _, op := range x.fs.Log {
				if op.Kind == "create" && vSegRe.MatchString(op.Path) {
					created[op.Path]++
				}
			}
			for p, n := range created {
				if n > 1 {
					x.notes = append(x.notes, fmt.Sprintf("%s was created %d times", p, n))
				}
			}
		},
		Judge: func(x *vSchedExec) [][3]string {
			var out [][3]string
			for _, n := range x.notes {
				out = append(out, [3]string{"segment-identifier-reused", "successor-of-a-closing-store", n})
			}
			return out
		}})
	vScenarios = append(vScenarios, &vScenario{Prop: "C17", Name: "own/O3-close-close",
		Body: func(x *vSchedExec) {
			st, err := vStoreOpen(x, vStoreCfg{Mem: 2, Thr: 1, Comp: 5, Tmpl: "v", Vec: "flat"})
			if err != nil {
				panic(err)
			}
			x.Spawn("A", func() { x.Op("A", "Close", func() ([]uint32, error) { return nil, st.Close() }) })
			x.Spawn("B", func() { x.Op("B", "Close", func() ([]uint32, error) { return nil, st.Close() }) })
			x.Join()
			x.notes = append(x.notes, fmt.Sprintf("lock=%v", x.fs.Exists(vLock())))
		},
		Judge: func(x *vSchedExec) [][3]string {
			var out [][3]string
			ok := 0
			for _, e := range x.events {
				if e.Err == "" {
					ok++
				}
			}
			if ok != 1 {
				out = append(out, [3]string{"concurrent-close-winners", fmt.Sprintf("winners=%d", ok), "exactly one of two concurrent Close calls must return nil"})
			}
			if x.notes[0] != "lock=false" {
				out = append(out, [3]string{"lock-left-after-close", "", x.notes[0]})
			}
			return out
		}})
	vScenarios = append(vScenarios, &vScenario{Prop: "C17", Name: "own/O4-close-use",
		Body: func(x *vSchedExec) {
			st, err := vStoreOpen(x, vStoreCfg{Mem: 0, Thr: 1, Comp: 5, Tmpl: "v", Vec: "flat"})
			if err != nil {
				panic(err)
			}
			vStoreAdd(x, st, "main", 1, 0)
			vStoreAdd(x, st, "main", 2, 1) // a frozen memtable exists
			x.Spawn("A", func() { x.Op("A", "Close", func() ([]uint32, error) { return nil, st.Close() }) })
			x.Spawn("B", func() {
				x.Op("B", "Flush", func() ([]uint32, error) { return nil, st.Flush() })
				vStoreSearchOp(x, st, "B")
			})
			x.Join()
			x.notes = append(x.notes, fmt.Sprintf("lock=%v", x.fs.Exists(vLock())))
		},
		Judge: func(x *vSchedExec) [][3]string {
			var out [][3]string
			for _, e := range x.events {
				if e.Err != "" && !strings.Contains(e.Err, "closed") {
					out = append(out, [3]string{"spurious-failure", e.Op, fmt.Sprintf("%s %s: %s", e.Thread, e.Op, e.Err)})
				}
			}
			if x.notes[0] != "lock=false" {
				out = append(out, [3]string{"lock-left-after-close", "", x.notes[0]})
			}
			return out
		}})
}

func init() {
	vRegister(&vCheck{
		ID: "C11", Level: "model_checking", Engine: "schedmc",
		Rule:        "Stateless exploration (DFS over choice prefixes, iterative preemption bounding 0,1,2[,3]; select choice, HNSW level and ticks as bounded environment deviations) of 3-thread scenarios on ONE shared instance per kind (flat, hnsw, ivf, pq, ivfpq, bm25, metadata, hybrid): S1 Add||Search||Remove, S2 Remove||Remove||Search, S3 Add||Flush||Search with a soft-deleted document, S4 WriteTo||Add||Remove, S5 restricted searches sharing pooled filters/heaps, S6 auto-id generation across instances; store: T1 Add||[Add;Add] with a one-document memtable, T2 Add||background flush||Search, T3 Search||compaction||Evict, T4 Add||Close, T5 Flush||background flush||Search. Oracle on EVERY complete interleaving: no panic, no deadlock, no spurious failure (only errors a sequential order could produce), visibility (a search returns every document whose add returned before it was called and whose removal had not been called before it returned; none whose removal returned before it was called or that was never added), auto ids distinct. Every 64th execution is replayed from its choice list and must reproduce trace and outcome. Data races: the same scenario bodies run free under the Go race detector (separate pass, reported in evidence). Non-trivial = distinct executions with at least one preemption or environment deviation. Further scenarios (see DESIGN A.2): S12-S18 (refused adds, Remove||Flush||Search, same-id adds, Flush||Flush||[Remove;Add], re-add while searching, auto ids next to explicit ids), T8 (re-add of a flushed id || compaction), D3 (Flush acknowledged while a compaction check runs), S19 (concurrent cosine preprocessing), D1/D2/O6.",
		Assumptions: []string{"scheduling points at lock acquisition, atomics, channel operations, WaitGroup.Wait, pool Get, file-system calls; atomics sequentially consistent", "2-3 threads x 1-2 operations, preemption bound 2 (quick) / 3 (thorough)", "the data-race clause is decided by the free-running race-detector pass over the same bodies, not by enumeration"},
		Shards: func(tier string) []vShard {
			sh := vSchedShards("C11", tier)
			sh = append(sh, vRaceShard(tier))
			return sh
		},
		Replay: func(c *vCtx, v *vViolation) bool { return vSchedReplay(c, v) },
	})
}
