//go:build verif

package comet

// C13 — IVF is exact at full probe; fewer probes search the nearest clusters exactly;
// every vector is stored in exactly one, nearest, cluster; untrained use is an error.

import (
	"fmt"
	"sort"
	"strings"
)

func vC13TrainAlphabet(d int) [][]float32 {
	if d == 1 {
		return [][]float32{{0}, {1}, {2}, {5}, {-3}}
	}
	return [][]float32{{0, 0}, {1, 0}, {0, 1}, {1, 1}, {4, 4}}
}

// all sequences of length lo..hi over n symbols
func vSequences(n, lo, hi int) [][]int {
	var out [][]int
	var rec func(cur []int, l int)
	rec = func(cur []int, l int) {
		if len(cur) == l {
			out = append(out, append([]int(nil), cur...))
			return
		}
		for i := 0; i < n; i++ {
			rec(append(cur, i), l)
		}
	}
	for l := lo; l <= hi; l++ {
		rec(nil, l)
	}
	return out
}

// vIvfProbeSets enumerates every valid "p nearest centroids" set (ties admit any).
func vIvfProbeSets(cd []float32, p int) [][]int {
	n := len(cd)
	order := make([]int, n)
	for i := range order {
		order[i] = i
	}
	sort.Slice(order, func(i, j int) bool { return cd[order[i]] < cd[order[j]] })
	t := cd[order[p-1]]
	var must, opt []int
	for _, i := range order {
		if cd[i] < t {
			must = append(must, i)
		} else if cd[i] == t {
			opt = append(opt, i)
		}
	}
	need := p - len(must)
	// many tied centroids (degenerate training sets with many clusters): the number of
	// valid probe sets is binomial; beyond 200 the query is not judged (counted by the caller)
	comb := 1.0
	for i := 0; i < need; i++ {
		comb = comb * float64(len(opt)-i) / float64(i+1)
	}
	if comb > 200 {
		return nil
	}
	var out [][]int
	var rec func(start int, cur []int)
	rec = func(start int, cur []int) {
		if len(cur) == need {
			out = append(out, append(append([]int(nil), must...), cur...))
			return
		}
		for i := start; i < len(opt); i++ {
			rec(i+1, append(cur, opt[i]))
		}
	}
	rec(0, nil)
	return out
}

func vC13Hook(s *vKindSys, h []string) {
	x := s.idx.(*IVFIndex)
	mkey := s.m.key()
	// --- placement invariant
	s.c.Evaluations++
	where := map[uint32]int{}
	count := map[uint32]int{}
	for li, l := range x.lists {
		for _, v := range l {
			count[v.ID()]++
			where[v.ID()] = li
			// nearest centroid under the index's own distance function (ties: any)
			best := float32(0)
			for ci, c := range x.centroids {
				d := x.distance.Calculate(v.Vector(), c)
				if ci == 0 || d < best {
					best = d
				}
			}
			if d := x.distance.Calculate(v.Vector(), x.centroids[li]); d > best {
				s.c.Violation("not-in-nearest-cluster", "", s.cfgS, h, fmt.Sprintf("vector %d stored in cluster %d at centroid distance %v, nearest centroid is at %v", v.ID(), li, d, best))
			}
		}
	}
	for id := range s.m.live {
		if count[id] != 1 {
			s.c.Violation("not-in-exactly-one-cluster", "", s.cfgS, h, fmt.Sprintf("live vector %d is stored %d times", id, count[id]))
		}
	}
	if s.cfg.NList < 2 {
		return
	}
	// --- partial probe: exact top-k within a valid set of p nearest clusters
	qa := vQueryAlphabet(s.cfg.Dim)
	qa = qa[:len(qa)-1]
	thr := float32(1.5)
	if s.cfg.Metric == Cosine {
		thr = 0.35
	}
	if s.cfg.Metric == L2Squared {
		thr = 2.5
	}
	for qi, q := range qa {
		pq, err := x.distance.Preprocess(vCopyVec(q))
		if err != nil {
			continue
		}
		cd := make([]float32, len(x.centroids))
		for i, c := range x.centroids {
			cd[i] = x.distance.Calculate(pq, c)
		}
		for _, k := range []int{-1, 1, 2} {
			// (a negative threshold is no threshold, as for the exact index)
			for _, t := range []float32{0, thr, -thr} {
				for _, r := range [][]uint32{nil, {1}, {2, 9}} {
					if t < 0 && r != nil {
						continue
					}
					var prev []VectorResult
					for p := 1; p <= s.cfg.NList; p++ {
						s.c.Evaluations++
						vq := vVecQuery{Q: q, K: k, Thr: t, IDs: r, NProb: p}
						res, err := vRunVecQuery(s.idx, vq)
						if err != nil {
							s.c.Violation("search-error", "", s.cfgS, h, vq.String()+": "+err.Error())
							break
						}
						// rank-wise monotonicity in p
						if p > 1 {
							if len(res) < len(prev) {
								s.c.Violation("fewer-results-with-more-probes", "", s.cfgS, h, fmt.Sprintf("%s: %d results, but %d with p-1", vq.String(), len(res), len(prev)))
							}
							for i := range prev {
								if i < len(res) && float64(res[i].Score) > float64(prev[i].Score)*(1+1e-6)+1e-7*vTolFloor {
									s.c.Violation("worse-score-with-more-probes", "", s.cfgS, h, fmt.Sprintf("%s: rank %d score %v > %v with p-1", vq.String(), i, res[i].Score, prev[i].Score))
								}
							}
						}
						prev = res
						if p == s.cfg.NList {
							continue // full probe: judged by the generic exact oracle
						}
						ok := false
						msgs := ""
						boundary := false
						sets := vIvfProbeSets(cd, p)
						if sets == nil {
							s.c.Extra["queries_skipped_too_many_tied_centroids"]++
							continue
						}
						for _, set := range sets {
							in := map[int]bool{}
							for _, li := range set {
								in[li] = true
							}
							sub := map[uint32][]float32{}
							for id, v := range s.m.live {
								if li, stored := where[id]; stored && in[li] {
									sub[id] = v
								}
							}
							cands, b := vEligible(s.cfg.Metric, sub, vq, true, func(id uint32, v []float32) float64 { return vRefDist(s.cfg.Metric, q, v) })
							if b {
								boundary = true
								break
							}
							msg := vAcceptExact(res, cands, k)
							if msg == "" {
								ok = true
								break
							}
							msgs += fmt.Sprintf("[clusters %v: %s] ", set, msg)
						}
						if boundary {
							s.c.Extra["queries_skipped_boundary"]++
							continue
						}
						if !ok {
							s.c.Violation("partial-probe-not-exact-within-nearest-clusters", "", s.cfgS, h, fmt.Sprintf("%s centroid distances %v: %s got [%s]", vq.String(), cd, msgs, vResStr(res)))
						}
						if len(s.m.live) > 0 {
							s.c.Nontrivial(fmt.Sprintf("%s|%s|pp%d/%d/%v/%v/%d", s.cfgS, mkey, qi, k, t, r, p))
						}
					}
				}
			}
		}
	}
}

func vC13Untrained(c *vCtx) {
	for _, metric := range []DistanceKind{Euclidean, L2Squared, Cosine} {
		for _, nl := range []int{1, 2, 4} {
			cfgS := fmt.Sprintf("ivf untrained metric=%s nlist=%d", metric, nl)
			idx, err := NewIVFIndex(2, nl, metric)
			if err != nil {
				c.Violation("constructor-error", "", cfgS, nil, err.Error())
				continue
			}
			c.Evaluations += 3
			c.Transitions += 3
			c.Traces++
			if err := idx.Add(*NewVectorNodeWithID(1, []float32{1, 0})); err == nil {
				c.Violation("add-before-train-accepted", "", cfgS, []string{"Add(1)"}, "Add before Train returned nil")
			}
			if _, err := idx.NewSearch().WithQuery([]float32{1, 0}).Execute(); err == nil {
				c.Violation("search-before-train-accepted", "", cfgS, []string{"Search"}, "search before Train returned nil error")
			}
			c.Nontrivial(cfgS + "add")
			c.Nontrivial(cfgS + "search")
			if nl > 1 {
				few := make([]VectorNode, nl-1)
				for i := range few {
					few[i] = *NewVectorNodeWithID(uint32(i+1), []float32{float32(i), 1})
				}
				if err := idx.Train(few); err == nil {
					c.Violation("train-with-too-few-accepted", "", cfgS, []string{"Train(nlist-1)"}, "Train with fewer vectors than clusters returned nil")
				}
				if idx.Trained() {
					c.Violation("trained-after-failed-train", "", cfgS, []string{"Train(nlist-1)"}, "Trained() true after failed Train")
				}
			}
			c.NewState(cfgS)
			c.Sample(cfgS)
		}
	}
}

func init() {
	vRegister(&vCheck{
		ID: "C13", Level: "model_checking", Engine: "histmc",
		Rule:        "For every training sequence (all sequences of length nlist..L over a 5-point alphabet incl. duplicates => empty clusters, identical centroids) x nlist x metric x dimension, BFS over Add/Remove/Flush histories on the real IVFIndex; in every reached state: full-probe (nprobes >= nlist, <= 0, default) results accepted against brute force; for every p < nlist the result must be the exact top-k of the live vectors stored in SOME valid set of p nearest centroids (ties between centroid distances admit any set; cluster membership read from private lists, centroid distances computed with the index's own distance function), rank-wise scores monotone in p; every stored vector in exactly one list whose centroid is (one of) the nearest. Plus add/search/short-train on untrained indexes. Non-trivial = distinct (config, state, query, k, threshold, restriction, p<nlist) on non-empty states, plus the generic C02 rule.",
		Assumptions: []string{"ties unspecified; float tolerance 1e-5", "training sets up to length 3 (quick) / 4 (thorough); nlist up to 3 / 4"},
		Shards: func(tier string) []vShard {
			var sh []vShard
			sh = append(sh, vShard{Name: "untrained", Run: vC13Untrained})
			for _, bcfg := range []vVecCfg{{Kind: "ivf", Metric: Euclidean, Dim: 2, NList: 3, Train: 0}, {Kind: "ivf", Metric: Cosine, Dim: 3, NList: 2, Train: 1}} {
				bcfg := bcfg
				bdepth := 3
				if tier == "thorough" {
					bdepth = 4
				}
				sh = append(sh, vShard{Name: "builders/" + strings.ReplaceAll(bcfg.String(), " ", ","), Run: func(c *vCtx) { vVecBuilderShard(c, bcfg, bdepth) }})
			}
			maxL, maxNl, depth := 3, 3, 3
			if tier == "thorough" {
				maxL, maxNl, depth = 4, 4, 4
			}
			for _, metric := range []DistanceKind{Euclidean, L2Squared, Cosine} {
				for _, d := range []int{1, 2} {
					if metric == Cosine && d == 1 {
						continue
					}
					for nl := 1; nl <= maxNl; nl++ {
						metric, d, nl := metric, d, nl
						if nl > maxL {
							continue
						}
						parts := 1
						if d == 2 {
							parts = 3
						}
						for part := 0; part < parts; part++ {
							part := part
							sh = append(sh, vShard{Name: fmt.Sprintf("ivf/%s/d%d/nlist%d/part%d", metric, d, nl, part), Run: func(c *vCtx) {
								alpha := vC13TrainAlphabet(d)
								for ti, seq := range vSequences(len(alpha), nl, maxL) {
									if ti%parts != part {
										continue
									}
									if c.Expired() {
										c.Bound += fmt.Sprintf(" (deadline: %d training sets done)", ti)
										return
									}
									train := make([][]float32, len(seq))
									for i, a := range seq {
										train[i] = alpha[a]
									}
									cfg := vVecCfg{Kind: "ivf", Metric: metric, Dim: d, NList: nl, Train: -1}
									s := newKindSys(c, cfg, 3)
									s.train = train
									s.cfgS = cfg.String() + " trainseq=" + strings.ReplaceAll(fmt.Sprint(seq), " ", ",")
									s.hook = vC13Hook
									s.noMulti = true
									s.noPrepared = true
									vBFS(c, s, depth)
									// aliasing mode: the caller adds the very slices it trained on
									// (non-zero training vectors only; the value alphabet = the training set)
									zero := false
									for _, v := range train {
										if vIsZero(v) {
											zero = true
										}
									}
									if !zero && len(seq) <= nl+1 {
										a := newKindSys(c, cfg, 3)
										a.train = train
										a.vals = train
										a.aliasTrain = true
										a.cfgS = cfg.String() + " alias trainseq=" + strings.ReplaceAll(fmt.Sprint(seq), " ", ",")
										a.hook = vC13Hook
										a.noMulti = true
										a.noPrepared = true
										vBFS(c, a, depth)
									}
								}
							}})
						}
					}
				}
			}
			// affine transforms of the data (zz_verif_vec.go): scaled by 2^-20, 2^-40, 2^20,
			// shifted by 4096, 2^20, 20000
			for _, cfg := range []vVecCfg{{Kind: "ivf", Metric: Euclidean, Dim: 2, NList: 4, Train: 2}, {Kind: "ivf", Metric: L2Squared, Dim: 3, NList: 5, Train: 2}, {Kind: "ivf", Metric: Euclidean, Dim: 2, NList: 16, Train: -4}, {Kind: "ivf", Metric: Cosine, Dim: 3, NList: 3, Train: 2}} {
				cfg := cfg
				for _, x := range vXFs {
					x := x
					if cfg.Metric == Cosine && x.Off != 0 {
						continue
					}
					sh = append(sh, vShard{Name: fmt.Sprintf("xf/%g:%d/%s", x.Off, x.Exp, strings.ReplaceAll(cfg.String(), " ", ",")), Run: func(c *vCtx) {
						defer vXFSet(x, cfg.Metric)()
						if cfg.NList >= 16 {
							// the hook tries every p in 1..nlist: smaller instances
							vKindSweep(c, cfg, 10, vC13Hook)
							vKindLarge(c, cfg, []int{70}, vC13Hook)
							return
						}
						vKindSweep(c, cfg, 16, vC13Hook)
						vKindLarge(c, cfg, []int{70, 200}, vC13Hook)
					}})
				}
			}
			// large instances (hundreds to thousands of vectors, k up to n)
			for _, cfg := range []vVecCfg{{Kind: "ivf", Metric: Euclidean, Dim: 2, NList: 4, Train: 2}, {Kind: "ivf", Metric: Cosine, Dim: 3, NList: 3, Train: 2}, {Kind: "ivf", Metric: L2Squared, Dim: 3, NList: 5, Train: 2},
				// many clusters (probe selection among 16 .. 40 centroids)
				{Kind: "ivf", Metric: Euclidean, Dim: 1, NList: 16, Train: -4}, {Kind: "ivf", Metric: L2Squared, Dim: 2, NList: 20, Train: -4}, {Kind: "ivf", Metric: Cosine, Dim: 3, NList: 24, Train: -4}, {Kind: "ivf", Metric: Euclidean, Dim: 2, NList: 40, Train: -4}} {
				cfg := cfg
				sizes := vLargeSizes(tier)
				if cfg.NList >= 16 {
					sizes = []int{70, 200} // the hook tries every p in 1..nlist
					if tier == "thorough" {
						sizes = []int{70, 260, 700}
					}
				}
				sh = append(sh, vShard{Name: "large/" + strings.ReplaceAll(cfg.String(), " ", ","), Run: func(c *vCtx) { vKindLarge(c, cfg, sizes, vC13Hook) }})
			}
			return sh
		},
		Replay: func(c *vCtx, v *vViolation) bool {
			defer vXFParse(v.Config, vParseVecCfg(v.Config).Metric)()
			v.Config = vXFStrip(v.Config)
			if i := strings.Index(v.Config, " large n="); i >= 0 {
				var n int
				fmt.Sscanf(v.Config[i:], " large n=%d", &n)
				vKindLarge(c, vParseVecCfg(v.Config[:i]), []int{n}, vC13Hook)
				_, ok := c.viol[v.Sig()]
				return ok
			}
			if i := strings.Index(v.Config, " sweep n="); i >= 0 {
				var n int
				fmt.Sscanf(v.Config[i:], " sweep n=%d", &n)
				vKindSweep(c, vParseVecCfg(v.Config[:i]), n+1, vC13Hook)
				_, ok := c.viol[v.Sig()]
				return ok
			}
			if strings.HasPrefix(v.Config, "ivf untrained") {
				vC13Untrained(c)
				_, ok := c.viol[v.Sig()]
				return ok
			}
			alias := strings.Contains(v.Config, " alias trainseq=")
			parts := strings.Split(strings.Replace(v.Config, " alias trainseq=", " trainseq=", 1), " trainseq=")
			cfg := vParseVecCfg(parts[0])
			var seq []int
			for _, f := range strings.Split(strings.Trim(parts[1], "[]"), ",") {
				var x int
				fmt.Sscan(f, &x)
				seq = append(seq, x)
			}
			alpha := vC13TrainAlphabet(cfg.Dim)
			train := make([][]float32, len(seq))
			for i, a := range seq {
				train[i] = alpha[a]
			}
			s := newKindSys(c, cfg, 3)
			s.train = train
			if alias {
				s.vals = train
				s.aliasTrain = true
			}
			s.cfgS = v.Config
			s.hook = vC13Hook
			s.noMulti = true
			s.noPrepared = true
			vReplayHist(s, v.History)
			_, ok := c.viol[v.Sig()]
			return ok
		},
	})
}
