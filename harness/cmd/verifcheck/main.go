//go:build verif

package main

import (
	"os"

	comet "github.com/wizenheimer/comet"
)

func main() { os.Exit(comet.VerifMain(os.Args[1:])) }
