//go:build verif

package comet

// C07 — serialising and reloading any index preserves every search answer, and
// C16 (1),(2) — truncated or mismatched serialised data is rejected.
// Both run on every state reached by a BFS over train/add/remove/flush histories of
// each of the eight index kinds.

import (
	"bufio"
	"bytes"
	"compress/gzip"
	"fmt"
	"io"
	"sort"
	"strings"
	"testing/iotest"

	vos "github.com/wizenheimer/comet/internal/vrt/vos"
)

// vBackToBack: the stream written twice back to back, read through each concrete reader
// type a caller may hand to ReadFrom (an *os.File, a *bufio.Reader, a *bytes.Buffer, a
// *strings.Reader, an io.MultiReader, a one-byte-at-a-time reader): both copies must
// decode from the same reader, one after the other, into two fresh indexes - a read
// consumes exactly the index's own bytes whatever the reader's type.
func (s *vSerSys) vBackToBack(cfgS string, h []string, stream []byte, want []vObs) {
	twice := append(append([]byte(nil), stream...), stream...)
	mem := vos.NewMemFS()
	old := vos.FS
	vos.FS = mem
	defer func() { vos.FS = old }()
	mem.WriteFileRaw("/c07/twice.bin", twice)
	for _, rk := range []string{"os.File", "bufio.Reader", "bytes.Buffer", "strings.Reader", "io.MultiReader", "iotest.OneByteReader"} {
		var r io.Reader
		switch rk {
		case "os.File":
			f, err := vos.Open("/c07/twice.bin")
			if err != nil {
				panic(err)
			}
			r = f
		case "bufio.Reader":
			r = bufio.NewReaderSize(bytes.NewReader(twice), 16)
		case "bytes.Buffer":
			r = bytes.NewBuffer(append([]byte(nil), twice...))
		case "strings.Reader":
			r = strings.NewReader(string(twice))
		case "io.MultiReader":
			r = io.MultiReader(bytes.NewReader(twice[:len(stream)/2]), bytes.NewReader(twice[len(stream)/2:]))
		default:
			r = &vOneByteReader{r: bytes.NewReader(twice)}
		}
		for copyNo := 1; copyNo <= 2; copyNo++ {
			s.c.Evaluations++
			dst := s.k.fresh()
			var n int64
			var err error
			func() {
				defer func() {
					if rec := recover(); rec != nil {
						err = fmt.Errorf("panic: %v", rec)
					}
				}()
				n, err = s.k.read(dst, r)
			}()
			if err != nil || int(n) != len(stream) {
				s.c.Violation("read-consumed-wrong-amount", "back-to-back:"+rk, cfgS, h, fmt.Sprintf("copy %d of two back-to-back streams read through a %s: n=%d (stream %d bytes) err=%v", copyNo, rk, n, len(stream), err))
				break
			}
			if d := vObsDiff(want, s.k.observe(dst)); d != "" {
				s.c.Violation("reload-changed-answers", "back-to-back:"+rk, cfgS, h, fmt.Sprintf("copy %d read through a %s: %s", copyNo, rk, d))
				break
			}
		}
		if f, ok := r.(*vos.File); ok {
			f.Close()
		}
	}
}

type vOneByteReader struct{ r io.Reader }

func (o *vOneByteReader) Read(p []byte) (int, error) {
	if len(p) == 0 {
		return 0, nil
	}
	return o.r.Read(p[:1])
}

type vObs struct {
	q   string
	ids []uint32
	sc  []float64
	err bool
}

// vSerKind describes one index kind for the serialisation checks.
type vSerKind struct {
	name     string
	fresh    func() any // freshly constructed, same parameters, untrained
	source   func() any // fresh and (if the kind needs it) trained
	nvals    int        // size of the value alphabet
	add      func(idx any, id uint32, val int) error
	remove   func(idx any, id uint32) error
	flush    func(idx any) error
	observe  func(idx any) []vObs
	write    func(idx any, w io.Writer) (int64, error)
	writeOne func(idx any, w io.Writer) error
	read     func(idx any, r io.Reader) (int64, error)
	holds    func(idx any, id uint32) bool // private state still mentions id
	canon    func(idx any) string
	train    func(idx any) error // trains an untrained index (nil for kinds that need no training)
	retrain  func(idx any) error // trains again, with another set (nil for kinds that do not train)
	hnsw     bool
	ef       int  // hnsw: efSearch (exactness regime limit)
	textual  bool // holds a BM25 index: flushing changes scores (not ids)
}

type vCountingReader struct {
	r io.Reader
	n int
}

func (c *vCountingReader) Read(p []byte) (int, error) {
	n, err := c.r.Read(p)
	c.n += n
	return n, err
}

func vObsVec(idx VectorIndex, dim int) []vObs {
	var out []vObs
	qa := vQueryAlphabet(dim)
	for _, q := range qa[:len(qa)-1] {
		for _, k := range []int{-1, 2} {
			for _, r := range [][]uint32{nil, {1, 3}} {
				vq := vVecQuery{Q: q, K: k, IDs: r, NProb: -1}
				res, err := vRunVecQuery(idx, vq)
				o := vObs{q: vq.String(), err: err != nil}
				for _, x := range res {
					o.ids = append(o.ids, x.Node.ID())
					o.sc = append(o.sc, float64(x.Score))
				}
				out = append(out, o)
			}
		}
	}
	return out
}

func vObsText(idx TextIndex) []vObs {
	return vObsTextQ(idx, []string{"a", "b", "a b", "fi", "z"})
}

func vObsTextQ(idx TextIndex, queries []string) []vObs {
	var out []vObs
	for _, q := range queries {
		for _, k := range []int{-1, 1} {
			res, err := idx.NewSearch().WithQuery(q).WithK(k).Execute()
			qs := q
			if len(qs) > 40 {
				qs = fmt.Sprintf("%s...(%d bytes)", qs[:20], len(qs))
			}
			o := vObs{q: fmt.Sprintf("text %q k=%d", qs, k), err: err != nil}
			for _, x := range res {
				o.ids = append(o.ids, x.Id)
				o.sc = append(o.sc, float64(x.Score))
			}
			out = append(out, o)
		}
	}
	return out
}

var vSerFilters = []Filter{{}, Eq("s", "x"), Ne("s", "x"), Eq("s", ""), Exists("s"), NotExists("i"), Eq("b", true), Gte("i", 0), Lt("f", 0.3), Eq("i", 7), Range("f", 0.28, 0.29), In("s", "x", "y")}

func vObsMeta(idx MetadataIndex) []vObs {
	var out []vObs
	for _, f := range vSerFilters {
		ms := idx.NewSearch()
		if f.Field != "" {
			ms = ms.WithFilters(f)
		}
		res, err := ms.Execute()
		o := vObs{q: "filter " + vFilterStr(f), err: err != nil}
		for _, x := range res {
			o.ids = append(o.ids, x.GetId())
			o.sc = append(o.sc, 0)
		}
		out = append(out, o)
	}
	return out
}

func vObsHybrid(idx HybridSearchIndex) []vObs {
	var out []vObs
	type hq struct {
		v []float32
		t string
		f bool
	}
	for _, q := range []hq{{v: []float32{1, 0.25}}, {t: "alpha"}, {f: true}, {v: []float32{0, 2}, t: "beta"}, {v: []float32{1, 0}, f: true}} {
		s := idx.NewSearch().WithK(1000) // never truncates: a flush may legitimately reorder BM25 scores
		if q.v != nil {
			s = s.WithVector(vCopyVec(q.v))
		}
		if q.t != "" {
			s = s.WithText(q.t)
		}
		if q.f {
			s = s.WithMetadata(Eq("s", "x"))
		}
		res, err := s.Execute()
		o := vObs{q: fmt.Sprintf("hybrid %v", q), err: err != nil}
		for _, x := range res {
			o.ids = append(o.ids, x.ID)
			o.sc = append(o.sc, x.Score)
		}
		out = append(out, o)
	}
	return out
}

// vObsDiff compares two observation vectors: same errors, same lengths, same sorted
// scores (float tolerance), same id sets up to ties at the cut.
func vObsDiff(a, b []vObs) string {
	if len(a) != len(b) {
		return "different number of observations"
	}
	for i := range a {
		x, y := a[i], b[i]
		if x.err != y.err {
			return fmt.Sprintf("%s: error %v vs %v", x.q, x.err, y.err)
		}
		if len(x.ids) != len(y.ids) {
			return fmt.Sprintf("%s: %d vs %d results (%v vs %v)", x.q, len(x.ids), len(y.ids), x.ids, y.ids)
		}
		xs := append([]float64(nil), x.sc...)
		ys := append([]float64(nil), y.sc...)
		sort.Float64s(xs)
		sort.Float64s(ys)
		for j := range xs {
			if !vApprox(xs[j], ys[j]) {
				return fmt.Sprintf("%s: scores %v vs %v", x.q, x.sc, y.sc)
			}
		}
		inY := map[uint32]float64{}
		for j, id := range y.ids {
			inY[id] = y.sc[j]
		}
		for j, id := range x.ids {
			ys, ok := inY[id]
			if ok && !vApprox(ys, x.sc[j]) {
				return fmt.Sprintf("%s: id %d scored %v vs %v", x.q, id, x.sc[j], ys)
			}
			if !ok {
				// only acceptable if tied with another result's score (tie at the cut)
				tied := false
				for k2, s2 := range x.sc {
					if k2 != j && vApprox(s2, x.sc[j]) {
						tied = true
					}
				}
				for _, s2 := range y.sc {
					if vApprox(s2, x.sc[j]) {
						tied = true
					}
				}
				if !tied {
					return fmt.Sprintf("%s: id %d only on one side (%v vs %v)", x.q, id, x.ids, y.ids)
				}
			}
		}
	}
	return ""
}

// vHighDimVals: n vectors of dimension d with no period in the component index (the
// block-wise embedding of the 2-d alphabet repeats every two components, which would hide
// an encoder that repeats or shifts a chunk).
func vHighDimVals(d, n int) [][]float32 {
	out := make([][]float32, n)
	for i := range out {
		v := make([]float32, d)
		for j := range v {
			v[j] = float32((i*31+j*j+j*7+(j/97)*5)%23) - 11
		}
		v[0] += float32(i)
		out[i] = v
	}
	return out
}

// vSerDimCfgs: the dimension as a size parameter of the encoders: around 1024 / 2048 /
// 4096 components (chunked or buffered encoders) and a few small odd ones.
func vSerDimCfgs(tier string) []vVecCfg {
	dims := []int{5, 64, 1023, 1024, 1025, 1536, 4097}
	if tier == "thorough" {
		dims = append(dims, 2048, 2049, 8193, 16385)
	}
	var out []vVecCfg
	for _, d := range dims {
		out = append(out,
			vVecCfg{Kind: "flat", Metric: Euclidean, Dim: d},
			vVecCfg{Kind: "hnsw", Metric: L2Squared, Dim: d, M: 3, Ef: 8},
			vVecCfg{Kind: "ivf", Metric: Euclidean, Dim: d, NList: 2, Train: 0},
			vVecCfg{Kind: "pq", Metric: Euclidean, Dim: d, M: 1, NBits: 2, Train: 0},
			vVecCfg{Kind: "ivfpq", Metric: Euclidean, Dim: d, NList: 2, M: 1, NBits: 2, Train: 0})
	}
	return out
}

func vSerVecKind(cfg vVecCfg) *vSerKind {
	vals := vVecAlphabet(cfg.Dim)
	vals = vals[:len(vals)-1] // no zero vector
	if cfg.Dim > 4 {
		vals = vHighDimVals(cfg.Dim, 5)
	}
	fresh := func() any {
		c := cfg
		var idx VectorIndex
		var err error
		switch c.Kind {
		case "flat":
			idx, err = NewFlatIndex(c.Dim, c.Metric)
		case "hnsw":
			idx, err = NewHNSWIndex(c.Dim, c.Metric, c.M, c.Ef, c.Ef)
		case "ivf":
			idx, err = NewIVFIndex(c.Dim, c.NList, c.Metric)
		case "pq":
			idx, err = NewPQIndex(c.Dim, c.Metric, c.M, c.NBits)
		case "ivfpq":
			idx, err = NewIVFPQIndex(c.Dim, c.Metric, c.NList, c.M, c.NBits)
		}
		if err != nil {
			panic(err)
		}
		return idx
	}
	return &vSerKind{
		name:  cfg.String(),
		fresh: fresh,
		source: func() any {
			idx, err := cfg.New()
			if err != nil {
				panic(err)
			}
			return idx
		},
		nvals: len(vals),
		add: func(idx any, id uint32, val int) error {
			return idx.(VectorIndex).Add(*NewVectorNodeWithID(id, vCopyVec(vals[val])))
		},
		remove:  func(idx any, id uint32) error { return idx.(VectorIndex).Remove(*NewVectorNodeWithID(id, nil)) },
		flush:   func(idx any) error { return idx.(VectorIndex).Flush() },
		observe: func(idx any) []vObs { return vObsVec(idx.(VectorIndex), cfg.Dim) },
		write:   func(idx any, w io.Writer) (int64, error) { return idx.(VectorIndex).WriteTo(w) },
		read:    func(idx any, r io.Reader) (int64, error) { return idx.(VectorIndex).ReadFrom(r) },
		holds: func(idx any, id uint32) bool {
			if b := vDeletedBitmap(idx.(VectorIndex)); b != nil && b.Contains(id) {
				return true
			}
			return strings.Contains(vCanonVec(idx.(VectorIndex)), fmt.Sprintf("%d:", id)) && vStoredOrCoded(idx.(VectorIndex), id)
		},
		canon: func(idx any) string { return vCanonVec(idx.(VectorIndex)) },
		train: func(idx any) error {
			ts := vTrainSet(cfg.Dim, cfg.Train)
			nodes := make([]VectorNode, len(ts))
			for i, v := range ts {
				nodes[i] = *NewVectorNodeWithID(uint32(1000+i), vCopyVec(v))
			}
			return idx.(VectorIndex).Train(nodes)
		},
		retrain: func(idx any) error {
			// a SECOND training, with another set (shifted and stretched): retraining a
			// trained index is part of the API
			ts := vTrainSet(cfg.Dim, 2-cfg.Train%2)
			nodes := make([]VectorNode, len(ts))
			for i, v := range ts {
				w := vCopyVec(v)
				for j := range w {
					w[j] = w[j]*1.5 + 0.75
				}
				nodes[i] = *NewVectorNodeWithID(uint32(2000+i), w)
			}
			return idx.(VectorIndex).Train(nodes)
		},
		hnsw: cfg.Kind == "hnsw",
		ef:   cfg.Ef,
	}
}

// vStoredOrCoded reports whether the private state of a vector index still holds id.
func vStoredOrCoded(idx VectorIndex, id uint32) bool {
	switch x := idx.(type) {
	case *FlatIndex:
		for _, v := range x.vectors {
			if v.ID() == id {
				return true
			}
		}
	case *HNSWIndex:
		_, ok := x.nodes[id]
		if ok {
			return true
		}
		for _, n := range x.nodes {
			for _, l := range n.Edges {
				for _, e := range l {
					if e == id {
						return true
					}
				}
			}
		}
	case *IVFIndex:
		for _, l := range x.lists {
			for _, v := range l {
				if v.ID() == id {
					return true
				}
			}
		}
	case *PQIndex:
		for _, v := range x.vectorNodes {
			if v.ID() == id {
				return true
			}
		}
	case *IVFPQIndex:
		for _, l := range x.lists {
			for _, v := range l {
				if v.Node.ID() == id {
					return true
				}
			}
		}
	}
	return false
}

var vSerTexts = []string{"a", "a a b", "b c", "ﬁ É", ""}

func vSerTextKind() *vSerKind {
	return vSerTextKindWith("kind=bm25", vSerTexts, []string{"a", "b", "a b", "fi", "z"})
}

// vSerLongTexts: terms whose LENGTH is the swept quantity (one token of n letters / n
// two-byte letters, n spaces between two words) for n around 2^8, 2^12, 2^16, 2^17.
func vSerLongTexts(lens []int) (texts, queries []string) {
	for _, n := range lens {
		a, b := strings.Repeat("x", n), strings.Repeat("é", n)
		texts = append(texts, a+" a", "b "+b, "p"+strings.Repeat(" ", n)+"q a")
		queries = append(queries, a, b)
	}
	queries = append(queries, "a", "b", "q")
	return
}

// vSerCollidingTexts: documents made of terms that collide under the usual 32-bit hashes
// (zz_verif_collide.go); each term is also a query.
func vSerCollidingTexts() (texts, queries []string) {
	for _, c := range vCollidingTerms() {
		texts = append(texts, c.A+" a "+c.A, c.B+" b")
		queries = append(queries, c.A, c.B)
	}
	queries = append(queries, "a", "b")
	return
}

func vSerTextKindWith(name string, texts, queries []string) *vSerKind {
	return &vSerKind{
		name:    name,
		fresh:   func() any { return NewBM25SearchIndex() },
		source:  func() any { return NewBM25SearchIndex() },
		nvals:   len(texts),
		add:     func(idx any, id uint32, val int) error { return idx.(*BM25SearchIndex).Add(id, texts[val]) },
		remove:  func(idx any, id uint32) error { return idx.(*BM25SearchIndex).Remove(id) },
		flush:   func(idx any) error { return idx.(*BM25SearchIndex).Flush() },
		observe: func(idx any) []vObs { return vObsTextQ(idx.(*BM25SearchIndex), queries) },
		write:   func(idx any, w io.Writer) (int64, error) { return idx.(*BM25SearchIndex).WriteTo(w) },
		read:    func(idx any, r io.Reader) (int64, error) { return idx.(*BM25SearchIndex).ReadFrom(r) },
		holds: func(idx any, id uint32) bool {
			t := idx.(*BM25SearchIndex)
			if _, ok := t.docTokens[id]; ok {
				return true
			}
			if _, ok := t.docLengths[id]; ok {
				return true
			}
			for _, p := range t.postings {
				if p.Contains(id) {
					return true
				}
			}
			return t.deletedDocs.Contains(id)
		},
		canon:   func(idx any) string { return vCanonBM25(idx.(*BM25SearchIndex)) },
		textual: true,
	}
}

func vSerMetaKind() *vSerKind {
	return &vSerKind{
		name:   "kind=metadata",
		fresh:  func() any { return NewRoaringMetadataIndex() },
		source: func() any { return NewRoaringMetadataIndex() },
		nvals:  6,
		add: func(idx any, id uint32, val int) error {
			return idx.(*RoaringMetadataIndex).Add(*NewMetadataNodeWithID(id, vCloneMeta(vC04Docs[val])))
		},
		remove: func(idx any, id uint32) error {
			return idx.(*RoaringMetadataIndex).Remove(*NewMetadataNodeWithID(id, nil))
		},
		flush:   func(idx any) error { return idx.(*RoaringMetadataIndex).Flush() },
		observe: func(idx any) []vObs { return vObsMeta(idx.(*RoaringMetadataIndex)) },
		write:   func(idx any, w io.Writer) (int64, error) { return idx.(*RoaringMetadataIndex).WriteTo(w) },
		read:    func(idx any, r io.Reader) (int64, error) { return idx.(*RoaringMetadataIndex).ReadFrom(r) },
		holds: func(idx any, id uint32) bool {
			m := idx.(*RoaringMetadataIndex)
			if m.allDocs.Contains(id) {
				return true
			}
			for _, b := range m.categorical {
				if b.Contains(id) {
					return true
				}
			}
			for _, b := range m.numeric {
				if b.GetExistenceBitmap().Contains(id) {
					return true
				}
			}
			return false
		},
		canon: func(idx any) string { return vCanonMeta(idx.(*RoaringMetadataIndex)) },
	}
}

type vHybWriter struct{ parts [4]bytes.Buffer }

// vFailingWriter accepts `left` bytes and then fails every write.
type vFailingWriter struct{ left int }

func (w *vFailingWriter) Write(p []byte) (int, error) {
	if len(p) <= w.left {
		w.left -= len(p)
		return len(p), nil
	}
	n := w.left
	w.left = 0
	return n, fmt.Errorf("no space left on device")
}

func vSerHybridKind(v, t, m bool) *vSerKind {
	mk := func() any {
		var vi VectorIndex
		var ti TextIndex
		var mi MetadataIndex
		if v {
			f, _ := NewFlatIndex(2, Euclidean)
			vi = f
		}
		if t {
			ti = NewBM25SearchIndex()
		}
		if m {
			mi = NewRoaringMetadataIndex()
		}
		return NewHybridSearchIndex(vi, ti, mi)
	}
	return &vSerKind{
		name:    fmt.Sprintf("kind=hybrid V=%v T=%v M=%v", v, t, m),
		textual: t,
		fresh:   mk,
		source:  mk,
		nvals:   4,
		add: func(idx any, id uint32, val int) error {
			d := vC06Docs[val]
			return idx.(HybridSearchIndex).AddWithID(id, vCopyVec(d.Vec), d.Text, vCloneMeta(d.Meta))
		},
		remove:  func(idx any, id uint32) error { return idx.(HybridSearchIndex).Remove(id) },
		flush:   func(idx any) error { return idx.(HybridSearchIndex).Flush() },
		observe: func(idx any) []vObs { return vObsHybrid(idx.(HybridSearchIndex)) },
		// four writers, one concatenated stream (hybrid + vector + text + metadata)
		write: func(idx any, w io.Writer) (int64, error) {
			var p [4]bytes.Buffer
			var vw, tw, mw io.Writer
			if v {
				vw = &p[1]
			}
			if t {
				tw = &p[2]
			}
			if m {
				mw = &p[3]
			}
			if err := idx.(HybridSearchIndex).WriteTo(&p[0], vw, tw, mw); err != nil {
				return 0, err
			}
			n := int64(0)
			for i := range p {
				k, err := w.Write(p[i].Bytes())
				n += int64(k)
				if err != nil {
					return n, err
				}
			}
			return n, nil
		},
		// one writer for all four sections: the direct way to produce the single stream that
		// ReadFrom expects
		writeOne: func(idx any, w io.Writer) error {
			var vw, tw, mw io.Writer
			if v {
				vw = w
			}
			if t {
				tw = w
			}
			if m {
				mw = w
			}
			return idx.(HybridSearchIndex).WriteTo(w, vw, tw, mw)
		},
		read: func(idx any, r io.Reader) (int64, error) { return idx.(HybridSearchIndex).ReadFrom(r) },
		holds: func(idx any, id uint32) bool {
			h := idx.(*hybridSearchIndex)
			_, ok := h.docInfo[id]
			return ok
		},
		canon: func(idx any) string {
			h := idx.(*hybridSearchIndex)
			var sb strings.Builder
			ids := []int{}
			for id := range h.docInfo {
				ids = append(ids, int(id))
			}
			sort.Ints(ids)
			for _, id := range ids {
				d := h.docInfo[uint32(id)]
				fmt.Fprintf(&sb, "%d:%v%v%v;", id, d.hasVector, d.hasText, d.hasMetadata)
			}
			if h.vectorIndex != nil {
				sb.WriteString("|" + vCanonVec(h.vectorIndex))
			}
			if x, ok := h.textIndex.(*BM25SearchIndex); ok {
				sb.WriteString("|" + vCanonBM25(x))
			}
			if x, ok := h.metadataIndex.(*RoaringMetadataIndex); ok {
				sb.WriteString("|" + vCanonMeta(x))
			}
			return sb.String()
		},
	}
}

func vSerKinds(tier string) []*vSerKind {
	var out []*vSerKind
	cfgs := []vVecCfg{
		{Kind: "flat", Metric: Euclidean, Dim: 2},
		{Kind: "flat", Metric: Cosine, Dim: 3},
		{Kind: "hnsw", Metric: Euclidean, Dim: 2, M: 2, Ef: 8},
		{Kind: "hnsw", Metric: Cosine, Dim: 2, M: 3, Ef: 8},
		{Kind: "ivf", Metric: Euclidean, Dim: 2, NList: 2, Train: 0},
		{Kind: "ivf", Metric: L2Squared, Dim: 2, NList: 3, Train: 1},
		{Kind: "pq", Metric: Euclidean, Dim: 2, M: 2, NBits: 2, Train: 0},
		{Kind: "pq", Metric: Cosine, Dim: 4, M: 2, NBits: 3, Train: 0},
		{Kind: "ivfpq", Metric: Euclidean, Dim: 2, NList: 2, M: 1, NBits: 2, Train: 0},
		{Kind: "ivfpq", Metric: L2Squared, Dim: 4, NList: 1, M: 2, NBits: 1, Train: 1},
	}
	if tier == "thorough" {
		cfgs = append(cfgs,
			vVecCfg{Kind: "flat", Metric: L2Squared, Dim: 1},
			vVecCfg{Kind: "hnsw", Metric: L2Squared, Dim: 3, M: 2, Ef: 4},
			vVecCfg{Kind: "ivf", Metric: Cosine, Dim: 2, NList: 1, Train: 0},
			vVecCfg{Kind: "pq", Metric: L2Squared, Dim: 2, M: 1, NBits: 4, Train: 0},
			vVecCfg{Kind: "ivfpq", Metric: Cosine, Dim: 2, NList: 2, M: 2, NBits: 2, Train: 0},
		)
	}
	for _, c := range cfgs {
		out = append(out, vSerVecKind(c))
	}
	out = append(out, vSerTextKind(), vSerMetaKind())
	out = append(out, vSerHybridKind(true, true, true), vSerHybridKind(true, false, false), vSerHybridKind(false, true, true), vSerHybridKind(false, false, false))
	if tier == "thorough" {
		out = append(out, vSerHybridKind(true, true, false), vSerHybridKind(false, false, true), vSerHybridKind(true, false, true), vSerHybridKind(false, true, false))
	}
	return out
}

// vSerSys explores histories of one kind; mode "c07" runs the round-trip oracle in
// every state, mode "c16" the every-prefix oracle.
type vSerSys struct {
	c         *vCtx
	k         *vSerKind
	mode      string
	untrained bool
	src       any
	live      map[uint32]int
	rem       map[uint32]bool
	nAdd      int
	maxN      int
	contDepth int
	// mid-history serialisations and retrainings (c07 mode): a WriteTo whose bytes are thrown
	// away and a second Train are operations of the alphabet, so that "write, change, write"
	// and "train, write, train, write" occur (the end-of-history round trip writes once)
	written   bool
	retrained bool
}

func (s *vSerSys) Reset() {
	vResetGlobals()
	vFixLevels()
	if s.untrained {
		s.src = s.k.fresh()
	} else {
		s.src = s.k.source()
	}
	s.live = map[uint32]int{}
	s.rem = map[uint32]bool{}
	s.nAdd = 0
	s.written, s.retrained = false, false
	documentFilterPool.Reset()
	minHeapPool.Reset()
	maxHeapPool.Reset()
	heapPool.Reset()
}

func (s *vSerSys) Enabled() []vOp {
	if s.untrained {
		return nil
	}
	var ops []vOp
	if s.nAdd < s.maxN {
		for v := 0; v < s.k.nvals; v++ {
			ops = append(ops, vOp{K: "Add", A: s.nAdd + 1, B: v})
		}
	}
	ids := []int{}
	for id := range s.live {
		ids = append(ids, int(id))
	}
	sort.Ints(ids)
	for _, id := range ids {
		ops = append(ops, vOp{K: "Remove", A: id})
		if s.k.name == "kind=bm25" {
			// Add on an existing id = replace (C03)
			ops = append(ops, vOp{K: "Add", A: id, B: (s.live[uint32(id)] + 1) % s.k.nvals})
		}
	}
	if len(s.rem) > 0 {
		ops = append(ops, vOp{K: "Flush"})
	}
	if s.mode == "c07" {
		if !s.written {
			ops = append(ops, vOp{K: "Write"})
		}
		if s.k.retrain != nil && !s.retrained && s.k.hasTrainable() {
			ops = append(ops, vOp{K: "Retrain"})
		}
	}
	return ops
}

func (k *vSerKind) hasTrainable() bool {
	return strings.Contains(k.name, "kind=ivf") || strings.Contains(k.name, "kind=pq") || strings.Contains(k.name, "kind=ivfpq")
}

func (s *vSerSys) applyTo(idx any, op vOp) error {
	switch op.K {
	case "Add":
		return s.k.add(idx, uint32(op.A), op.B)
	case "Remove":
		return s.k.remove(idx, uint32(op.A))
	case "Flush":
		return s.k.flush(idx)
	case "Write":
		var sink bytes.Buffer
		_, err := s.k.write(idx, &sink)
		return err
	case "Retrain":
		return s.k.retrain(idx)
	}
	return nil
}

func (s *vSerSys) Apply(op vOp, hist []vOp, check bool) {
	err := s.applyTo(s.src, op)
	switch op.K {
	case "Add":
		if _, replace := s.live[uint32(op.A)]; !replace {
			s.nAdd++
		}
		if err == nil {
			s.live[uint32(op.A)] = op.B
		}
	case "Remove":
		if err == nil {
			delete(s.live, uint32(op.A))
			s.rem[uint32(op.A)] = true
		}
	case "Write":
		s.written = true
		if s.k.textual || true {
			// WriteTo flushes: soft-deleted documents are gone from the source afterwards
			s.rem = map[uint32]bool{}
		}
	case "Retrain":
		s.retrained = true
	}
	if check {
		h := vHistStrings(append(hist, op))
		if s.mode == "c07" {
			s.roundTrip(h)
		} else {
			s.prefixes(h)
		}
	}
}

func (s *vSerSys) rebuild(h []string) any {
	// an independent second copy of the source state (same history on a fresh instance)
	var idx any
	if s.untrained {
		return s.k.fresh()
	}
	idx = s.k.source()
	for _, hs := range h {
		s.applyTo(idx, vParseOp(hs))
	}
	return idx
}

func (s *vSerSys) roundTrip(h []string) {
	cfgS := s.k.name
	if s.untrained {
		cfgS += " untrained"
	}
	s.c.Evaluations++
	before := s.k.observe(s.src)
	// a snapshot whose destination FAILS (disk full after a few bytes; the position varies
	// with the history) precedes the real one on every third state: a failed WriteTo leaves
	// nothing behind that a later WriteTo would emit
	if hh := vHash(strings.Join(h, ";")); hh%3 == 0 {
		fw := &vFailingWriter{left: int(hh/3%4) * 9}
		func() {
			defer func() { recover() }()
			s.k.write(s.src, fw)
		}()
		before = s.k.observe(s.src)
	}
	var buf bytes.Buffer
	n, err := s.k.write(s.src, &buf)
	if err != nil {
		s.c.Violation("write-error", "", cfgS, h, err.Error())
		return
	}
	if int(n) != buf.Len() {
		s.c.Violation("write-count", "", cfgS, h, fmt.Sprintf("WriteTo returned %d, stream has %d bytes", n, buf.Len()))
	}
	after := s.k.observe(s.src)
	if s.k.textual {
		// WriteTo is specified to flush first, and a flush legitimately changes BM25
		// statistics (C03): writing must change the source exactly like Flush does
		// (compared with an independent copy that was flushed explicitly), and never
		// the set of returned ids.
		fl := s.rebuild(h)
		s.k.flush(fl)
		if d := vObsDiff(s.k.observe(fl), after); d != "" {
			s.c.Violation("write-changed-source", "beyond-flush", cfgS, h, d)
		}
		for i := range before {
			// untruncated observations only: with k < matches a score change may
			// legitimately change which ids make the cut
			if !strings.Contains(before[i].q, "k=-1") && !strings.HasPrefix(before[i].q, "hybrid") {
				continue
			}
			a := append([]uint32(nil), before[i].ids...)
			b := append([]uint32(nil), after[i].ids...)
			sort.Slice(a, func(x, y int) bool { return a[x] < a[y] })
			sort.Slice(b, func(x, y int) bool { return b[x] < b[y] })
			if fmt.Sprint(a) != fmt.Sprint(b) || before[i].err != after[i].err {
				s.c.Violation("write-changed-source", "ids", cfgS, h, fmt.Sprintf("%s: ids %v before, %v after WriteTo", before[i].q, a, b))
			}
		}
	} else if d := vObsDiff(before, after); d != "" {
		s.c.Violation("write-changed-source", "", cfgS, h, d)
	}
	dst := s.k.fresh()
	sentinel := []byte{0xAB, 0xAB, 0xAB, 0xAB, 0xAB, 0xAB, 0xAB, 0xAB}
	cr := &vCountingReader{r: bytes.NewReader(append(append([]byte(nil), buf.Bytes()...), sentinel...))}
	var n2 int64
	func() {
		defer func() {
			if r := recover(); r != nil {
				s.c.Violation("read-panic", "", cfgS, h, fmt.Sprint(r))
				err = fmt.Errorf("panic")
			}
		}()
		n2, err = s.k.read(dst, cr)
	}()
	if err != nil {
		s.c.Violation("read-error", "", cfgS, h, err.Error())
		return
	}
	if int(n2) != buf.Len() {
		s.c.Violation("read-count", "", cfgS, h, fmt.Sprintf("ReadFrom returned %d, stream has %d bytes", n2, buf.Len()))
	}
	if cr.n != buf.Len() {
		s.c.Violation("read-consumed-wrong-amount", "", cfgS, h, fmt.Sprintf("ReadFrom consumed %d bytes of a %d-byte stream followed by other data", cr.n, buf.Len()))
	}
	for id := range s.rem {
		if _, again := s.live[id]; again {
			continue
		}
		if s.k.holds(dst, id) {
			s.c.Violation("removed-id-in-stream", "", cfgS, h, fmt.Sprintf("reloaded index still holds removed id %d: %s", id, s.k.canon(dst)))
		}
	}
	loaded := s.k.observe(dst)
	if d := vObsDiff(after, loaded); d != "" {
		s.c.Violation("reload-changed-answers", "", cfgS, h, d)
	} else {
		s.vBackToBack(cfgS, h, buf.Bytes(), loaded)
	}
	if s.k.writeOne != nil {
		// the same index written with ONE writer passed for every section
		s.c.Evaluations++
		cp := s.rebuild(h)
		var one bytes.Buffer
		if err := s.k.writeOne(cp, &one); err != nil {
			s.c.Violation("write-error", "one-writer-for-all-sections", cfgS, h, err.Error())
		} else {
			r := s.k.fresh()
			var rerr error
			func() {
				defer func() {
					if p := recover(); p != nil {
						rerr = fmt.Errorf("panic: %v", p)
					}
				}()
				_, rerr = s.k.read(r, bytes.NewReader(one.Bytes()))
			}()
			if rerr != nil {
				s.c.Violation("read-error", "one-writer-for-all-sections", cfgS, h, rerr.Error())
			} else if d := vObsDiff(after, s.k.observe(r)); d != "" {
				s.c.Violation("reload-changed-answers", "one-writer-for-all-sections", cfgS, h, d)
			}
		}
	}
	// readers that deliver their last bytes TOGETHER with io.EOF (compress/gzip - what the
	// store's segment files are read through -, iotest.DataErrReader, HTTP bodies): the
	// stream is complete and must load
	if !s.untrained || s.k.train == nil {
		var zbuf bytes.Buffer
		if vHash(strings.Join(h, ";"))%4 == 0 {
			zw := gzip.NewWriter(&zbuf)
			zw.Write(buf.Bytes())
			zw.Close()
		}
		readers := map[string]func() io.Reader{
			"iotest.DataErrReader": func() io.Reader { return iotest.DataErrReader(bytes.NewReader(buf.Bytes())) },
		}
		if vHash(strings.Join(h, ";"))%4 == 0 {
			// (every fourth state: the two readers behave alike at the end of the stream)
			readers["gzip.Reader"] = func() io.Reader {
				zr, _ := gzip.NewReader(bytes.NewReader(zbuf.Bytes()))
				return zr
			}
		}
		for name, mk := range readers {
			r := s.k.fresh()
			var rerr error
			func() {
				defer func() {
					if p := recover(); p != nil {
						rerr = fmt.Errorf("panic: %v", p)
					}
				}()
				_, rerr = s.k.read(r, mk())
			}()
			s.c.Evaluations++
			if rerr != nil {
				s.c.Violation("read-error", "reader-that-returns-data-with-EOF:"+name, cfgS, h, rerr.Error())
			} else if d := vObsDiff(after, s.k.observe(r)); d != "" {
				s.c.Violation("reload-changed-answers", "reader-that-returns-data-with-EOF:"+name, cfgS, h, d)
			}
		}
	}
	// the receiver need not be fresh: an index that holds other documents and has already
	// answered every observation query (whatever it remembers of them) reads the stream
	// and must from then on answer like the source (ReadFrom replaces the content)
	if !s.untrained {
		used := vSerPopulated(s.k)
		s.k.observe(used)
		var uerr error
		func() {
			defer func() {
				if r := recover(); r != nil {
					uerr = fmt.Errorf("panic: %v", r)
				}
			}()
			_, uerr = s.k.read(used, bytes.NewReader(buf.Bytes()))
		}()
		s.c.Evaluations++
		if uerr != nil {
			s.c.Violation("read-error", "used-receiver", cfgS, h, uerr.Error())
		} else if d := vObsDiff(after, s.k.observe(used)); d != "" {
			s.c.Violation("reload-changed-answers", "used-receiver", cfgS, h, d)
		}
	}
	if len(s.live) > 0 {
		s.c.Nontrivial(cfgS + "|" + s.k.canon(s.src))
	}
	s.c.Outcome(fmt.Sprint(buf.Len()))
	if s.untrained {
		// continuation from the untrained / empty state: train (if the kind trains),
		// add, remove, flush on the original and on the reloaded index in lock-step
		if s.k.train != nil {
			s.c.Evaluations++
			a := s.src
			func() {
				defer func() {
					if r := recover(); r != nil {
						s.c.Violation("continuation-panic", "after-untrained-reload", cfgS, h, fmt.Sprint(r))
					}
				}()
				ea, eb := s.k.train(a), s.k.train(dst)
				if (ea == nil) != (eb == nil) {
					s.c.Violation("continuation-diverges", "train-result", cfgS, h, fmt.Sprintf("Train after reload: source %v, reloaded %v", ea, eb))
					return
				}
				for step, op := range []vOp{{K: "Add", A: 1, B: 0}, {K: "Add", A: 2, B: 1}, {K: "Add", A: 3, B: 2 % s.k.nvals}, {K: "Remove", A: 2}, {K: "Flush"}} {
					ea, eb = s.applyTo(a, op), s.applyTo(dst, op)
					if (ea == nil) != (eb == nil) {
						s.c.Violation("continuation-diverges", "op-result", cfgS, h, fmt.Sprintf("after untrained reload + Train, step %d %v: source %v, reloaded %v", step, op, ea, eb))
						return
					}
					if d := vObsDiff(s.k.observe(a), s.k.observe(dst)); d != "" {
						s.c.Violation("continuation-diverges", "answers", cfgS, h, fmt.Sprintf("after untrained reload + Train, step %d %v: %s", step, op, d))
						return
					}
				}
				s.c.Nontrivial(cfgS + "|untrained-continuation")
			}()
		}
		return
	}
	// continuation: every op of the alphabet on source and reloaded in lock-step
	var rec func(depth int, path []vOp)
	rec = func(depth int, path []vOp) {
		if depth == 0 {
			return
		}
		// enabled ops in the state after h+path (model replay)
		m := &vSerSys{c: s.c, k: s.k, mode: "none", maxN: s.maxN + s.contDepth}
		m.Reset()
		for _, hs := range h {
			m.Apply(vParseOp(hs), nil, false)
		}
		for _, o := range path {
			m.Apply(o, nil, false)
		}
		for _, op := range m.Enabled() {
			s.c.Evaluations++
			a := s.rebuild(h)
			var b2 bytes.Buffer
			s.k.write(a, &b2)
			b := s.k.fresh()
			if _, err := s.k.read(b, bytes.NewReader(b2.Bytes())); err != nil {
				return
			}
			var ea, eb error
			for _, o := range append(append([]vOp{}, path...), op) {
				ea = s.applyTo(a, o)
				func() {
					defer func() {
						if r := recover(); r != nil {
							eb = fmt.Errorf("panic: %v", r)
							s.c.Violation("continuation-panic", "", cfgS, h, fmt.Sprintf("after reload, %v: %v", append(path, op), r))
						}
					}()
					eb = s.applyTo(b, o)
				}()
			}
			if (ea == nil) != (eb == nil) {
				s.c.Violation("continuation-diverges", "op-result", cfgS, h, fmt.Sprintf("after reload, %v: source returned %v, reloaded returned %v", append(path, op), ea, eb))
				continue
			}
			if d := vObsDiff(s.k.observe(a), s.k.observe(b)); d != "" {
				s.c.Violation("continuation-diverges", "answers", cfgS, h, fmt.Sprintf("after reload, %v: %s", append(path, op), d))
			}
			rec(depth-1, append(append([]vOp{}, path...), op))
		}
	}
	rec(s.contDepth, nil)
}

// prefixes: C16 (1) — every strict prefix of the serialisation must be rejected.
func (s *vSerSys) prefixes(h []string) {
	cfgS := s.k.name
	if s.untrained {
		cfgS += " untrained"
	}
	var buf bytes.Buffer
	if _, err := s.k.write(s.src, &buf); err != nil {
		s.c.Violation("write-error", "", cfgS, h, err.Error())
		return
	}
	data := buf.Bytes()
	// every prefix through a reader that is NOTHING BUT an io.Reader (no Len, no ReadByte, a
	// clean EOF at the cut: a truncated file, a LimitReader, a gzip stream of truncated
	// data); every seventh prefix and the last 64 also through a *bytes.Reader (which
	// tells its remaining length to whoever asks)
	for l := 0; l < len(data); l++ {
		accepted := false
		for ri := 0; ri < 2 && !accepted; ri++ {
			if ri == 1 && l%7 != 0 && l < len(data)-64 {
				continue
			}
			var rd io.Reader = struct{ io.Reader }{bytes.NewReader(data[:l])}
			kind := "plain io.Reader"
			if ri == 1 {
				rd, kind = bytes.NewReader(data[:l]), "*bytes.Reader"
			}
			s.c.Evaluations++
			dst := s.k.fresh()
			var err error
			func() {
				defer func() {
					if r := recover(); r != nil {
						s.c.Violation("prefix-panic", "", cfgS, h, fmt.Sprintf("prefix %d of %d bytes (%s): %v", l, len(data), kind, r))
						err = fmt.Errorf("panic")
					}
				}()
				_, err = s.k.read(dst, rd)
			}()
			if err == nil {
				s.c.Violation("prefix-accepted", "", cfgS, h, fmt.Sprintf("prefix of %d bytes of a %d-byte stream (%s) was read without error; receiver now: %s", l, len(data), kind, s.k.canon(dst)))
				accepted = true
			}
		}
		if accepted {
			break
		}
		s.c.Nontrivial(fmt.Sprintf("%s|%x|%d", cfgS, vHash(string(data)), l))
	}
	s.c.Outcome(fmt.Sprint(len(data)))
}

func (s *vSerSys) Key() string { return s.keyCanon() + "#deep" + vDeepHash(s.src) }

func (s *vSerSys) keyCanon() string {
	return fmt.Sprintf("%s|%s|w%v|t%v", s.k.name, s.k.canon(s.src), s.written, s.retrained)
}

func vSerShards(mode, tier string) []vShard {
	var sh []vShard
	maxN, depth, cont := 3, 4, 1
	if tier == "thorough" {
		maxN, depth, cont = 3, 6, 2
	}
	for _, k := range vSerKinds(tier) {
		k := k
		sh = append(sh, vShard{Name: strings.ReplaceAll(k.name, " ", ","), Run: func(c *vCtx) {
			// untrained / empty receiver states first
			u := &vSerSys{c: c, k: k, mode: mode, untrained: true}
			u.Reset()
			if mode == "c07" {
				u.roundTrip(nil)
			} else {
				u.prefixes(nil)
			}
			c.NewState(u.Key() + "untrained")
			c.Transitions++
			c.Traces++
			kc := cont
			if strings.HasPrefix(k.name, "kind=bm25") || strings.HasPrefix(k.name, "kind=metadata") {
				kc = 2 // cheap kinds: two continuation steps also in quick
			}
			s := &vSerSys{c: c, k: k, mode: mode, maxN: maxN, contDepth: kc}
			s.Reset()
			if mode == "c07" {
				s.roundTrip(nil)
			} else {
				s.prefixes(nil)
			}
			vBFS(c, s, depth)
			// size sweep: every n in 1..maxSweep, every third removed (not flushed)
			maxSweep := 40
			if tier == "thorough" {
				maxSweep = 150
			}
			for n := 4; n <= maxSweep; n++ {
				if c.Expired() {
					return
				}
				if k.hnsw && n > k.ef {
					break // beyond ef the graph search is approximate and a flush may change answers
				}
				w := &vSerSys{c: c, k: k, mode: mode, maxN: n + 1, contDepth: 0}
				w.Reset()
				var hist []vOp
				for i := 0; i < n; i++ {
					op := vOp{K: "Add", A: i + 1, B: i % k.nvals}
					w.Apply(op, hist, false)
					hist = append(hist, op)
				}
				for i := 2; i < n; i += 3 {
					op := vOp{K: "Remove", A: i + 1}
					w.Apply(op, hist, i+3 >= n && mode == "c07")
					hist = append(hist, op)
				}
				if mode == "c16" && n%4 == 0 {
					w.prefixes(vHistStrings(hist))
				}
				c.Transitions += int64(len(hist))
				c.Traces++
				c.NewState(fmt.Sprintf("%s sweep %d", k.name, n))
			}
		}})
	}
	if mode == "c07" {
		// text kinds whose value alphabet is special: very long terms, hash-colliding terms.
		// All documents of the alphabet are added (in order), every third removed, then the
		// state is round-tripped after each step.
		for _, k := range vSerSpecialTextKinds(tier) {
			k := k
			sh = append(sh, vShard{Name: strings.ReplaceAll(k.name, " ", ","), Run: func(c *vCtx) { vSerSpecialRun(c, k, mode) }})
		}
		// the dimension as a size parameter (five vectors, histories of depth 2)
		for _, cfg := range vSerDimCfgs(tier) {
			k := vSerVecKind(cfg)
			sh = append(sh, vShard{Name: "dims/" + strings.ReplaceAll(k.name, " ", ","), Run: func(c *vCtx) {
				s := &vSerSys{c: c, k: k, mode: mode, maxN: 2, contDepth: 0}
				s.Reset()
				s.roundTrip(nil)
				vBFS(c, s, 2)
			}})
		}
	}
	return sh
}

func vSerSpecialTextKinds(tier string) []*vSerKind {
	var out []*vSerKind
	groups := [][]int{{255, 256, 257}, {4095, 4096, 4097}, {65535, 65536, 65537}, {70000, 131073}}
	if tier == "thorough" {
		groups = append(groups, []int{1<<20 - 1, 1<<20 + 1})
	}
	for _, g := range groups {
		t, q := vSerLongTexts(g)
		out = append(out, vSerTextKindWith(fmt.Sprintf("kind=bm25 long-terms=%v", g), t, q))
	}
	t, q := vSerCollidingTexts()
	out = append(out, vSerTextKindWith("kind=bm25 colliding-terms", t, q))
	return out
}

func vSerSpecialRun(c *vCtx, k *vSerKind, mode string) {
	w := &vSerSys{c: c, k: k, mode: mode, maxN: k.nvals + 1, contDepth: 0}
	w.Reset()
	var hist []vOp
	for i := 0; i < k.nvals; i++ {
		op := vOp{K: "Add", A: i + 1, B: i}
		w.Apply(op, hist, true)
		hist = append(hist, op)
	}
	for i := 2; i < k.nvals; i += 3 {
		op := vOp{K: "Remove", A: i + 1}
		w.Apply(op, hist, true)
		hist = append(hist, op)
	}
	op := vOp{K: "Flush"}
	w.Apply(op, hist, true)
	hist = append(hist, op)
	c.Transitions += int64(len(hist))
	c.Traces++
	c.NewState(k.name)
	c.Bound = "special text alphabets: all documents added, every third removed, flush; round trip after every step"
}

func vSerReplay(mode string) func(c *vCtx, v *vViolation) bool {
	return func(c *vCtx, v *vViolation) bool {
		name := strings.TrimSuffix(v.Config, " untrained")
		for _, k := range vSerSpecialTextKinds("thorough") {
			if k.name == name {
				vSerSpecialRun(c, k, mode)
				_, ok := c.viol[v.Sig()]
				return ok
			}
		}
		kinds := vSerKinds("thorough")
		for _, cfg := range vSerDimCfgs("thorough") {
			kinds = append(kinds, vSerVecKind(cfg))
		}
		for _, k := range kinds {
			if k.name != name {
				continue
			}
			s := &vSerSys{c: c, k: k, mode: mode, maxN: 3, contDepth: 2, untrained: strings.HasSuffix(v.Config, " untrained")}
			s.Reset()
			if len(v.History) == 0 {
				if mode == "c07" {
					s.roundTrip(nil)
				} else {
					s.prefixes(nil)
				}
			} else {
				vReplayHist(s, v.History)
			}
		}
		_, ok := c.viol[v.Sig()]
		return ok
	}
}

func init() {
	vRegister(&vCheck{
		ID: "C07", Level: "model_checking", Engine: "histmc",
		Rule:        "For each of the eight kinds (several parameterisations each; hybrid with 4-8 sub-index presence patterns) BFS over Add/Remove/Flush histories (plus the untrained/empty state); in every reached state: WriteTo byte count == stream length, source answers unchanged by writing, ReadFrom into a FRESH index through a counting reader over stream++sentinel returns and consumes exactly the stream length, removed ids absent from the reloaded private state, every observation of the reloaded index == source (tie-tolerant, float tolerance), and every operation of the alphabet applied in lock-step to source and reloaded index for 1 (quick) / 2 (thorough) further steps yields the same results. Hybrid: four writers, one concatenated reader. Non-trivial = distinct (kind, non-empty state). Hybrid kinds are additionally written with ONE writer handed over for all four sections and reloaded from that stream.",
		Assumptions: []string{"node-id queries are not used (PQ/IVFPQ do not persist raw vectors)", "hnsw states are inside the exactness regime (ef >= nodes), so a flush-on-write does not change answers"},
		Shards:      func(tier string) []vShard { return vSerShards("c07", tier) },
		Replay:      vSerReplay("c07"),
	})
}
