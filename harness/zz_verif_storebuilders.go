//go:build verif && verifl2

package comet

// Search-object histories (zz_verif_builders.go) for the search object of the persistent
// store. The base state keeps every document in memtables (no segment exists, so that no
// execution loads a segment: the known shared-template finding cannot interfere); the
// index-level steps add, remove and rotate.

import "fmt"

// the one live execution environment of the store builder systems (a new system must end
// the previous system's execution before it begins its own)
var vStoreBuilderEnv *vStoreEnv

func vStoreBuilderSys(mem int, state int) *vBuilderSys[HybridSearch] {
	var env *vStoreEnv
	var st *PersistentHybridIndex
	cfg := vStoreCfg{Mem: mem, Thr: 1, Comp: 1000, Tmpl: "vtm", Vec: "flat"}
	metas := vMetaBuilderDocs()
	vecs := [][]float32{{1, 0.5}, {2, 1.75}, {0.25, 3}, {4, 4.5}, {-1, -2.25}, {6, 1.25}}
	q0, q1 := []float32{0.125, 0.25}, []float32{3, 3.375}
	sys := &vBuilderSys[HybridSearch]{What: "store search object", Config: fmt.Sprintf("store mem=%d builder-state=%d", mem, state)}
	sys.Setup = func() func() HybridSearch {
		if vStoreBuilderEnv != nil {
			vStoreBuilderEnv.end()
		}
		env = vStoreBegin(nil, nil)
		vStoreBuilderEnv = env
		var err error
		st, err = env.open(cfg.config())
		if err != nil || env.dead != "" {
			panic(fmt.Sprintf("store builder setup: %v %s", err, env.dead))
		}
		n := 4
		if state == 0 {
			n = 0
		}
		env.do(func() {
			for i := 0; i < n; i++ {
				st.AddWithID(uint32(i+1), vCopyVec(vecs[i]), vBuilderTexts[i], metas[i])
			}
			if state >= 2 {
				st.Remove(2)
			}
		})
		return func() HybridSearch { return st.NewSearch() }
	}
	sys.Base = func(s HybridSearch) HybridSearch { return s.WithVector(vCopyVec(q0)).WithK(100) }
	sys.Exec = func(s HybridSearch) ([]vIDScore, error) {
		var r []HybridSearchResult
		var err error
		env.do(func() { r, err = s.Execute() })
		if env.dead != "" {
			return nil, fmt.Errorf("execution aborted: %s", env.dead)
		}
		return vIDScores(r), err
	}
	obj := func(name string, f func(s HybridSearch) HybridSearch) {
		sys.Menu = append(sys.Menu, vBStep[HybridSearch]{Name: name, Do: f})
	}
	ix := func(name string, f func()) {
		sys.Menu = append(sys.Menu, vBStep[HybridSearch]{Name: name, Idx: func() { env.do(f) }})
	}
	obj("WithVector(q1)", func(s HybridSearch) HybridSearch { return s.WithVector(vCopyVec(q1)) })
	obj("WithVector(nil)", func(s HybridSearch) HybridSearch { return s.WithVector(nil) })
	obj("WithText(apple)", func(s HybridSearch) HybridSearch { return s.WithText("apple") })
	obj("WithText()", func(s HybridSearch) HybridSearch { return s.WithText() })
	obj("WithMetadata(cat=a)", func(s HybridSearch) HybridSearch { return s.WithMetadata(Eq("cat", "a")) })
	obj("WithMetadata(n>=1)", func(s HybridSearch) HybridSearch { return s.WithMetadata(Gte("n", 1)) })
	obj("WithMetadata()", func(s HybridSearch) HybridSearch { return s.WithMetadata() })
	obj("WithMetadataGroups(cat=b | n<0)", func(s HybridSearch) HybridSearch {
		return s.WithMetadataGroups(&FilterGroup{Filters: []Filter{Eq("cat", "b")}, Logic: AND}, &FilterGroup{Filters: []Filter{Lt("n", 0)}, Logic: AND})
	})
	obj("WithMetadataGroups()", func(s HybridSearch) HybridSearch { return s.WithMetadataGroups() })
	obj("WithK(1)", func(s HybridSearch) HybridSearch { return s.WithK(1) })
	obj("WithK(3)", func(s HybridSearch) HybridSearch { return s.WithK(3) })
	obj("WithFusionKind(max)", func(s HybridSearch) HybridSearch { return s.WithFusionKind(MaxFusion) })
	obj("WithThreshold(3)", func(s HybridSearch) HybridSearch { return s.WithThreshold(3) })
	obj("WithThreshold(0)", func(s HybridSearch) HybridSearch { return s.WithThreshold(0) })
	ix("other object: cat=b executes", func() {
		st.NewSearch().WithVector(vCopyVec(q1)).WithMetadata(Eq("cat", "b")).WithK(2).Execute()
	})
	ix("store.AddWithID(5)", func() { st.AddWithID(5, vCopyVec(vecs[4]), vBuilderTexts[4], metas[4]) })
	ix("store.AddWithID(6)", func() { st.AddWithID(6, vCopyVec(vecs[5]), vBuilderTexts[5], metas[5]) })
	ix("store.Remove(1)", func() { st.Remove(1) })
	ix("rotate", func() { st.memtableQueue.Rotate() })
	return sys
}

func vStoreBuilderShard(c *vCtx, mem int, depth int) {
	for _, state := range []int{2, 1, 0} {
		vBuilderMC(c, vStoreBuilderSys(mem, state), depth)
	}
	if vStoreBuilderEnv != nil {
		vStoreBuilderEnv.end()
		vStoreBuilderEnv = nil
	}
	c.Bound = fmt.Sprintf("store search-object histories: every sequence of <= %d steps over the menu, 3 base states", depth)
}

func init() {
	prev := vClassReplay["search-object-history"]
	vClassReplay["search-object-history"] = func(c *vCtx, v *vViolation) bool {
		var mem, state int
		if n, _ := fmt.Sscanf(v.Config, "store mem=%d builder-state=%d", &mem, &state); n == 2 {
			return vBuilderReplayOn(c, vStoreBuilderSys(mem, state), v)
		}
		return prev(c, v)
	}
}
