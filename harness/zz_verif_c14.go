//go:build verif

package comet

// C14 — PQ and IVFPQ rank by exact asymmetric distance to each vector's quantised
// form, for every code size the constructors accept.

import (
	"fmt"
	"math"
	"sort"
	"strings"
)

// vLattice is a deterministic training set with pairwise distinct sub-vectors in
// every subspace (odd multipliers are injective modulo a power of two).
func vLattice(dim, n int) [][]float32 {
	out := make([][]float32, n)
	for i := 0; i < n; i++ {
		v := make([]float32, dim)
		for j := 0; j < dim; j++ {
			v[j] = float32((i*(2*j+1))%n-n/2) * 0.25
		}
		out[i] = v
	}
	return out
}

func vPreprocessed64(metric DistanceKind, v []float32) []float64 { return vPreprocess64(metric, v) }

func vC14Hook(s *vKindSys, h []string) {
	mkey := s.m.key()
	type entry struct {
		id       uint32
		vec      []float32 // stored (preprocessed) vector
		code     []uint8
		centroid []float32
		list     int
	}
	var entries []entry
	var codebooks [][]float32
	var dsub, ksub int
	var centroids [][]float32
	switch x := s.idx.(type) {
	case *PQIndex:
		codebooks, dsub, ksub = x.codebooks, x.dsub, x.Ksub
		for i, n := range x.vectorNodes {
			entries = append(entries, entry{id: n.ID(), vec: n.Vector(), code: x.codes[i], list: -1})
		}
	case *IVFPQIndex:
		codebooks, dsub, ksub = x.codebooks, x.dsub, x.Ksub
		centroids = x.centroids
		for li, l := range x.lists {
			for _, cv := range l {
				entries = append(entries, entry{id: cv.Node.ID(), vec: cv.Node.Vector(), code: cv.Code, centroid: x.centroids[li], list: li})
			}
		}
	}
	where := map[uint32]int{}
	recon := map[uint32][]float64{}
	qerr := map[uint32]float64{}
	for _, e := range entries {
		s.c.Evaluations++
		where[e.id] = e.list
		if e.vec == nil {
			continue
		}
		// (1) each code is (one of) the nearest codeword(s) of the (residual) sub-vector
		rc := make([]float64, len(e.vec))
		for m := range e.code {
			sub := make([]float64, dsub)
			for j := 0; j < dsub; j++ {
				sub[j] = float64(e.vec[m*dsub+j])
				if e.centroid != nil {
					sub[j] -= float64(e.centroid[m*dsub+j])
				}
			}
			dist := func(k int) float64 {
				d := 0.0
				for j := 0; j < dsub; j++ {
					x := sub[j] - float64(codebooks[m][k*dsub+j])
					d += x * x
				}
				return d
			}
			best := math.Inf(1)
			for k := 0; k < ksub; k++ {
				if d := dist(k); d < best {
					best = d
				}
			}
			got := dist(int(e.code[m]))
			if got > best+1e-5*math.Max(vXFUnit(s.cfg.Metric, 2), best) {
				cause := ""
				if ksub > 256 {
					cause = "code-does-not-fit-uint8"
				}
				s.c.Violation("code-is-not-nearest-codeword", cause, s.cfgS, h, fmt.Sprintf("id %d subspace %d: code %d at squared distance %v, nearest codeword at %v (Ksub=%d)", e.id, m, e.code[m], got, best, ksub))
			}
			for j := 0; j < dsub; j++ {
				rc[m*dsub+j] = float64(codebooks[m][int(e.code[m])*dsub+j])
				if e.centroid != nil {
					rc[m*dsub+j] += float64(e.centroid[m*dsub+j])
				}
			}
		}
		recon[e.id] = rc
		qe := 0.0
		for j := range rc {
			x := float64(e.vec[j]) - rc[j]
			qe += x * x
		}
		qerr[e.id] = math.Sqrt(qe)
	}
	// (4),(5): every reported score is within the quantisation error of the true
	// Euclidean distance between preprocessed query and preprocessed vector
	qa := s.qa
	for qi, q := range qa {
		qp := vPreprocess64(s.cfg.Metric, q)
		res, err := vRunVecQuery(s.idx, vVecQuery{Q: q, K: -1, NProb: -1})
		if err != nil {
			s.c.Violation("search-error", "", s.cfgS, h, err.Error())
			continue
		}
		for _, r := range res {
			s.c.Evaluations++
			id := r.Node.ID()
			sv := vStoredVector(s.idx, id)
			if sv == nil {
				continue
			}
			eu := 0.0
			for j := range qp {
				x := qp[j] - float64(sv[j])
				eu += x * x
			}
			eu = math.Sqrt(eu)
			tol := 1e-5 * math.Max(math.Max(vXFUnit(s.cfg.Metric, 1), eu), math.Max(qerr[id], float64(r.Score)))
			if math.Abs(float64(r.Score)-eu) > qerr[id]+tol {
				s.c.Violation("score-outside-quantisation-error", "", s.cfgS, h, fmt.Sprintf("q=%v id %d: score %v, Euclidean distance %v, quantisation error %v", q, id, r.Score, eu, qerr[id]))
			}
			if qerr[id] == 0 {
				s.c.Nontrivial(fmt.Sprintf("%s|%s|exactrep%d/%d", s.cfgS, mkey, qi, id))
			}
			s.c.Nontrivial(fmt.Sprintf("%s|%s|bound%d/%d", s.cfgS, mkey, qi, id))
		}
	}
	// a query AT the quantised form of a stored vector (Euclidean family: the query is used as
	// given): its score is 0 up to rounding, so it is returned under any positive threshold,
	// however far the quantised form lies from everything that was ever trained on or added
	if s.cfg.Metric != Cosine {
		ids := make([]int, 0, len(recon))
		for id := range recon {
			if _, live := s.m.live[id]; live {
				ids = append(ids, int(id))
			}
		}
		sort.Ints(ids)
		for _, id := range ids {
			rc := recon[uint32(id)]
			q := make([]float32, len(rc))
			nq := 0.0
			for j := range rc {
				q[j] = float32(rc[j])
				nq += rc[j] * rc[j]
			}
			thr := float32(1e-3 * math.Max(vXFUnit(s.cfg.Metric, 1), nq))
			s.c.Evaluations++
			res, err := vRunVecQuery(s.idx, vVecQuery{Q: q, K: -1, Thr: thr, NProb: -1})
			if err != nil {
				s.c.Violation("search-error", "", s.cfgS, h, err.Error())
				continue
			}
			found := false
			for _, r := range res {
				if r.Node.ID() == uint32(id) {
					found = true
				}
			}
			if !found {
				s.c.Violation("query-at-quantised-form-misses-its-vector", "", s.cfgS, h, fmt.Sprintf("query %v is the reconstruction of live id %d (score 0 up to rounding); threshold %v, all lists probed: got [%s]", q, id, thr, vResStr(res)))
			}
			s.c.Nontrivial(fmt.Sprintf("%s|%s|atrecon%d", s.cfgS, mkey, id))
		}
	}
	// partial probe (ivfpq): exact top-k by ADC score within a valid set of p nearest clusters
	x, isIvfpq := s.idx.(*IVFPQIndex)
	if !isIvfpq || s.cfg.NList < 2 {
		return
	}
	for qi, q := range qa {
		pq, err := x.distance.Preprocess(vCopyVec(q))
		if err != nil {
			continue
		}
		cd := make([]float32, len(centroids))
		for i, c := range centroids {
			cd[i] = x.distance.Calculate(pq, c)
		}
		for _, k := range []int{-1, 1, 2} {
			for p := 1; p < s.cfg.NList; p++ {
				s.c.Evaluations++
				vq := vVecQuery{Q: q, K: k, NProb: p}
				res, err := vRunVecQuery(s.idx, vq)
				if err != nil {
					s.c.Violation("search-error", "", s.cfgS, h, err.Error())
					continue
				}
				ok := false
				msgs := ""
				for _, set := range vIvfProbeSets(cd, p) {
					in := map[int]bool{}
					for _, li := range set {
						in[li] = true
					}
					sub := map[uint32][]float32{}
					for id, v := range s.m.live {
						if li, stored := where[id]; stored && in[li] {
							sub[id] = v
						}
					}
					cands, _ := vEligible(s.cfg.Metric, sub, vq, false, s.scoreOf(q))
					if msg := vAcceptExact(res, cands, k); msg == "" {
						ok = true
						break
					} else {
						msgs += fmt.Sprintf("[clusters %v: %s] ", set, msg)
					}
				}
				if !ok {
					s.c.Violation("partial-probe-not-exact-within-nearest-clusters", "", s.cfgS, h, fmt.Sprintf("%s centroid distances %v: %s got [%s]", vq.String(), cd, msgs, vResStr(res)))
				}
				if len(s.m.live) > 0 {
					s.c.Nontrivial(fmt.Sprintf("%s|%s|pp%d/%d/%d", s.cfgS, mkey, qi, k, p))
				}
			}
		}
	}
}

type vC14Cfg struct {
	vVecCfg
	TrainN int
}

// vC14TrainBoundary probes both Train preconditions at their boundary: Train must
// either fail cleanly or produce an index on which the property holds; never panic.
func vC14TrainBoundary(c *vCtx, cfg vVecCfg) {
	ksub := 1 << cfg.NBits
	sizes := map[int]bool{ksub - 1: true, ksub: true, ksub + 1: true}
	if cfg.Kind == "ivfpq" {
		sizes[cfg.NList*10-1] = true
		sizes[cfg.NList*10] = true
	}
	for n := range sizes {
		if n <= 0 {
			continue
		}
		cfgS := fmt.Sprintf("%s trainN=%d", cfg.String(), n)
		c.Evaluations++
		c.Traces++
		c.Transitions++
		var idx VectorIndex
		var err error
		if cfg.Kind == "pq" {
			idx, err = NewPQIndex(cfg.Dim, cfg.Metric, cfg.M, cfg.NBits)
		} else {
			idx, err = NewIVFPQIndex(cfg.Dim, cfg.Metric, cfg.NList, cfg.M, cfg.NBits)
		}
		if err != nil {
			continue
		}
		ts := vLattice(cfg.Dim, n)
		if cfg.Train == -3 {
			for _, v := range ts {
				for j := range v {
					v[j] += 1000
				}
			}
		}
		nodes := make([]VectorNode, n)
		for i := range ts {
			nodes[i] = *NewVectorNodeWithID(uint32(1000+i), ts[i])
		}
		func() {
			defer func() {
				if r := recover(); r != nil {
					cause := ""
					if n < ksub {
						cause = "fewer-training-vectors-than-codewords"
					}
					c.Violation("train-panic", cause, cfgS, []string{fmt.Sprintf("Train(%d vectors)", n)}, fmt.Sprint(r))
				}
			}()
			terr := idx.Train(nodes)
			if terr == nil && !idx.Trained() {
				c.Violation("train-ok-but-untrained", "", cfgS, nil, "Train returned nil but Trained() is false")
			}
			if terr == nil {
				// the accepted size must yield a working index: run a depth-2 exploration on it
				s := newKindSys(c, cfg, 2)
				s.train = ts
				s.cfgS = cfgS
				s.hook = vC14Hook
				s.noMulti = true
				vBFS(c, s, 2)
			}
			c.Nontrivial(cfgS)
		}()
	}
}

func vC14Configs(tier string) []vVecCfg {
	var out []vVecCfg
	dims := []int{2}
	metrics := []DistanceKind{Euclidean, Cosine}
	if tier == "thorough" {
		dims = []int{2, 4}
		metrics = []DistanceKind{Euclidean, L2Squared, Cosine}
	}
	for _, metric := range metrics {
		for _, d := range dims {
			for _, m := range []int{1, 2} {
				for nb := 1; nb <= 16; nb++ {
					if tier != "thorough" && nb > 10 {
						continue
					}
					if tier != "thorough" && (nb == 5 || nb == 6 || nb == 7) && m == 1 {
						continue
					}
					out = append(out, vVecCfg{Kind: "pq", Metric: metric, Dim: d, M: m, NBits: nb, Train: -2})
					for _, nl := range []int{1, 2} {
						if tier != "thorough" && nl == 1 && m == 1 {
							continue
						}
						out = append(out, vVecCfg{Kind: "ivfpq", Metric: metric, Dim: d, NList: nl, M: m, NBits: nb, Train: -2})
					}
				}
			}
		}
	}
	// data with a large common offset (Euclidean family only: cosine normalises it away)
	for _, metric := range []DistanceKind{Euclidean, L2Squared} {
		for _, nb := range []int{2, 4} {
			out = append(out, vVecCfg{Kind: "pq", Metric: metric, Dim: 2, M: 2, NBits: nb, Train: -3})
			out = append(out, vVecCfg{Kind: "pq", Metric: metric, Dim: 4, M: 2, NBits: nb, Train: -3})
			out = append(out, vVecCfg{Kind: "ivfpq", Metric: metric, Dim: 2, NList: 2, M: 1, NBits: nb, Train: -3})
		}
	}
	// data with one exactly constant subspace (Euclidean family: cosine normalises it away)
	for _, metric := range []DistanceKind{Euclidean, L2Squared} {
		out = append(out, vVecCfg{Kind: "ivfpq", Metric: metric, Dim: 4, NList: 2, M: 2, NBits: 2, Train: -4})
		out = append(out, vVecCfg{Kind: "pq", Metric: metric, Dim: 4, M: 2, NBits: 2, Train: -4})
	}
	out = append(out, vVecCfg{Kind: "ivfpq", Metric: Euclidean, Dim: 6, NList: 2, M: 3, NBits: 1, Train: -4})
	// sparse-large / dense-medium mixtures, few codewords per subspace
	for _, metric := range []DistanceKind{Euclidean, L2Squared} {
		out = append(out, vVecCfg{Kind: "ivfpq", Metric: metric, Dim: 4, NList: 2, M: 4, NBits: 2, Train: -5})
		out = append(out, vVecCfg{Kind: "ivfpq", Metric: metric, Dim: 4, NList: 2, M: 2, NBits: 2, Train: -5})
		out = append(out, vVecCfg{Kind: "ivfpq", Metric: metric, Dim: 6, NList: 2, M: 6, NBits: 2, Train: -5})
	}
	// wide subspaces (dim/M = 8, 10, 16, 24): per-subspace loops longer than any unrolling width
	for _, metric := range metrics {
		out = append(out, vVecCfg{Kind: "pq", Metric: metric, Dim: 8, M: 1, NBits: 2, Train: -2})
		out = append(out, vVecCfg{Kind: "pq", Metric: metric, Dim: 20, M: 2, NBits: 3, Train: -2})
		out = append(out, vVecCfg{Kind: "ivfpq", Metric: metric, Dim: 16, NList: 2, M: 2, NBits: 2, Train: -2})
		out = append(out, vVecCfg{Kind: "ivfpq", Metric: metric, Dim: 24, NList: 2, M: 1, NBits: 1, Train: -2})
		out = append(out, vVecCfg{Kind: "pq", Metric: metric, Dim: 32, M: 2, NBits: 2, Train: -2})
	}
	// larger numbers of subspaces (M = 3..8, one or two components each): table / code
	// indexing per subspace
	for _, metric := range metrics {
		for m := 3; m <= 8; m++ {
			dimsM := []int{m}
			if tier == "thorough" {
				dimsM = []int{m, 2 * m}
			}
			for _, d := range dimsM {
				for _, nb := range []int{1, 3} {
					out = append(out, vVecCfg{Kind: "pq", Metric: metric, Dim: d, M: m, NBits: nb, Train: -2})
					out = append(out, vVecCfg{Kind: "ivfpq", Metric: metric, Dim: d, NList: 2, M: m, NBits: nb, Train: -2})
				}
			}
		}
	}
	// many subspaces (M beyond any unrolling width and not a multiple of it): every M in
	// 9..17 (quick: one parameterisation each), 20, 24, 31, 32, 33
	ms := []int{9, 10, 11, 12, 13, 14, 15, 16, 17, 20, 24, 31, 32, 33}
	for i, m := range ms {
		metric := []DistanceKind{Euclidean, L2Squared, Cosine}[i%3]
		if tier != "thorough" && metric == L2Squared {
			metric = Euclidean
		}
		out = append(out, vVecCfg{Kind: "ivfpq", Metric: metric, Dim: 2 * m, NList: 2, M: m, NBits: 2, Train: -2})
		out = append(out, vVecCfg{Kind: "pq", Metric: metric, Dim: m, M: m, NBits: 1, Train: -2})
		if tier == "thorough" {
			out = append(out, vVecCfg{Kind: "ivfpq", Metric: Euclidean, Dim: m, NList: 1, M: m, NBits: 3, Train: -2})
			out = append(out, vVecCfg{Kind: "pq", Metric: Cosine, Dim: 2 * m, M: m, NBits: 2, Train: -2})
		}
	}
	return out
}

func vC14Sys(c *vCtx, cfg vVecCfg) *vKindSys {
	n := 1 << cfg.NBits
	if cfg.Kind == "ivfpq" && cfg.NList*10 > n {
		n = cfg.NList * 10
	}
	s := newKindSys(c, cfg, 3)
	s.train = vXFVecs(vLattice(cfg.Dim, n))
	if cfg.Train == -3 {
		for _, v := range s.train {
			for j := range v {
				v[j] += 1000
			}
		}
	}
	if cfg.Train == -4 {
		// every training vector carries the same sub-vector in the whole LAST subspace (a bias
		// feature, a constant tag embedding): that subspace's residuals are exactly constant,
		// its codebook degenerates to one point, the list centroids are non-zero there
		dsub := cfg.Dim / cfg.M
		for _, v := range s.train {
			for j := cfg.Dim - dsub; j < cfg.Dim; j++ {
				v[j] = []float32{0.75, -0.5}[(j-(cfg.Dim-dsub))%2]
			}
		}
	}
	if cfg.Train == -5 {
		// a mixture of "sparse-large" vectors (one coordinate +-10, the rest 0) and
		// "dense-medium" ones (every coordinate +-6): with few codewords per subspace the zeros
		// of the sparse vectors are rounded OUTWARD in several subspaces at once, so quantised
		// forms lie farther from their list centroid than any true vector does
		s.train = nil
		for g := 0; g < cfg.NList; g++ {
			off := float32(g) * 40
			// (dense first: the codebooks are seeded from the first points)
			for r := 0; r < 2; r++ {
				for _, sg := range []float32{1, -1} {
					v := make([]float32, cfg.Dim)
					for j := range v {
						v[j] = off + sg*6
					}
					s.train = append(s.train, v)
				}
			}
			for r := 0; r < 2; r++ {
				for c := 0; c < cfg.Dim; c++ {
					for _, sg := range []float32{1, -1} {
						v := make([]float32, cfg.Dim)
						for j := range v {
							v[j] = off
						}
						v[c] = off + sg*10
						s.train = append(s.train, v)
					}
				}
			}
		}
		nt := len(s.train) / cfg.NList
		s.vals = [][]float32{vCopyVec(s.train[0]), vCopyVec(s.train[4]), vCopyVec(s.train[1]), vCopyVec(s.train[nt])}
	}
	s.hook = vC14Hook
	s.noMulti = true
	return s
}

// vC14AliasSys: the caller hands the very slices it trained on to Add (as C13's aliasing
// mode), on a training set of three distinct non-unit vectors with heavy duplication - the
// coarse k-means starts from identical centroids, so empty clusters arise - under cosine,
// where Add normalises its argument in place.
func vC14AliasSys(c *vCtx, cfg vVecCfg) *vKindSys {
	base := [][]float32{{3, 4}, {1, 0}, {0, 2}, {3, 4}, {1, 0}, {1, 0}, {0, 2}, {1, 0}, {1, 0}, {0, 2}}
	var train [][]float32
	for r := 0; r < 3; r++ {
		for _, b := range base {
			v := make([]float32, cfg.Dim)
			for j := range v {
				v[j] = b[j%2] * float32(1+j/2)
			}
			train = append(train, v)
		}
	}
	s := newKindSys(c, cfg, 3)
	s.train = train
	s.vals = train[:10]
	s.aliasTrain = true
	s.cfgS = cfg.String() + " alias"
	s.hook = vC14Hook
	s.noMulti = true
	s.noPrepared = true
	return s
}

func vC14Accepted(cfg vVecCfg) bool {
	var err error
	if cfg.Kind == "pq" {
		_, err = NewPQIndex(cfg.Dim, cfg.Metric, cfg.M, cfg.NBits)
	} else {
		_, err = NewIVFPQIndex(cfg.Dim, cfg.Metric, cfg.NList, cfg.M, cfg.NBits)
	}
	return err == nil
}

func init() {
	vRegister(&vCheck{
		ID: "C14", Level: "model_checking", Engine: "histmc",
		Rule:        "For kind in {pq, ivfpq} x metric x dim x M x nlist x EVERY nbits in 1..16 that the constructor accepts (rejected sizes are counted, not judged): train on a lattice of max(Ksub, 10*nlist) points, BFS over Add/Remove/Flush histories; in every state, from the private codebooks/centroids/codes: each code is a nearest codeword of the (residual) sub-vector, every reported score equals the Euclidean distance between the preprocessed query (residual) and the reconstruction, the result is the exact top-k by that score (within a valid set of p nearest clusters for partial probes), and |score - true Euclidean distance| <= quantisation error. Both Train preconditions are probed at their boundary sizes (Ksub-1, Ksub, Ksub+1, 10*nlist-1, 10*nlist): clean error or a working index, never a panic. Non-trivial = distinct (config, state, query, id) bound checks and partial-probe cases, plus the generic C02 rule. Training sets with one exactly constant, non-zero subspace (Euclidean family).",
		Assumptions: []string{"nbits 1..10 in quick, 1..16 in thorough", "float tolerance 1e-5 relative"},
		Shards: func(tier string) []vShard {
			var sh []vShard
			depth := 4
			if tier == "thorough" {
				depth = 5
			}
			for _, cfg := range vC14Configs(tier) {
				cfg := cfg
				sh = append(sh, vShard{Name: strings.ReplaceAll(cfg.String(), " ", ","), Run: func(c *vCtx) {
					if !vC14Accepted(cfg) {
						c.Extra["configs_rejected_by_constructor"]++
						c.Evaluations++
						c.NewState("rejected " + cfg.String())
						c.Transitions++
						c.Sample("constructor rejects " + cfg.String())
						return
					}
					c.Extra["configs_accepted"]++
					d := depth
					if cfg.NBits > 6 {
						d = depth - 1
					}
					vC14TrainBoundary(c, cfg)
					vBFS(c, vC14Sys(c, cfg), d)
				}})
			}
			for _, cfg := range []vVecCfg{{Kind: "ivfpq", Metric: Cosine, Dim: 2, NList: 3, M: 1, NBits: 1, Train: -2}, {Kind: "ivfpq", Metric: Cosine, Dim: 4, NList: 2, M: 2, NBits: 2, Train: -2}, {Kind: "pq", Metric: Cosine, Dim: 2, M: 2, NBits: 1, Train: -2}, {Kind: "ivfpq", Metric: Euclidean, Dim: 2, NList: 3, M: 2, NBits: 1, Train: -2}} {
				cfg := cfg
				sh = append(sh, vShard{Name: "alias/" + strings.ReplaceAll(cfg.String(), " ", ","), Run: func(c *vCtx) { vBFS(c, vC14AliasSys(c, cfg), 4) }})
			}
			// affine transforms of the data (zz_verif_vec.go): scaled by 2^-20, 2^-40, 2^20,
			// shifted by 4096, 2^20, 20000
			for _, cfg := range []vVecCfg{{Kind: "pq", Metric: Euclidean, Dim: 2, M: 2, NBits: 2, Train: -2}, {Kind: "pq", Metric: L2Squared, Dim: 4, M: 2, NBits: 4, Train: -2},
				{Kind: "ivfpq", Metric: Euclidean, Dim: 2, NList: 2, M: 1, NBits: 2, Train: -2}, {Kind: "ivfpq", Metric: L2Squared, Dim: 4, NList: 2, M: 2, NBits: 3, Train: -2}, {Kind: "pq", Metric: Cosine, Dim: 2, M: 1, NBits: 3, Train: -2}} {
				cfg := cfg
				for _, x := range vXFs {
					x := x
					if cfg.Metric == Cosine && x.Off != 0 {
						continue
					}
					sh = append(sh, vShard{Name: fmt.Sprintf("xf/%g:%d/%s", x.Off, x.Exp, strings.ReplaceAll(cfg.String(), " ", ",")), Run: func(c *vCtx) {
						defer vXFSet(x, cfg.Metric)()
						vBFS(c, vC14Sys(c, cfg), 3)
					}})
				}
			}
			// large instances (hundreds to thousands of vectors, k up to n)
			for _, cfg := range []vVecCfg{{Kind: "pq", Metric: Euclidean, Dim: 4, M: 2, NBits: 3, Train: 2}, {Kind: "ivfpq", Metric: Euclidean, Dim: 4, NList: 3, M: 2, NBits: 3, Train: 2}, {Kind: "ivfpq", Metric: Cosine, Dim: 4, NList: 4, M: 2, NBits: 4, Train: 2}} {
				cfg := cfg
				sh = append(sh, vShard{Name: "large/" + strings.ReplaceAll(cfg.String(), " ", ","), Run: func(c *vCtx) { vKindLarge(c, cfg, vLargeSizes(tier), vC14Hook) }})
			}
			return sh
		},
		Replay: func(c *vCtx, v *vViolation) bool {
			defer vXFParse(v.Config, vParseVecCfg(v.Config).Metric)()
			v.Config = vXFStrip(v.Config)
			if i := strings.Index(v.Config, " large n="); i >= 0 {
				var n int
				fmt.Sscanf(v.Config[i:], " large n=%d", &n)
				vKindLarge(c, vParseVecCfg(v.Config[:i]), []int{n}, vC14Hook)
				_, ok := c.viol[v.Sig()]
				return ok
			}
			if strings.HasSuffix(v.Config, " alias") {
				vReplayHist(vC14AliasSys(c, vParseVecCfg(v.Config)), v.History)
				_, ok := c.viol[v.Sig()]
				return ok
			}
			if i := strings.Index(v.Config, " trainN="); i >= 0 {
				vC14TrainBoundary(c, vParseVecCfg(v.Config[:i]))
			} else {
				vReplayHist(vC14Sys(c, vParseVecCfg(v.Config)), v.History)
			}
			_, ok := c.viol[v.Sig()]
			return ok
		},
	})
}
