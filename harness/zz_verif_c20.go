//go:build verif

package comet

// C20 — training and quantisation are deterministic, in-range and error-bounded
// (domainmc: exhaustive lattices; plus a differential "train twice" history check).

import (
	"fmt"
	"math"
	"strings"

	"github.com/x448/float16"
)

func vDeepEq(a, b [][]float32) bool {
	if len(a) != len(b) {
		return false
	}
	for i := range a {
		if !vBitsEq(a[i], b[i]) {
			return false
		}
	}
	return true
}

func vDeepCopy(a [][]float32) [][]float32 {
	out := make([][]float32, len(a))
	for i := range a {
		out[i] = vCopyVec(a[i])
	}
	return out
}

func vIntsEq(a, b []int) bool {
	if len(a) != len(b) {
		return false
	}
	for i := range a {
		if a[i] != b[i] {
			return false
		}
	}
	return true
}

// vC20Mirrored selects the second point alphabet: points with their negations (directions
// that cancel exactly) instead of the non-negative lattice.
var vC20Mirrored bool

// vCallerDistance is a Distance implemented outside the package's own metric types.
type vCallerDistance struct{ d Distance }

func (w vCallerDistance) Calculate(a, b []float32) float32 { return w.d.Calculate(a, b) }
func (w vCallerDistance) CalculateBatch(q [][]float32, t []float32) []float32 {
	return w.d.CalculateBatch(q, t)
}
func (w vCallerDistance) PreprocessInPlace(t []float32) error       { return w.d.PreprocessInPlace(t) }
func (w vCallerDistance) Preprocess(t []float32) ([]float32, error) { return w.d.Preprocess(t) }

func vC20KMeans(c *vCtx, d, maxLen, part, parts int) {
	var pts [][]float32
	if vC20Mirrored {
		if d == 1 {
			pts = [][]float32{{-2}, {-1}, {1}, {2}}
		} else {
			pts = [][]float32{{1, 0}, {-1, 0}, {0, 1}, {0, -1}, {1, 1}, {-1, -1}, {2, -1}, {-2, 1}}
		}
	} else if d == 1 {
		pts = [][]float32{{0}, {1}, {2}, {3}}
	} else {
		for x := 0; x < 4; x++ {
			for y := 0; y < 4; y++ {
				pts = append(pts, []float32{float32(x), float32(y)})
			}
		}
	}
	metrics := []DistanceKind{Euclidean, L2Squared, Cosine}
	cfgS := fmt.Sprintf("kmeans d=%d", d) + vXFTag()
	if vC20Mirrored {
		cfgS += " mirrored"
	}
	pts = vXFVecs(pts)
	if vXF.Off != 0 {
		metrics = metrics[:2] // a common offset makes all directions alike
	}
	n := 0
	for _, seq := range vSequences(len(pts), 1, maxLen) {
		n++
		if n%parts != part {
			continue
		}
		if n%512 == 0 && c.Expired() {
			c.Bound = fmt.Sprintf("deadline after %d sequences", n)
			return
		}
		train := make([][]float32, len(seq))
		for i, a := range seq {
			train[i] = vCopyVec(pts[a])
		}
		orig := vDeepCopy(train)
		lo := make([]float32, d)
		hi := make([]float32, d)
		for j := 0; j < d; j++ {
			lo[j], hi[j] = float32(math.Inf(1)), float32(math.Inf(-1))
			for _, v := range train {
				lo[j] = float32(math.Min(float64(lo[j]), float64(v[j])))
				hi[j] = float32(math.Max(float64(hi[j]), float64(v[j])))
			}
		}
		for _, metric := range metrics {
			dist, _ := NewDistance(metric)
			for k := -1; k <= 6; k++ {
				var conv [][]float32
				var convMap []int
				converged := false
				// (math.MaxInt: the "run until convergence" idiom; after 100 vs 101 it must still
				// return a full, valid mapping)
				for _, maxIter := range []int{-1, 0, 1, 2, 100, 101, math.MaxInt, math.MaxInt - 1, math.MaxInt32} {
					if maxIter > 101 && !converged {
						continue // (a run that cycles would not end)
					}
					c.Evaluations++
					desc := func() string {
						return fmt.Sprintf("train=%v metric=%s k=%d maxIter=%d", orig, metric, k, maxIter)
					}
					cen, mp := KMeans(train, k, dist, maxIter)
					if !vDeepEq(train, orig) {
						c.Violation("kmeans-modified-input", "", cfgS, nil, desc())
						train = vDeepCopy(orig)
					}
					if k <= 0 {
						if cen != nil || mp != nil {
							c.Violation("kmeans-nonpositive-k", "", cfgS, nil, desc())
						}
						continue
					}
					want := k
					if len(train) < k {
						want = len(train)
					}
					if len(cen) != want {
						c.Violation("kmeans-centroid-count", "", cfgS, nil, fmt.Sprintf("%s: %d centroids, expected %d", desc(), len(cen), want))
						continue
					}
					if len(mp) != len(train) {
						c.Violation("kmeans-mapping-length", "", cfgS, nil, desc())
						continue
					}
					for _, ce := range cen {
						for j, x := range ce {
							if math.IsNaN(float64(x)) || math.IsInf(float64(x), 0) {
								c.Violation("kmeans-centroid-not-finite", "", cfgS, nil, fmt.Sprintf("%s: %v", desc(), cen))
							} else if metric != Cosine && (x < lo[j] || x > hi[j]) {
								c.Violation("kmeans-centroid-outside-bounding-box", "", cfgS, nil, fmt.Sprintf("%s: centroid %v outside [%v,%v]", desc(), ce, lo, hi))
							}
						}
					}
					for _, m := range mp {
						if m < 0 || m >= len(cen) {
							c.Violation("kmeans-mapping-index", "", cfgS, nil, fmt.Sprintf("%s: mapping %v", desc(), mp))
						}
					}
					// the returned centroids are the caller's: writing to them does not change
					// the training vectors (no shared memory)
					for ci := range cen {
						if len(cen[ci]) > 0 {
							old := cen[ci][0]
							cen[ci][0] = 12345.5
							if !vDeepEq(train, orig) {
								c.Violation("kmeans-centroid-aliases-input", "", cfgS, nil, desc())
								train = vDeepCopy(orig)
							}
							cen[ci][0] = old
						}
					}
					// determinism: a second call gives bit-identical output
					cen2, mp2 := KMeans(train, k, dist, maxIter)
					if !vDeepEq(cen, cen2) || !vIntsEq(mp, mp2) {
						c.Violation("kmeans-nondeterministic", "", cfgS, nil, desc())
					}
					// the metric is an interface: a caller's own Distance type (here one that
					// delegates every method to the built-in one) gives the same clustering
					cenW, mpW := KMeans(train, k, vCallerDistance{dist}, maxIter)
					if !vDeepEq(cen, cenW) || !vIntsEq(mp, mpW) {
						c.Violation("kmeans-depends-on-the-go-type-of-the-metric", "", cfgS, nil, fmt.Sprintf("%s: built-in metric value gives %v %v, a caller-defined type delegating to it gives %v %v", desc(), cen, mp, cenW, mpW))
					}
					if maxIter == 100 {
						conv, convMap = cen, mp
					}
					if maxIter > 101 && (!vDeepEq(conv, cen) || !vIntsEq(convMap, mp)) {
						c.Violation("kmeans-larger-budget-changes-a-converged-run", "", cfgS, nil, fmt.Sprintf("%s: %v %v, with maxIter=100 (converged) %v %v", desc(), cen, mp, conv, convMap))
					}
					if maxIter == 101 {
						converged = vDeepEq(conv, cen) && vIntsEq(convMap, mp)
					}
					if maxIter == 101 && vDeepEq(conv, cen) && vIntsEq(convMap, mp) {
						// converged (one more iteration changes nothing, which also rules out a
						// cycle): every vector is mapped to (one of) its nearest centroid(s)
						for i, v := range train {
							best := float32(math.Inf(1))
							for _, ce := range cen {
								if dd := dist.Calculate(v, ce); dd < best {
									best = dd
								}
							}
							if got := dist.Calculate(v, cen[mp[i]]); got > best {
								c.Violation("kmeans-not-nearest-when-converged", "", cfgS, nil, fmt.Sprintf("%s: vector %v mapped to centroid %v at %v, nearest at %v", desc(), v, cen[mp[i]], got, best))
							}
						}
						if k < len(train) {
							c.Nontrivial(fmt.Sprintf("km|%d|%v|%s|%d", d, seq, metric, k))
						}
					}
				}
			}
		}
	}
	// KMeansSubspace and the n=0 case
	if part == 0 {
		if cen, mp := KMeans(nil, 3, euclideanDistanceImpl, 10); cen != nil || mp != nil {
			c.Violation("kmeans-empty-input", "", cfgS, nil, "KMeans(nil) returned non-nil")
		}
		if cen, mp := KMeansSubspace([][]float32{}, 3, 10); cen != nil || mp != nil {
			c.Violation("kmeans-empty-input", "", cfgS, nil, "KMeansSubspace(empty) returned non-nil")
		}
		tr := [][]float32{{0, 0}, {3, 3}, {0, 1}, {3, 2}}
		a, am := KMeansSubspace(tr, 2, 50)
		sq, _ := NewDistance(L2Squared)
		b, bm := KMeans(tr, 2, sq, 50)
		if !vDeepEq(a, b) || !vIntsEq(am, bm) {
			c.Violation("kmeans-subspace-differs", "", cfgS, nil, fmt.Sprintf("%v/%v vs %v/%v", a, am, b, bm))
		}
	}
	c.Sample(fmt.Sprintf("d=%d train=%v k=-1..6 maxIter in {-1,0,1,2,100,101} x 3 metrics", d, pts[:3]))
	c.Bound = fmt.Sprintf("all training sequences of length 1..%d over the %d-point lattice", maxLen, len(pts))
}

// vC20KMeansSweep: structured training sets of EVERY size n in 1..maxN (dimension 3 and
// 5, duplicates every 7th point), k around the interesting boundaries, three metrics.
func vC20KMeansSweep(c *vCtx, maxN int) {
	var sizes []int
	for n := 1; n <= maxN; n++ {
		sizes = append(sizes, n)
	}
	vC20KMeansSizes(c, sizes, nil)
	if c.Bound == "" {
		c.Bound = fmt.Sprintf("kmeans sweep sizes 1..%d", maxN)
	}
}

// vC20KMeansSizes runs the k-means laws for the given training-set sizes (ks == nil: the
// size-dependent k alphabet of the sweep).
func vC20KMeansSizes(c *vCtx, sizes []int, ks0 []int) {
	cfgS := "kmeans sweep" + vXFTag()
	for _, d := range []int{3, 5} {
		for si, n := range sizes {
			if si%8 == 0 && c.Expired() {
				c.Bound = fmt.Sprintf("kmeans sizes: deadline before n=%d", n)
				return
			}
			train := vXFVecs(vStructuredVecs(d, n))
			for i := 7; i < n; i += 7 {
				train[i] = vCopyVec(train[i-7]) // duplicates
			}
			orig := vDeepCopy(train)
			lo := make([]float32, d)
			hi := make([]float32, d)
			for j := 0; j < d; j++ {
				lo[j], hi[j] = float32(math.Inf(1)), float32(math.Inf(-1))
				for _, v := range train {
					lo[j] = float32(math.Min(float64(lo[j]), float64(v[j])))
					hi[j] = float32(math.Max(float64(hi[j]), float64(v[j])))
				}
			}
			ks := map[int]bool{1: true, 2: true, 3: true, 8: true, 16: true, 17: true, n - 1: true, n: true, n + 1: true, n / 2: true}
			if ks0 != nil {
				ks = map[int]bool{}
				for _, k := range ks0 {
					ks[k] = true
				}
			}
			for k := range ks {
				if k <= 0 {
					continue
				}
				for _, metric := range []DistanceKind{Euclidean, L2Squared, Cosine} {
					dist, _ := NewDistance(metric)
					c.Evaluations++
					desc := fmt.Sprintf("d=%d n=%d k=%d metric=%s", d, n, k, metric)
					cen, mp := KMeans(train, k, dist, 100)
					if !vDeepEq(train, orig) {
						c.Violation("kmeans-modified-input", "sweep", cfgS, nil, desc)
						train = vDeepCopy(orig)
					}
					want := k
					if n < k {
						want = n
					}
					if len(cen) != want || len(mp) != n {
						c.Violation("kmeans-centroid-count", "sweep", cfgS, nil, fmt.Sprintf("%s: %d centroids / mapping %d", desc, len(cen), len(mp)))
						continue
					}
					for _, ce := range cen {
						for j, x := range ce {
							if math.IsNaN(float64(x)) || math.IsInf(float64(x), 0) {
								c.Violation("kmeans-centroid-not-finite", "sweep", cfgS, nil, desc)
							} else if metric != Cosine && (x < lo[j] || x > hi[j]) {
								c.Violation("kmeans-centroid-outside-bounding-box", "sweep", cfgS, nil, fmt.Sprintf("%s: centroid %v outside [%v,%v]", desc, ce, lo, hi))
							}
						}
					}
					for _, m := range mp {
						if m < 0 || m >= len(cen) {
							c.Violation("kmeans-mapping-index", "sweep", cfgS, nil, desc)
						}
					}
					cen2, mp2 := KMeans(train, k, dist, 100)
					if !vDeepEq(cen, cen2) || !vIntsEq(mp, mp2) {
						c.Violation("kmeans-nondeterministic", "sweep", cfgS, nil, desc)
					}
					cenW, mpW := KMeans(train, k, vCallerDistance{dist}, 100)
					if !vDeepEq(cen, cenW) || !vIntsEq(mp, mpW) {
						c.Violation("kmeans-depends-on-the-go-type-of-the-metric", "sweep", cfgS, nil, desc+": a caller-defined Distance type delegating to the built-in metric gives another clustering")
					}
					cen3, mp3 := KMeans(train, k, dist, 101)
					if vDeepEq(cen, cen3) && vIntsEq(mp, mp3) && !(metric == Cosine && vXF.Off != 0) {
						for i, v := range train {
							best := float32(math.Inf(1))
							for _, ce := range cen {
								if dd := dist.Calculate(v, ce); dd < best {
									best = dd
								}
							}
							if got := dist.Calculate(v, cen[mp[i]]); got > best {
								c.Violation("kmeans-not-nearest-when-converged", "sweep", cfgS, nil, fmt.Sprintf("%s: vector %d", desc, i))
								break
							}
						}
						c.Nontrivial("kms|" + desc)
					}
				}
			}
		}
	}
	c.Sample(fmt.Sprintf("d in {3,5}, n structured points (every 7th duplicated), sizes %d..%d (%d of them), k in {1,2,3,8,16,17,n/2,n-1,n,n+1} or the fixed list, 3 metrics", sizes[0], sizes[len(sizes)-1], len(sizes)))
}

// vC20QuantLengths: every vector length 1..maxL for the three quantisers (unrolled loops).
func vC20QuantLengths(c *vCtx, maxL int) {
	cfgS := "quantizers lengths"
	f32, _ := NewQuantizer(FullPrecision)
	f16, _ := NewQuantizer(HalfPrecision)
	i8 := &Int8Quantizer{}
	i8.Train([][]float32{{-3.3, 1, 2}})
	for l := 0; l <= maxL; l++ {
		v := make([]float32, l)
		for i := range v {
			v[i] = float32((i*7)%13-6) * 0.5 // within +-3.3, all exactly representable in float16
		}
		orig := vCopyVec(v)
		c.Evaluations++
		for name, q := range map[string]Quantizer{"float32": f32, "float16": f16, "int8": i8} {
			st, err := q.Quantize(v)
			if err != nil || !vBitsEq(v, orig) {
				c.Violation("quantize-length-sweep", name, cfgS, nil, fmt.Sprintf("len=%d err=%v input modified=%v", l, err, !vBitsEq(v, orig)))
				continue
			}
			out, err := q.Dequantize(st)
			if err != nil || len(out) != l {
				c.Violation("quantize-length-sweep", name, cfgS, nil, fmt.Sprintf("len=%d: dequantized length %d err=%v", l, len(out), err))
				continue
			}
			for i := range out {
				tol := 0.0
				if name == "int8" {
					tol = 3.3/254*(1+1e-5) + 3.3e-6
				}
				if math.Abs(float64(out[i])-float64(orig[i])) > tol {
					c.Violation("quantize-length-sweep", name, cfgS, nil, fmt.Sprintf("len=%d component %d: %v -> %v", l, i, orig[i], out[i]))
					break
				}
			}
		}
		c.Nontrivial(fmt.Sprintf("qlen|%d", l))
	}
	c.Sample("vectors of every length 0..maxL through float32 / float16 / int8 round trips")
	c.Bound = fmt.Sprintf("vector lengths 0..%d", maxL)
}

// vC20QuantHist: every history of length <= depth over one Int8Quantizer OBJECT:
// Train(range 2) / Train(range 8) / Train(zeros) / SetAbsMax(1) / SetAbsMax(4) /
// SetAbsMax(0) / Quantize (a use) / Dequantize (a use). After the history the object
// must behave as its current range says: refuse when the range is 0, reconstruct within
// absMax/254 otherwise, and answer bit-identically to a FRESH quantiser given the same
// range (no residue of earlier ranges or earlier uses).
func vC20QuantHist(c *vCtx, depth int) {
	cfgS := "quantizer histories"
	names := []string{"Train(2)", "Train(8)", "Train(zeros)", "SetAbsMax(1)", "SetAbsMax(4)", "SetAbsMax(0)", "Quantize", "Dequantize"}
	apply := func(q *Int8Quantizer, op int, am float32) float32 {
		switch op {
		case 0:
			q.Train([][]float32{{0.5, -2}, {1}})
			return 2
		case 1:
			q.Train([][]float32{{8}})
			return 8
		case 2:
			q.Train([][]float32{{0, 0}})
			return 0
		case 3:
			q.SetAbsMax(1)
			return 1
		case 4:
			q.SetAbsMax(4)
			return 4
		case 5:
			q.SetAbsMax(0)
			return 0
		case 6:
			q.Quantize([]float32{0.25, -0.5})
		case 7:
			q.Dequantize([]int8{5, -100})
		}
		return am
	}
	var seq []int
	var rec func()
	rec = func() {
		if len(seq) > 0 {
			c.Traces++
			c.Transitions++
			q := &Int8Quantizer{}
			am := float32(0)
			var h []string
			for _, op := range seq {
				am = apply(q, op, am)
				h = append(h, names[op])
			}
			c.Evaluations++
			if q.GetAbsMax() != am || q.IsTrained() != (am > 0) {
				c.Violation("int8-history", "range", cfgS, h, fmt.Sprintf("GetAbsMax=%v IsTrained=%v, expected range %v", q.GetAbsMax(), q.IsTrained(), am))
			}
			in := []float32{am, -am, am / 2, am / 3, -am / 7, 0, am * 0.999}
			st, err := q.Quantize(in)
			if am == 0 {
				if err == nil {
					c.Violation("int8-history", "usable-without-range", cfgS, h, "Quantize succeeded although the current range is 0")
				}
				if _, err := q.Dequantize([]int8{1}); err == nil {
					c.Violation("int8-history", "usable-without-range", cfgS, h, "Dequantize succeeded although the current range is 0")
				}
			} else if err != nil {
				c.Violation("int8-history", "refused", cfgS, h, err.Error())
			} else {
				fresh := &Int8Quantizer{}
				fresh.SetAbsMax(am)
				fst, _ := fresh.Quantize(in)
				out, err := q.Dequantize(st)
				fout, _ := fresh.Dequantize(fst)
				if err != nil || len(out) != len(in) {
					c.Violation("int8-history", "dequantize", cfgS, h, fmt.Sprintf("err=%v len=%d", err, len(out)))
				} else {
					bound := float64(am)/254*(1+1e-5) + float64(am)*1e-6
					for i := range in {
						if math.Abs(float64(in[i])-float64(out[i])) > bound {
							c.Violation("int8-history", "error-above-absmax-over-254", cfgS, h, fmt.Sprintf("range %v: %v -> %v (bound %v)", am, in[i], out[i], bound))
							break
						}
					}
					if fmt.Sprint(st) != fmt.Sprint(fst) || !vBitsEq(out, fout) {
						c.Violation("int8-history", "differs-from-fresh-quantizer", cfgS, h, fmt.Sprintf("range %v: codes %v / %v, values %v / %v", am, st, fst, out, fout))
					}
				}
				c.Nontrivial("qhist|" + strings.Join(h, ","))
			}
		}
		if len(seq) == depth {
			return
		}
		for op := range names {
			seq = append(seq, op)
			rec()
			seq = seq[:len(seq)-1]
		}
	}
	rec()
	c.NewState(cfgS)
	c.Sample("Train(2); Quantize; SetAbsMax(4) => behaves exactly like a fresh quantiser with range 4")
	c.Bound = fmt.Sprintf("all histories of length <= %d over 8 operations", depth)
}

func vC20TrainTwice(c *vCtx, tier string) {
	for _, cfg := range vC02Configs(tier) {
		if cfg.Kind != "ivf" && cfg.Kind != "pq" && cfg.Kind != "ivfpq" {
			continue
		}
		cfgS := "train-twice " + cfg.String()
		a, err := cfg.New()
		if err != nil {
			continue
		}
		b, _ := cfg.New()
		ts := vTrainSet(cfg.Dim, cfg.Train)
		nodes := make([]VectorNode, len(ts))
		for i, v := range ts {
			nodes[i] = *NewVectorNodeWithID(uint32(1000+i), vCopyVec(v))
		}
		if err := b.Train(nodes); err != nil {
			c.Violation("second-train-failed", "", cfgS, nil, err.Error())
			continue
		}
		vals := vVecAlphabet(cfg.Dim)
		hist := []string{}
		for step := 0; step < 4; step++ {
			c.Evaluations++
			c.Transitions++
			if vCanonVec(a) != vCanonVec(b) {
				c.Violation("train-twice-differs", "state", cfgS, hist, "private state differs between an index trained once and one trained twice on the same data")
				break
			}
			oa, ob := vObsVec(a, cfg.Dim), vObsVec(b, cfg.Dim)
			if dmsg := vObsDiff(oa, ob); dmsg != "" {
				c.Violation("train-twice-differs", "answers", cfgS, hist, dmsg)
				break
			}
			c.NewState(cfgS + vCanonVec(a))
			if step < 3 {
				a.Add(*NewVectorNodeWithID(uint32(step+1), vCopyVec(vals[step])))
				b.Add(*NewVectorNodeWithID(uint32(step+1), vCopyVec(vals[step])))
				hist = append(hist, fmt.Sprintf("Add(%d,%d,0)", step+1, step))
			}
		}
		c.Traces++
		c.Nontrivial(cfgS)
	}
	c.Sample("ivf/pq/ivfpq trained once vs twice, then Add x3: identical private state and answers")
	c.Bound = "all C02 trainable configurations"
}

func vC20Float(c *vCtx, tier string, part, parts int) {
	cfgS := "quantizers"
	// ---- float32: bit-exact
	if part == 0 {
		q, _ := NewQuantizer(FullPrecision)
		alpha := append([]float32{}, vC18A...)
		alpha = append(alpha, float32(math.Inf(1)), float32(math.Inf(-1)), float32(math.NaN()), math.Float32frombits(1), math.Float32frombits(0x807fffff), math.MaxFloat32, math.SmallestNonzeroFloat32)
		for l := 0; l <= 2; l++ {
			for _, v := range vAllVecs(alpha, l) {
				c.Evaluations++
				in := vCopyVec(v)
				st, err := q.Quantize(in)
				if err != nil || !vBitsEq(in, v) {
					c.Violation("float32-quantize", "", cfgS, nil, fmt.Sprintf("v=%v err=%v", v, err))
					continue
				}
				out, err := q.Dequantize(st)
				if err != nil || !vBitsEq(out, v) {
					c.Violation("float32-not-exact", "", cfgS, nil, fmt.Sprintf("v=%v -> %v (%v)", v, out, err))
				}
				if l > 0 {
					c.Nontrivial(fmt.Sprintf("f32|%v", vF32bits(v)))
				}
			}
		}
		if _, err := q.Dequantize([]uint16{1}); err == nil {
			c.Violation("float32-wrong-type-accepted", "", cfgS, nil, "Dequantize([]uint16) returned nil error")
		}
	}
	// ---- float16
	h, _ := NewQuantizer(HalfPrecision)
	rt := func(x float32) (float32, bool) {
		in := []float32{x}
		st, err := h.Quantize(in)
		if err != nil || math.Float32bits(in[0]) != math.Float32bits(x) {
			c.Violation("float16-quantize", "", cfgS, nil, fmt.Sprintf("x=%v err=%v", x, err))
			return 0, false
		}
		if u, ok := st.([]uint16); !ok || len(u) != 1 {
			c.Violation("float16-length", "", cfgS, nil, fmt.Sprintf("x=%v stored %T", x, st))
			return 0, false
		}
		out, err := h.Dequantize(st)
		if err != nil || len(out) != 1 {
			c.Violation("float16-dequantize", "", cfgS, nil, fmt.Sprintf("x=%v err=%v", x, err))
			return 0, false
		}
		return out[0], true
	}
	// all 65536 half bit patterns: identity on representable values
	for b := part; b < 65536; b += parts {
		c.Evaluations++
		x := float16.Frombits(uint16(b)).Float32()
		y, ok := rt(x)
		if !ok {
			continue
		}
		if math.IsNaN(float64(x)) {
			if !math.IsNaN(float64(y)) {
				c.Violation("float16-nan", "", cfgS, nil, fmt.Sprintf("bits %04x -> %v", b, y))
			}
			continue
		}
		if math.Float32bits(x) != math.Float32bits(y) {
			c.Violation("float16-not-identity-on-representable", "", cfgS, nil, fmt.Sprintf("bits %04x = %v -> %v", b, x, y))
		}
		c.Nontrivial(fmt.Sprintf("f16id|%d", b))
	}
	// adjacent normal halves: midpoint and its float32 neighbours (worst case of rounding)
	check := func(x, lo, hi float32) {
		c.Evaluations++
		y, ok := rt(x)
		if !ok {
			return
		}
		half := (float64(hi) - float64(lo)) / 2
		if (y != lo && y != hi) || math.Abs(float64(x)-float64(y)) > half {
			c.Violation("float16-error-above-half-ulp", "", cfgS, nil, fmt.Sprintf("x=%v (between halves %v and %v) -> %v", x, lo, hi, y))
		}
	}
	for b := 0x0400 + part; b < 0x7bff; b += parts { // positive normals
		lo := float16.Frombits(uint16(b)).Float32()
		hi := float16.Frombits(uint16(b + 1)).Float32()
		mid := float32((float64(lo) + float64(hi)) / 2)
		for _, x := range []float32{mid, math.Nextafter32(mid, lo), math.Nextafter32(mid, hi), math.Nextafter32(lo, hi), math.Nextafter32(hi, lo)} {
			check(x, lo, hi)
			check(-x, -hi, -lo)
		}
		c.Nontrivial(fmt.Sprintf("f16mid|%d", b))
	}
	if tier == "thorough" {
		// every float32 in the half-precision normal range (positive; sign symmetric)
		lo32 := math.Float32bits(float16.Frombits(0x0400).Float32())
		hi32 := math.Float32bits(float16.Frombits(0x7bff).Float32())
		span := uint64(hi32-lo32) / uint64(parts)
		start := uint64(lo32) + uint64(part)*span
		end := start + span
		if part == parts-1 {
			end = uint64(hi32)
		}
		hq := &HalfPrecisionQuantizer{}
		in := make([]float32, 1)
		var n int64
		for u := start; u < end; u++ {
			x := math.Float32frombits(uint32(u))
			in[0] = x
			st, _ := hq.Quantize(in)
			out, _ := hq.Dequantize(st)
			y := out[0]
			// half ulp at x: spacing of halves is 2^(e-10) for x in [2^e, 2^(e+1))
			_, e := math.Frexp(float64(x))
			halfUlp := math.Ldexp(1, e-1-10) / 2
			if math.Abs(float64(x)-float64(y)) > halfUlp {
				c.Violation("float16-error-above-half-ulp", "sweep", cfgS, nil, fmt.Sprintf("x=%v -> %v (half ulp %v)", x, y, halfUlp))
				break
			}
			n++
			if n%(1<<22) == 0 && c.Expired() {
				c.Bound = fmt.Sprintf("float32 sweep stopped at deadline after %d values in this shard", n)
				break
			}
		}
		c.Evaluations += n
		c.Extra["float32_values_swept"] += n
	}
	// ---- int8
	if part < 6 {
		absMaxes := []float32{1e-3, 0.5, 1, 3.3, 127, 1e6}
		am := absMaxes[part]
		q := &Int8Quantizer{}
		if _, err := q.Quantize([]float32{1}); err == nil {
			c.Violation("int8-quantize-before-train", "", cfgS, nil, "Quantize before Train returned nil error")
		}
		if _, err := q.Dequantize([]int8{1}); err == nil {
			c.Violation("int8-dequantize-before-train", "", cfgS, nil, "Dequantize before Train returned nil error")
		}
		q.Train([][]float32{{0, 0}, {0}})
		if _, err := q.Quantize([]float32{0}); err == nil || q.IsTrained() {
			c.Violation("int8-trained-on-zeros", "", cfgS, nil, "quantizer usable after training on all-zero data")
		}
		tr := [][]float32{{am / 2, -am}, {am / 3}}
		trc := vDeepCopy(tr)
		q.Train(tr)
		if !vDeepEq(tr, trc) {
			c.Violation("int8-train-modified-input", "", cfgS, nil, "")
		}
		if q.GetAbsMax() != am {
			c.Violation("int8-absmax", "", cfgS, nil, fmt.Sprintf("absMax %v, expected %v", q.GetAbsMax(), am))
		}
		bound := float64(am)/254*(1+1e-5) + float64(am)*1e-6
		try := func(x float32) {
			if math.Abs(float64(x)) > float64(am) {
				return
			}
			c.Evaluations++
			in := []float32{x, -x}
			st, err := q.Quantize(in)
			if err != nil || in[0] != x || in[1] != -x {
				c.Violation("int8-quantize", "", cfgS, nil, fmt.Sprintf("x=%v err=%v", x, err))
				return
			}
			out, err := q.Dequantize(st)
			if err != nil || len(out) != 2 {
				c.Violation("int8-dequantize", "", cfgS, nil, fmt.Sprintf("x=%v err=%v", x, err))
				return
			}
			for i := range in {
				if math.Abs(float64(in[i])-float64(out[i])) > bound {
					c.Violation("int8-error-above-absmax-over-254", "", cfgS, nil, fmt.Sprintf("absMax=%v x=%v -> %v (bound %v)", am, in[i], out[i], bound))
				}
			}
			c.Nontrivial(fmt.Sprintf("i8|%v|%v", am, x))
		}
		for j := -127; j <= 127; j++ {
			for _, f := range []float64{0, 0.5, -0.5, 0.25} {
				x := float32((float64(j) + f) / 127 * float64(am))
				try(x)
				y := x
				for s := 0; s < 2; s++ {
					y = math.Nextafter32(y, float32(math.Inf(1)))
					try(y)
				}
				y = x
				for s := 0; s < 2; s++ {
					y = math.Nextafter32(y, float32(math.Inf(-1)))
					try(y)
				}
			}
		}
		try(am)
		try(-am)
	}
	c.Sample("float16: bits 0x3c00 (1.0) -> identity; midpoint of adjacent halves within half an ulp; int8: j/127*absMax +- neighbours within absMax/254")
	if c.Bound == "" {
		c.Bound = "all 65536 half patterns; all adjacent-half midpoints; int8 levels -127..127 x 6 absMax"
	}
}

func init() {
	vRegister(&vCheck{
		ID: "C20", Level: "exploration", Engine: "domainmc",
		Rule:        "k-means: ALL training sequences of length 1..L (L=3 quick for d=2, 4 thorough; 4 for d=1) over the lattice {0..3}^d, d in {1,2} (duplicates, k>n, k=n, collinear sets) x k in -1..6 x maxIter in {-1,0,1,2,100,101} x 3 metrics: nil for k<=0 / n=0, exactly min(k,n) finite centroids inside the bounding box (Euclidean family), valid mapping, identical output for a second call, input deep-equal afterwards, and when maxIter 100 and 101 agree (converged) every vector mapped to a nearest centroid. Train-twice: every trainable C02 configuration trained once vs twice then fed the same adds: identical private state and answers. Quantisers: float32 bit-exact on an alphabet with +-Inf/NaN/subnormals; float16 on ALL 65536 half bit patterns (identity) and, for every pair of adjacent normal halves, the float32 midpoint and its neighbours (<= half an ulp, result one of the two halves); thorough additionally sweeps EVERY float32 in the half-precision normal range; int8: 6 absMax x levels -127..127 x offsets {0, +-1/2, 1/4} x +-2 float32 neighbours (<= absMax/254), refusal before training / after all-zero training, input untouched. Non-trivial = distinct k-means cases with k < n that converged, distinct quantiser inputs. Every k-means call is repeated with a caller-defined Distance type that delegates to the built-in metric: the clustering must be bit-identical.",
		Assumptions: []string{"convergence is detected by equality of the maxIter=100 and maxIter=101 runs (one more iteration changes nothing)", "int8 bound absMax/254 with 1e-5 relative + 1e-6*absMax float tolerance"},
		Shards: func(tier string) []vShard {
			var sh []vShard
			l2 := 4
			_ = tier
			sh = append(sh, vShard{Name: "kmeans/d1", Run: func(c *vCtx) { vC20KMeans(c, 1, 4, 0, 1) }})
			parts := 6
			for p := 0; p < parts; p++ {
				p := p
				sh = append(sh, vShard{Name: fmt.Sprintf("kmeans/d2/part%d", p), Run: func(c *vCtx) { vC20KMeans(c, 2, l2, p, parts) }})
			}
			sweepN, qlen := 80, 70
			if tier == "thorough" {
				sweepN, qlen = 300, 600
			}
			sh = append(sh, vShard{Name: "kmeans/sweep", Run: func(c *vCtx) { vC20KMeansSweep(c, sweepN) }})
			// large training sets (sampling / chunking thresholds at 256, 1024, 4096, 8192 ...)
			big := [][]int{{257, 1025}, {4096, 4097}, {5000}}
			if tier == "thorough" {
				big = [][]int{{257, 1025}, {4096, 4097}, {5000}, {8193}, {16385}, {20000}}
			}
			for _, sz := range big {
				sz := sz
				sh = append(sh, vShard{Name: fmt.Sprintf("kmeans/large/%d", sz[0]), Run: func(c *vCtx) {
					vC20KMeansSizes(c, sz, []int{1, 2, 8, 17})
					c.Bound = fmt.Sprintf("kmeans sizes %v", sz)
				}})
			}
			// affine transforms of the training data (zz_verif_vec.go)
			for _, x := range vXFs {
				x := x
				sh = append(sh, vShard{Name: fmt.Sprintf("kmeans/xf/%g:%d", x.Off, x.Exp), Run: func(c *vCtx) {
					defer vXFSet(x, Euclidean)()
					vC20KMeans(c, 1, 4, 0, 1)
					vC20KMeans(c, 2, 3, 0, 1)
					vC20KMeansSweep(c, 48)
					vC20KMeansSizes(c, []int{257, 1025}, []int{1, 2, 8, 17})
					c.Bound = "kmeans under an affine transform of the data: lattice sequences of length <= 4 (d=1) / 3 (d=2), sizes 1..48, 257, 1025"
				}})
			}
			// points together with their negations (clusters whose directions cancel exactly)
			sh = append(sh, vShard{Name: "kmeans/mirrored", Run: func(c *vCtx) {
				vC20Mirrored = true
				defer func() { vC20Mirrored = false }()
				vC20KMeans(c, 1, 4, 0, 1)
				vC20KMeans(c, 2, 3, 0, 1)
				c.Bound = "kmeans over points with their negations: all sequences of length <= 4 (d=1) / 3 (d=2)"
			}})
			sh = append(sh, vShard{Name: "quantizers/lengths", Run: func(c *vCtx) { vC20QuantLengths(c, qlen) }})
			sh = append(sh, vShard{Name: "train-twice", Run: func(c *vCtx) { vC20TrainTwice(c, tier) }})
			qd := 5
			if tier == "thorough" {
				qd = 6
			}
			sh = append(sh, vShard{Name: "quantizers/histories", Run: func(c *vCtx) { vC20QuantHist(c, qd) }})
			qparts := 8
			for p := 0; p < qparts; p++ {
				p := p
				sh = append(sh, vShard{Name: fmt.Sprintf("quantizers/part%d", p), Run: func(c *vCtx) { vC20Float(c, tier, p, qparts) }})
			}
			return sh
		},
		Replay: func(c *vCtx, v *vViolation) bool {
			defer vXFParse(v.Config, Euclidean)()
			v.Config = vXFStrip(v.Config)
			if strings.HasSuffix(v.Config, " mirrored") {
				vC20Mirrored = true
				defer func() { vC20Mirrored = false }()
			}
			switch {
			case strings.HasPrefix(v.Config, "kmeans d=1"):
				vC20KMeans(c, 1, 4, 0, 1)
			case strings.HasPrefix(v.Config, "kmeans d=2"):
				vC20KMeans(c, 2, 3, 0, 1)
			case v.Config == "kmeans sweep":
				vC20KMeansSweep(c, 300)
				vC20KMeansSizes(c, []int{257, 1025, 4096, 4097, 5000, 8193}, []int{1, 2, 8, 17})
			case v.Config == "quantizer histories":
				vC20QuantHist(c, len(v.History))
			case v.Config == "quantizers lengths":
				vC20QuantLengths(c, 600)
			case strings.HasPrefix(v.Config, "train-twice"):
				vC20TrainTwice(c, "thorough")
			default:
				for p := 0; p < 8; p++ {
					vC20Float(c, "quick", p, 8)
				}
			}
			_, ok := c.viol[v.Sig()]
			return ok
		},
	})
}
