//go:build verif

package comet

// C05 — hybrid search = metadata pre-filter, per-modality top-k, fusion, ranking.

import (
	"fmt"
	"math"
	"sort"
	"strings"
)

type vC05Doc struct {
	Vec  []float32
	Text string
	S    string // metadata {s: S} when non-empty
	N    int    // metadata {n: N} when non-zero (a SPARSE numeric field: most documents have none)
}

var vC05Docs = []vC05Doc{
	{Vec: []float32{1, 0}, Text: "a", S: "x", N: 5},
	{Vec: []float32{0, 1}, Text: "a b", S: "y", N: 7},
	{Vec: []float32{3, 4}, Text: "c ™", S: "x"}, // (™: compatibility form "TM", found as "tm")
	{Vec: []float32{1, 0}},
	{Text: "a"},
	{S: "y"},
	{Vec: []float32{0, 1}, Text: "b"},
	{Text: "a b", S: "x"},
}

type vC05Cfg struct{ V, T, M bool }

func (c vC05Cfg) String() string { return fmt.Sprintf("hybridsearch V=%v T=%v M=%v", c.V, c.T, c.M) }

type vC05Query struct {
	Vec    []float32
	Texts  []string
	Filter int // 0 none, 1 Eq(s,x), 2 Eq(s,none), 3 group x OR y, 4 Eq(s,y), 5 Eq(s,x) AND Lt(n,100), 6 Eq(s,x) AND Range(n,-10,10)
	K      int
	Fusion int  // 0 ws(1,1) 1 ws(.3,.7) 2 rrf60 3 max 4 min
	ByKind bool // the fusion is not handed over as an object built from a literal configuration: fusion 0 = no call at all (the default), 2 / 3 / 4 = WithFusionKind
	Agg    ScoreAggregationKind
}

func (q vC05Query) String() string {
	bk := ""
	if q.ByKind {
		bk = "(default / by kind)"
	}
	return fmt.Sprintf("vec=%v texts=%q filter=%d k=%d fusion=%d%s agg=%s", q.Vec, q.Texts, q.Filter, q.K, q.Fusion, bk, q.Agg)
}

type vC05Sys struct {
	seenN bool // a document with the numeric field n was added in this history
	c     *vCtx
	cfg   vC05Cfg
	cfgS  string
	idx   HybridSearchIndex
	live  map[uint32]int
	tdocs map[uint32]*vC03Doc // text corpus incl. soft-deleted
	rem   map[uint32]bool
	nAdd  int
	maxN  int
	qs    []vC05Query
}

func newC05Sys(c *vCtx, cfg vC05Cfg, maxN int) *vC05Sys {
	s := &vC05Sys{c: c, cfg: cfg, cfgS: cfg.String(), maxN: maxN}
	vecs := [][]float32{nil, {1, 0.25}, {0, 2}, {1, 0}} // the last one equals a stored vector: distance exactly 0
	texts := [][]string{nil, {"a"}, {"a b"}, {"z"}, {"a", "b"}, {"tm"}}
	for _, v := range vecs {
		for _, t := range texts {
			for f := 0; f <= 6; f++ {
				if v == nil && t == nil && f == 0 {
					continue
				}
				for _, k := range []int{1, 2, 3, 10} {
					fus := []int{0}
					if v != nil && t != nil {
						fus = []int{0, 1, 2, 3, 4}
					}
					for _, fu := range fus {
						aggs := []ScoreAggregationKind{SumAggregation}
						if len(t) > 1 {
							aggs = []ScoreAggregationKind{SumAggregation, MaxAggregation, MeanAggregation}
						}
						for _, a := range aggs {
							s.qs = append(s.qs, vC05Query{Vec: v, Texts: t, Filter: f, K: k, Fusion: fu, Agg: a})
							if fu != 1 && (k == 2 || k == 10) && a == SumAggregation {
								s.qs = append(s.qs, vC05Query{Vec: v, Texts: t, Filter: f, K: k, Fusion: fu, Agg: a, ByKind: true})
							}
						}
					}
				}
			}
		}
	}
	return s
}

func (s *vC05Sys) Reset() {
	vResetGlobals()
	var vi VectorIndex
	var ti TextIndex
	var mi MetadataIndex
	if s.cfg.V {
		f, _ := NewFlatIndex(2, Euclidean)
		vi = f
	}
	if s.cfg.T {
		ti = NewBM25SearchIndex()
	}
	if s.cfg.M {
		mi = NewRoaringMetadataIndex()
	}
	s.idx = NewHybridSearchIndex(vi, ti, mi)
	// a caller that builds its own configuration from the defaults: the object returned by
	// DefaultFusionConfig() is the caller's to change, default-based searches are unaffected
	if d := DefaultFusionConfig(); d != nil {
		d.VectorWeight, d.TextWeight, d.K = 0.25, 3, 1
	}
	s.live = map[uint32]int{}
	s.seenN = false
	s.tdocs = map[uint32]*vC03Doc{}
	s.rem = map[uint32]bool{}
	s.nAdd = 0
	nodeIDCounter = 100
	documentFilterPool.Reset()
	heapPool.Reset()
}

func (s *vC05Sys) Enabled() []vOp {
	var ops []vOp
	if s.nAdd < s.maxN {
		for di := range vC05Docs {
			ops = append(ops, vOp{K: "AddWithID", A: s.nAdd + 1, B: di})
		}
		if s.nAdd == 1 {
			ops = append(ops, vOp{K: "Add", B: 0}, vOp{K: "Add", B: 1})
		}
	}
	ids := []int{}
	for id := range s.live {
		ids = append(ids, int(id))
	}
	sort.Ints(ids)
	for _, id := range ids {
		ops = append(ops, vOp{K: "Remove", A: id})
	}
	return ops
}

func (s *vC05Sys) Apply(op vOp, hist []vOp, check bool) {
	h := func() []string { return vHistStrings(append(hist, op)) }
	switch op.K {
	case "AddWithID", "Add":
		d := vC05Docs[op.B]
		var md map[string]interface{}
		if d.S != "" {
			md = map[string]interface{}{"s": d.S}
			if d.N != 0 {
				md["n"] = d.N
			}
		}
		id := uint32(op.A)
		var err error
		s.nAdd++
		if op.K == "Add" {
			id, err = s.idx.Add(vCopyVec(d.Vec), d.Text, md)
		} else {
			err = s.idx.AddWithID(id, vCopyVec(d.Vec), d.Text, md)
		}
		if err != nil {
			if check {
				s.c.Violation("add-failed", "", s.cfgS, h(), err.Error())
			}
			break
		}
		s.live[id] = op.B
		if md != nil && d.N != 0 {
			s.seenN = true
		}
		if s.cfg.T && d.Text != "" {
			s.tdocs[id] = &vC03Doc{text: d.Text, tokens: vRefTokens(d.Text)}
		}
	case "Remove":
		id := uint32(op.A)
		if err := s.idx.Remove(id); err != nil {
			if check {
				s.c.Violation("remove-failed", "", s.cfgS, h(), err.Error())
			}
			break
		}
		delete(s.live, id)
		s.rem[id] = true
		if d, ok := s.tdocs[id]; ok {
			d.deleted = true
		}
	}
	if check {
		s.observe(h())
	}
}

func (s *vC05Sys) filter(f int) (set map[uint32]bool, filters []Filter, groups []*FilterGroup) {
	set = map[uint32]bool{}
	match := func(pred func(string) bool) {
		for id, di := range s.live {
			if v := vC05Docs[di].S; v != "" && pred(v) {
				set[id] = true
			}
		}
	}
	switch f {
	case 1:
		match(func(v string) bool { return v == "x" })
		filters = []Filter{Eq("s", "x")}
	case 2:
		filters = []Filter{Eq("s", "none")}
	case 3:
		match(func(v string) bool { return v == "x" || v == "y" })
		groups = []*FilterGroup{{Filters: []Filter{Eq("s", "x")}, Logic: AND}, {Filters: []Filter{Eq("s", "y")}, Logic: AND}}
	case 4:
		match(func(v string) bool { return v == "y" })
		filters = []Filter{Eq("s", "y")}
	case 5, 6:
		// a chain (AND): a categorical filter first, then a comparison on the sparse numeric
		// field that the number 0 would satisfy - a document without the field has no value
		for id, di := range s.live {
			if d := vC05Docs[di]; d.S == "x" && d.N != 0 && d.N < 100 {
				set[id] = true
			}
		}
		filters = []Filter{Eq("s", "x"), Lt("n", 100)}
		if f == 6 {
			filters = []Filter{Eq("s", "x"), Range("n", -10, 10)}
		}
	}
	return
}

// topK returns the k best entries of m (ascending or descending) and whether a tie
// straddles the cut (then the selection is implementation-defined and not judged).
func vTopK(m map[uint32]float64, k int, asc bool) (map[uint32]float64, bool) {
	type e struct {
		id uint32
		v  float64
	}
	var l []e
	for id, v := range m {
		l = append(l, e{id, v})
	}
	sort.Slice(l, func(i, j int) bool {
		if l[i].v != l[j].v {
			if asc {
				return l[i].v < l[j].v
			}
			return l[i].v > l[j].v
		}
		return l[i].id < l[j].id
	})
	if k <= 0 || k >= len(l) {
		return m, false
	}
	tie := vApprox(l[k-1].v, l[k].v)
	out := map[uint32]float64{}
	for _, x := range l[:k] {
		out[x.id] = x.v
	}
	return out, tie
}

func vHasTies(m map[uint32]float64) bool {
	var l []float64
	for _, v := range m {
		l = append(l, v)
	}
	sort.Float64s(l)
	for i := 1; i < len(l); i++ {
		if vApprox(l[i-1], l[i]) {
			return true
		}
	}
	return false
}

func vFuse(kind int, vec, txt map[uint32]float64, origin int) map[uint32]float64 {
	out := map[uint32]float64{}
	switch kind {
	case 0, 1:
		wv, wt := 1.0, 1.0
		if kind == 1 {
			wv, wt = 0.3, 0.7
		}
		for id, v := range vec {
			out[id] = wv * v
		}
		for id, v := range txt {
			out[id] += wt * v
		}
	case 2:
		rank := func(m map[uint32]float64, asc bool) map[uint32]int {
			type e struct {
				id uint32
				v  float64
			}
			var l []e
			for id, v := range m {
				l = append(l, e{id, v})
			}
			sort.Slice(l, func(i, j int) bool {
				if asc {
					return l[i].v < l[j].v
				}
				return l[i].v > l[j].v
			})
			r := map[uint32]int{}
			for i, x := range l {
				r[x.id] = i + origin
			}
			return r
		}
		for id, r := range rank(vec, true) {
			out[id] += 1 / (60 + float64(r))
		}
		for id, r := range rank(txt, false) {
			out[id] += 1 / (60 + float64(r))
		}
	case 3:
		for id, v := range vec {
			out[id] = v
		}
		for id, v := range txt {
			if o, ok := out[id]; !ok || v > o {
				out[id] = v
			}
		}
	case 4:
		for id, v := range vec {
			if t, ok := txt[id]; ok {
				out[id] = math.Min(v, t)
			}
		}
	}
	return out
}

// vC05NearDuplicates: documents whose vectors are one or two float32 ulps apart and whose
// texts are equal. Their fused scores (float64) differ in bits that a float32 does not
// have once the text score has pushed the sum into a higher binade. Results are ordered
// by the score they REPORT, exactly: res[i].Score >= res[i+1].Score, for every fusion,
// k and query.
func vC05NearDuplicates(c *vCtx) {
	cfgS := "hybrid near-duplicates"
	f, _ := NewFlatIndex(2, Euclidean)
	idx := NewHybridSearchIndex(f, NewBM25SearchIndex(), NewRoaringMetadataIndex())
	var hist []string
	next := float32(1)
	// ids ascending with DESCENDING distance and the other way round, interleaved
	order := []uint32{4, 1, 6, 2, 5, 3, 8, 7}
	for i, id := range order {
		v := []float32{next, 0}
		next = math.Nextafter32(next, 2)
		text := "apple apple banana cherry"
		if i%4 == 3 {
			text = "apple banana"
		}
		if err := idx.AddWithID(id, v, text, map[string]interface{}{"s": "x"}); err != nil {
			c.Violation("add-failed", "near-duplicates", cfgS, hist, err.Error())
			return
		}
		hist = append(hist, fmt.Sprintf("AddWithID(%d,[%v 0],%q)", id, v[0], text))
	}
	c.Transitions += int64(len(order))
	for _, q := range [][]float32{{0, 0}, {2, 0}, {1, 0}, {-3, 0}} {
		for _, text := range []string{"apple", "apple banana cherry", "banana"} {
			for fu := 0; fu <= 4; fu++ {
				for _, k := range []int{3, 8, 20} {
					c.Evaluations++
					res, err := idx.NewSearch().WithVector(vCopyVec(q)).WithText(text).WithK(k).WithFusion(vFusionOf(fu)).Execute()
					if err != nil {
						c.Violation("search-error", "near-duplicates", cfgS, hist, err.Error())
						continue
					}
					for i := 1; i < len(res); i++ {
						if res[i-1].Score < res[i].Score {
							c.Violation("not-descending", "exactly:near-duplicates", cfgS, hist, fmt.Sprintf("vec=%v text=%q fusion=%d k=%d: rank %d has score %.17g, rank %d has %.17g (ids %d, %d)", q, text, fu, k, i-1, res[i-1].Score, i, res[i].Score, res[i-1].ID, res[i].ID))
							break
						}
					}
					seen := map[uint32]bool{}
					for _, r := range res {
						if seen[r.ID] {
							c.Violation("duplicate-id", "near-duplicates", cfgS, hist, fmt.Sprint(res))
						}
						seen[r.ID] = true
					}
					c.Nontrivial(fmt.Sprintf("neardup|%v|%s|%d|%d", q, text, fu, k))
				}
			}
		}
	}
	c.Traces++
	c.NewState(cfgS)
	c.Bound = "8 near-duplicate documents x 4 query vectors x 3 texts x 5 fusions x 3 k"
}

func vFusionOf(kind int) Fusion {
	switch kind {
	case 0:
		f, _ := NewFusion(WeightedSumFusion, &FusionConfig{VectorWeight: 1, TextWeight: 1, K: 60})
		return f
	case 1:
		f, _ := NewFusion(WeightedSumFusion, &FusionConfig{VectorWeight: 0.3, TextWeight: 0.7, K: 60})
		return f
	case 2:
		f, _ := NewFusion(ReciprocalRankFusion, &FusionConfig{VectorWeight: 1, TextWeight: 1, K: 60})
		return f
	case 3:
		f, _ := NewFusion(MaxFusion, nil)
		return f
	}
	f, _ := NewFusion(MinFusion, nil)
	return f
}

// bm25 reference over the hybrid's text corpus, restricted to candidate ids
func (s *vC05Sys) bm25(query string, cand map[uint32]bool) map[uint32]float64 {
	t := &vC03Sys{docs: s.tdocs}
	all := t.refScores(query)
	if cand == nil {
		return all
	}
	out := map[uint32]float64{}
	for id, v := range all {
		if cand[id] {
			out[id] = v
		}
	}
	return out
}

func (s *vC05Sys) observe(h []string) {
	mkey := s.Key()
	for qi, q := range s.qs {
		s.c.Evaluations++
		srch := s.idx.NewSearch().WithK(q.K).WithScoreAggregation(q.Agg)
		switch {
		case !q.ByKind:
			srch = srch.WithFusion(vFusionOf(q.Fusion))
		case q.Fusion == 2:
			srch = srch.WithFusionKind(ReciprocalRankFusion)
		case q.Fusion == 3:
			srch = srch.WithFusionKind(MaxFusion)
		case q.Fusion == 4:
			srch = srch.WithFusionKind(MinFusion)
		}
		if q.Vec != nil {
			srch = srch.WithVector(vCopyVec(q.Vec))
		}
		if q.Texts != nil {
			srch = srch.WithText(q.Texts...)
		}
		if q.Filter >= 5 && !s.seenN {
			// a comparison on a field that no document ever had is C04's business
			continue
		}
		cand, filters, groups := s.filter(q.Filter)
		if filters != nil {
			srch = srch.WithMetadata(filters...)
		}
		if groups != nil {
			srch = srch.WithMetadataGroups(groups...)
		}
		res, err := srch.Execute()
		wantErr := (q.Filter != 0 && !s.cfg.M) || (q.Vec != nil && !s.cfg.V) || (q.Texts != nil && !s.cfg.T)
		if wantErr {
			// corner: the filter matches nothing (=> empty result) AND an unconfigured
			// modality is queried (=> error): the statement admits both, accept either
			if err == nil && q.Filter != 0 && s.cfg.M && len(cand) == 0 && len(res) == 0 {
				continue
			}
			if err == nil {
				s.c.Violation("unconfigured-modality-accepted", "", s.cfgS, h, q.String())
			}
			s.c.Nontrivial(fmt.Sprintf("%s|err|%d", s.cfgS, qi))
			continue
		}
		if err != nil {
			s.c.Violation("search-error", "", s.cfgS, h, q.String()+": "+err.Error())
			continue
		}
		got := map[uint32]float64{}
		dup := false
		for i, r := range res {
			if _, ok := got[r.ID]; ok {
				dup = true
			}
			got[r.ID] = r.Score
			if i > 0 && res[i-1].Score < r.Score {
				s.c.Violation("not-descending", "", s.cfgS, h, fmt.Sprintf("%s: %v", q.String(), res))
			}
		}
		if dup || len(res) > q.K {
			s.c.Violation("duplicate-or-too-many", "", s.cfgS, h, fmt.Sprintf("%s: %v", q.String(), res))
			continue
		}
		var candSet map[uint32]bool
		if q.Filter != 0 {
			candSet = cand
			if len(cand) == 0 {
				if len(res) != 0 {
					s.c.Violation("empty-filter-set-returned-results", "", s.cfgS, h, fmt.Sprintf("%s: %v", q.String(), res))
				}
				s.c.Nontrivial(fmt.Sprintf("%s|%s|%d", s.cfgS, mkey, qi))
				continue
			}
		}
		for id := range got {
			if _, ok := s.live[id]; !ok {
				s.c.Violation("returned-dead-id", "", s.cfgS, h, fmt.Sprintf("%s: id %d", q.String(), id))
			}
			if candSet != nil && !candSet[id] {
				s.c.Violation("result-outside-filter", "", s.cfgS, h, fmt.Sprintf("%s: id %d not in %v", q.String(), id, vSetStr(candSet)))
			}
		}
		// per-modality top-k inside the candidate set
		judged := true
		var vecTop, txtTop map[uint32]float64
		if q.Vec != nil {
			all := map[uint32]float64{}
			for id, di := range s.live {
				if v := vC05Docs[di].Vec; v != nil && (candSet == nil || candSet[id]) {
					all[id] = vRefDist(Euclidean, q.Vec, v)
				}
			}
			var tie bool
			vecTop, tie = vTopK(all, q.K, true)
			if tie {
				judged = false
			}
		}
		if q.Texts != nil {
			per := map[uint32][]float64{}
			for _, tq := range q.Texts {
				top, tie := vTopK(s.bm25(tq, candSet), q.K, false)
				if tie {
					judged = false
				}
				for id, v := range top {
					per[id] = append(per[id], v)
				}
			}
			agg := map[uint32]float64{}
			for id, l := range per {
				v := 0.0
				switch q.Agg {
				case MaxAggregation:
					v = l[0]
					for _, x := range l {
						v = math.Max(v, x)
					}
				case MeanAggregation:
					for _, x := range l {
						v += x
					}
					v /= float64(len(l))
				default:
					for _, x := range l {
						v += x
					}
				}
				agg[id] = v
			}
			var tie bool
			txtTop, tie = vTopK(agg, q.K, false)
			if tie {
				judged = false
			}
		}
		if !judged {
			s.c.Extra["queries_skipped_tie_at_cut"]++
			continue
		}
		// acceptable expected score maps (permissive corners listed in DESIGN C05)
		var accept []map[uint32]float64
		both := q.Vec != nil && q.Texts != nil
		ones := func() map[uint32]float64 {
			m := map[uint32]float64{}
			for id := range candSet {
				m[id] = 1
			}
			return m
		}
		switch {
		case both && len(vecTop) > 0 && len(txtTop) > 0:
			if q.Fusion == 2 {
				if vHasTies(vecTop) || vHasTies(txtTop) {
					s.c.Extra["queries_skipped_rrf_rank_ties"]++
					continue
				}
				accept = append(accept, vFuse(2, vecTop, txtTop, 0), vFuse(2, vecTop, txtTop, 1))
			} else {
				accept = append(accept, vFuse(q.Fusion, vecTop, txtTop, 0))
			}
		case both:
			// exactly one (or no) modality returned hits: raw single-modality scores or fusion with an empty map
			single := vecTop
			if len(txtTop) > 0 {
				single = txtTop
			}
			accept = append(accept, single)
			if q.Fusion == 2 {
				if !vHasTies(single) {
					accept = append(accept, vFuse(2, vecTop, txtTop, 0), vFuse(2, vecTop, txtTop, 1))
				}
			} else {
				accept = append(accept, vFuse(q.Fusion, vecTop, txtTop, 0))
			}
		case q.Vec != nil:
			accept = append(accept, vecTop)
		case q.Texts != nil:
			accept = append(accept, txtTop)
		default:
			accept = append(accept, ones())
		}
		// a queried modality that returned nothing, together with a non-empty filter
		// set: empty result or score-1 fallback are both accepted
		if candSet != nil && (q.Vec != nil || q.Texts != nil) {
			emptyAll := true
			for _, m := range accept {
				if len(m) > 0 {
					emptyAll = false
				}
			}
			if emptyAll || (both && (len(vecTop) == 0 || len(txtTop) == 0)) {
				accept = append(accept, ones(), map[uint32]float64{})
			}
		}
		ok := false
		msgs := ""
		ids := make([]uint32, len(res))
		sc := make([]float32, len(res))
		for i, r := range res {
			ids[i], sc[i] = r.ID, float32(r.Score)
		}
		for _, m := range accept {
			msg := vAcceptDesc(ids, sc, m, q.K)
			if msg == "" {
				ok = true
				break
			}
			msgs += "[" + msg + "] "
		}
		if !ok {
			s.c.Violation("wrong-hybrid-answer", fmt.Sprintf("fusion=%d both=%v filter=%v", q.Fusion, both, q.Filter != 0), s.cfgS, h, fmt.Sprintf("%s: got %v; %s", q.String(), res, msgs))
		}
		if len(res) > 0 && (len(res) < len(s.live) || len(s.rem) > 0) {
			s.c.Nontrivial(fmt.Sprintf("%s|%s|%d", s.cfgS, mkey, qi))
		}
		s.c.Outcome(fmt.Sprint(ids))
	}
}

func (s *vC05Sys) Key() string { return s.keyCanon() + "#deep" + vDeepHash(s.idx) }

func (s *vC05Sys) keyCanon() string {
	ids := []int{}
	for id := range s.live {
		ids = append(ids, int(id))
	}
	sort.Ints(ids)
	var sb strings.Builder
	for _, id := range ids {
		fmt.Fprintf(&sb, "%d=%d;", id, s.live[uint32(id)])
	}
	tids := []int{}
	for id, d := range s.tdocs {
		if d.deleted {
			tids = append(tids, int(id))
		}
	}
	sort.Ints(tids)
	for _, id := range tids {
		fmt.Fprintf(&sb, "del%d=%q;", id, s.tdocs[uint32(id)].text)
	}
	fmt.Fprintf(&sb, "n%d rem%v", s.nAdd, vSetStr(s.rem))
	hi := s.idx.(*hybridSearchIndex)
	if hi.vectorIndex != nil {
		sb.WriteString("|V:" + vCanonVec(hi.vectorIndex))
	}
	return sb.String()
}

// vC05Passthrough: the vector part of a hybrid search IS a search of the underlying vector
// index with the caller's options. For every vector kind (4 clusters of data, so that the
// number of probed clusters / the beam width changes the answer) and for EVERY combination
// of k x nProbes x efSearch x threshold x filter, after each of n adds, after removals and
// after a flush, the vector-only hybrid answer must be the answer of a direct search on the
// same vector index object given the same options and the filter's id set.
func vC05Passthrough(c *vCtx, kind string, maxN int) {
	cfg := vVecCfg{Kind: kind, Metric: Euclidean, Dim: 2, M: 2, Ef: 4, NList: 4, NBits: 2, Train: 2}
	if kind == "pq" || kind == "ivfpq" {
		cfg.M = 1
	}
	cfgS := "hybrid passthrough " + cfg.String()
	vi, err := cfg.New()
	if err != nil {
		panic(err)
	}
	vFixLevels()
	h := NewHybridSearchIndex(vi, nil, NewRoaringMetadataIndex())
	centers := [][]float32{{0, 0}, {8, 0}, {0, 8}, {8, 8}}
	var hist []string
	live := map[uint32]string{}
	judge := func() {
		var xs []uint32
		for id, sv := range live {
			if sv == "x" {
				xs = append(xs, id)
			}
		}
		sort.Slice(xs, func(i, j int) bool { return xs[i] < xs[j] })
		for _, q := range [][]float32{{1, 1}, {4, 4}, {7.5, 0.5}} {
			for _, k := range []int{1, 3, 10, math.MaxInt64} {
				for _, np := range []int{0, 1, 2, 3, 4, 9} {
					for _, ef := range []int{0, 1, 64} {
						for _, thr := range []float32{0, 6.5} {
							for _, filt := range []bool{false, true} {
								if np == 0 && (kind == "ivf" || kind == "ivfpq") {
									continue // unset: the hybrid default (1) and the index default differ by design
								}
								if filt && len(xs) == 0 {
									continue
								}
								c.Evaluations++
								hs := h.NewSearch().WithVector(vCopyVec(q)).WithK(k)
								ds := vi.NewSearch().WithQuery(vCopyVec(q)).WithK(k)
								if np != 0 {
									hs, ds = hs.WithNProbes(np), ds.WithNProbes(np)
								}
								if ef != 0 {
									hs, ds = hs.WithEfSearch(ef), ds.WithEfSearch(ef)
								}
								if thr != 0 {
									hs, ds = hs.WithThreshold(thr), ds.WithThreshold(thr)
								}
								if filt {
									hs, ds = hs.WithMetadata(Eq("s", "x")), ds.WithDocumentIDs(xs...)
								}
								desc := fmt.Sprintf("q=%v k=%d nProbes=%d efSearch=%d thr=%v filter=%v", q, k, np, ef, thr, filt)
								hr, herr := hs.Execute()
								dr, derr := ds.Execute()
								if (herr != nil) != (derr != nil) {
									c.Violation("vector-options-not-passed-through", "error-differs", cfgS, hist, fmt.Sprintf("%s: hybrid err=%v, vector index err=%v", desc, herr, derr))
									continue
								}
								if herr != nil {
									continue
								}
								hsc, dsc := []float64{}, []float64{}
								for _, r := range hr {
									hsc = append(hsc, r.Score)
								}
								for _, r := range dr {
									dsc = append(dsc, float64(r.Score))
								}
								if len(dsc) == 0 && filt {
									// permissive corner (see Assumptions): the queried modality is
									// empty inside a non-empty filter set: empty or the score-1 fallback
									continue
								}
								sort.Float64s(hsc)
								sort.Float64s(dsc)
								same := len(hsc) == len(dsc)
								for i := 0; same && i < len(hsc); i++ {
									same = vApprox(hsc[i], dsc[i])
								}
								if !same {
									c.Violation("vector-options-not-passed-through", "", cfgS, hist, fmt.Sprintf("%s: hybrid scores %v, the vector index itself answers %v", desc, hsc, dsc))
								}
								if len(dsc) > 0 && len(dsc) < len(live) {
									c.Nontrivial(cfgS + desc + fmt.Sprint(len(live)))
								}
							}
						}
					}
				}
			}
		}
		c.NewState(cfgS + strings.Join(hist, ";"))
	}
	for i := 0; i < maxN; i++ {
		if c.Expired() {
			c.Bound = fmt.Sprintf("passthrough: deadline after %d adds", i)
			return
		}
		ctr := centers[i%4]
		v := []float32{ctr[0] + float32(i/4%3)*0.5, ctr[1] + float32(i/12)*0.5}
		sv := "x"
		if i%3 == 1 {
			sv = "y"
		}
		id := uint32(i + 1)
		if err := h.AddWithID(id, v, "", map[string]interface{}{"s": sv}); err != nil {
			c.Violation("add-failed", "passthrough", cfgS, hist, err.Error())
			return
		}
		live[id] = sv
		hist = append(hist, fmt.Sprintf("AddWithID(%d,%v,s=%s)", id, v, sv))
		c.Transitions++
		judge()
	}
	for id := uint32(2); int(id) <= maxN; id += 3 {
		if err := h.Remove(id); err != nil {
			c.Violation("remove-failed", "passthrough", cfgS, hist, err.Error())
			return
		}
		delete(live, id)
		hist = append(hist, fmt.Sprintf("Remove(%d)", id))
		c.Transitions++
		judge()
	}
	h.Flush()
	hist = append(hist, "Flush")
	judge()
	c.Traces++
	c.Sample(cfgS + ": hybrid vector-only search == direct search of the wrapped index for every option combination")
	c.Bound = fmt.Sprintf("passthrough: %d adds, every third removed, flush", maxN)
}

func init() {
	vRegister(&vCheck{
		ID: "C05", Level: "model_checking", Engine: "histmc",
		Rule:        "For all 8 subsets of configured sub-indexes (flat vector, BM25, metadata): BFS over AddWithID/Add/Remove histories over documents carrying any subset of modalities (duplicate vectors and texts included); in every reached state every query of the alphabet (vector in {none,2} x text in {none, 3 single, 1 double} x 5 filter shapes x k in {1,2,3,10} x 5 fusion configurations x aggregation) is compared with: model filter set, exact filtered k-NN, reference BM25 top-k inside the candidates, the fusion rule, descending order, error for unconfigured modalities, empty result for a filter matching nothing. Queries whose per-modality cut falls on a tie (implementation-defined selection) are skipped and counted. Non-trivial = distinct (config, state, query) with a non-empty answer where something was excluded or removed, plus error / empty-filter cases. Two documents carry a sparse numeric field; the filter alphabet includes the AND chains Eq(s,x), Lt(n,100) and Eq(s,x), Range(n,-10,10) (a comparison the number 0 would satisfy, on a field most documents lack).",
		Assumptions: []string{"permissive corners accepted either way: both modalities queried but one returned nothing (raw vs fused score); queried modality empty with a non-empty filter set (empty vs score-1 fallback); RRF rank origin 0 or 1", "exact vector sub-index (flat) only"},
		Shards: func(tier string) []vShard {
			var sh []vShard
			maxN := 3
			extra := 1
			if tier == "thorough" {
				extra = 2
			}
			for mask := 0; mask < 8; mask++ {
				cfg := vC05Cfg{V: mask&1 != 0, T: mask&2 != 0, M: mask&4 != 0}
				for d0 := range vC05Docs {
					d0 := d0

					sh = append(sh, vShard{Name: fmt.Sprintf("%s/first=%d", strings.ReplaceAll(cfg.String(), " ", ","), d0), Run: func(c *vCtx) {
						vBFSFrom(c, newC05Sys(c, cfg, maxN), maxN+extra, []vOp{{K: "AddWithID", A: 1, B: d0}})
					}})
				}
			}
			sh = append(sh, vShard{Name: "near-duplicates", Run: vC05NearDuplicates})
			pn := 16
			if tier == "thorough" {
				pn = 40
			}
			for _, kind := range []string{"flat", "hnsw", "ivf", "pq", "ivfpq"} {
				kind := kind
				sh = append(sh, vShard{Name: "passthrough/" + kind, Run: func(c *vCtx) { vC05Passthrough(c, kind, pn) }})
				bdepth := 3
				if tier == "thorough" && kind == "flat" {
					bdepth = 4
				}
				sh = append(sh, vShard{Name: "builders/" + kind, Run: func(c *vCtx) { vHybridBuilderShard(c, kind, bdepth) }})
			}
			return sh
		},
		Replay: func(c *vCtx, v *vViolation) bool {
			if v.Config == "hybrid near-duplicates" {
				vC05NearDuplicates(c)
				_, ok := c.viol[v.Sig()]
				return ok
			}
			if strings.HasPrefix(v.Config, "hybrid passthrough ") {
				vC05Passthrough(c, vParseVecCfg(strings.TrimPrefix(v.Config, "hybrid passthrough ")).Kind, 40)
				_, ok := c.viol[v.Sig()]
				return ok
			}
			var cfg vC05Cfg
			fmt.Sscanf(v.Config, "hybridsearch V=%t T=%t M=%t", &cfg.V, &cfg.T, &cfg.M)
			vReplayHist(newC05Sys(c, cfg, 3), v.History)
			_, ok := c.viol[v.Sig()]
			return ok
		},
	})
}
