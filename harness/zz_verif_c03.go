//go:build verif

package comet

// C03 — BM25 returns exactly the matching documents with textbook scores.

import (
	"fmt"
	"math"
	"sort"
	"strings"

	"github.com/clipperhouse/uax29/v2/words"
	"golang.org/x/text/unicode/norm"
)

// (the last text: a line break - a token of its own - and a symbol whose compatibility form
// consists of capitals although the symbol itself has no lower-case form: normalisation is
// NFKC first, then lower case)
var vC03Texts = []string{"", "a", "a a b", "b c", "A, b!", "a  b", "ﬁ É", "ａ", "c\n™ ℝ"}

// vRefTokens is the reference tokeniser: UAX#29 word segments of lower(NFKC(text)),
// calling the libraries directly (not comet's wrappers).
func vRefTokens(s string) []string {
	it := words.FromString(strings.ToLower(norm.NFKC.String(s)))
	var out []string
	for it.Next() {
		out = append(out, it.Value())
	}
	return out
}

type vC03Doc struct {
	text    string
	tokens  []string
	deleted bool
}

type vC03Sys struct {
	c         *vCtx
	cfgS      string
	nids      int
	inRecheck bool
	texts     []string
	extraQ    []string // additional queries (token-length shards)
	lean      bool     // long texts: fewer k / restrictions per query, no second evaluation
	idx       *BM25SearchIndex
	docs      map[uint32]*vC03Doc // documents not yet flushed away (incl. soft-deleted)
	ever      map[uint32]bool
	gone      map[uint32]bool // removed (soft-deleted or flushed away)
}

func (s *vC03Sys) Reset() {
	vResetGlobals()
	s.idx = NewBM25SearchIndex()
	s.docs = map[uint32]*vC03Doc{}
	s.ever = map[uint32]bool{}
	s.gone = map[uint32]bool{}
	heapPool.Reset()
	documentFilterPool.Reset()
}

func (s *vC03Sys) Enabled() []vOp {
	var ops []vOp
	// fresh add: the smallest unused id; replace: any live id
	for id := 1; id <= s.nids; id++ {
		if !s.ever[uint32(id)+vIDBase] {
			for ti := range s.texts {
				ops = append(ops, vOp{K: "Add", A: id, B: ti})
			}
			break
		}
	}
	for id := 1; id <= s.nids; id++ {
		if d, ok := s.docs[uint32(id)+vIDBase]; ok && !d.deleted {
			for ti := range s.texts {
				if s.texts[ti] != d.text {
					ops = append(ops, vOp{K: "Replace", A: id, B: ti})
				}
			}
		}
	}
	for id := 1; id <= s.nids; id++ {
		ops = append(ops, vOp{K: "Remove", A: id})
	}
	ops = append(ops, vOp{K: "Flush"})
	return ops
}

func (s *vC03Sys) Apply(op vOp, hist []vOp, check bool) {
	h := func() []string { return vHistStrings(append(hist, op)) }
	id := uint32(op.A) + vIDBase
	switch op.K {
	case "Add", "Replace":
		t := s.texts[op.B]
		if err := s.idx.Add(id, t); err != nil {
			if check {
				s.c.Violation("add-failed", "", s.cfgS, h(), err.Error())
			}
			break
		}
		s.docs[id] = &vC03Doc{text: t, tokens: vRefTokens(t)}
		s.ever[id] = true
		delete(s.gone, id)
	case "Remove":
		err := s.idx.Remove(id)
		if err != nil {
			break
		}
		if d, ok := s.docs[id]; ok && !d.deleted {
			d.deleted = true
			s.gone[id] = true
		}
	case "Flush":
		if err := s.idx.Flush(); err != nil && check {
			s.c.Violation("flush-error", "", s.cfgS, h(), err.Error())
		}
		for id, d := range s.docs {
			if d.deleted {
				delete(s.docs, id)
			}
		}
	}
	if check {
		s.observe(h())
	}
}

// refScores computes textbook BM25 over the not-yet-flushed corpus for the live documents.
func (s *vC03Sys) refScores(query string) map[uint32]float64 {
	qt := vRefTokens(query)
	out := map[uint32]float64{}
	N := float64(len(s.docs))
	if N == 0 || len(qt) == 0 {
		return out
	}
	total := 0
	for _, d := range s.docs {
		total += len(d.tokens)
	}
	avg := float64(total) / N
	for _, t := range qt {
		df := 0.0
		for _, d := range s.docs {
			for _, x := range d.tokens {
				if x == t {
					df++
					break
				}
			}
		}
		if df == 0 {
			continue
		}
		idf := math.Log((N-df+0.5)/(df+0.5) + 1)
		for id, d := range s.docs {
			if d.deleted {
				continue
			}
			tf := 0.0
			for _, x := range d.tokens {
				if x == t {
					tf++
				}
			}
			if tf == 0 {
				continue
			}
			dl := float64(len(d.tokens))
			out[id] += idf * tf * 2.2 / (tf + 1.2*(0.25+0.75*dl/avg))
		}
	}
	return out
}

// acceptDesc: acceptance relation for descending scores.
func vAcceptDesc(ids []uint32, scores []float32, ref map[uint32]float64, k int) string {
	var best []float64
	for _, v := range ref {
		best = append(best, v)
	}
	sort.Sort(sort.Reverse(sort.Float64Slice(best)))
	want := len(ref)
	if k > 0 && k < want {
		want = k
	}
	if len(ids) != want {
		return fmt.Sprintf("length %d, expected %d", len(ids), want)
	}
	seen := map[uint32]bool{}
	for i, id := range ids {
		if seen[id] {
			return fmt.Sprintf("id %d returned twice", id)
		}
		seen[id] = true
		r, ok := ref[id]
		if !ok {
			return fmt.Sprintf("id %d must not match", id)
		}
		if !vApprox(float64(scores[i]), r) {
			return fmt.Sprintf("id %d scored %v, reference %v", id, scores[i], r)
		}
		if i > 0 && scores[i-1] < scores[i] {
			return fmt.Sprintf("not descending at rank %d", i)
		}
		if !vApprox(float64(scores[i]), best[i]) {
			return fmt.Sprintf("rank %d has score %v but the %d-th best is %v", i, scores[i], i, best[i])
		}
	}
	return ""
}

func (s *vC03Sys) observe(h []string) {
	mkey := s.cfgS + fmt.Sprint(len(h))
	if !s.lean {
		mkey = s.Key()
	}
	if !s.inRecheck && !s.lean {
		defer func() {
			// searching must not change later answers: evaluate the alphabet once more
			s.inRecheck = true
			s.observe(h)
			s.inRecheck = false
		}()
	}
	// private statistics == those of the not-yet-flushed corpus
	s.c.Evaluations++
	total := 0
	for _, d := range s.docs {
		total += len(d.tokens)
	}
	if int(s.idx.numDocs.Load()) != len(s.docs) || s.idx.totalTokens != total {
		s.c.Violation("statistics-drift", "", s.cfgS, h, fmt.Sprintf("numDocs=%d totalTokens=%d, model %d docs %d tokens", s.idx.numDocs.Load(), s.idx.totalTokens, len(s.docs), total))
	}
	nDel := 0
	for _, d := range s.docs {
		if d.deleted {
			nDel++
		}
	}
	queries := []string{"a", "b", "a b", "z", "", "FI", " ", "c É", "tm", "\n", "r\nc"}
	queries = append(queries, s.extraQ...)
	for qi, q := range queries {
		ref := s.refScores(q)
		ks := []int{-1, 0, 1, 2, 10, math.MaxInt64}
		if s.lean {
			ks = []int{-1, 2}
		}
		for _, k := range ks {
			// restrictions: absent ids, and ids named twice (a restriction is a set)
			for ri, r := range [][]uint32{nil, {vIDBase + 1}, {vIDBase + 2, vIDBase + 9}, {vIDBase + 1, vIDBase + 1}, {vIDBase + 2, vIDBase + 1, vIDBase + 2}} {
				s.c.Evaluations++
				want := ref
				if len(r) > 0 {
					want = map[uint32]float64{}
					for _, id := range r {
						if v, ok := ref[id]; ok {
							want[id] = v
						}
					}
				}
				srch := s.idx.NewSearch().WithQuery(q).WithK(k)
				if len(r) > 0 {
					srch = srch.WithDocumentIDs(r...)
				}
				res, err := srch.Execute()
				if err != nil {
					s.c.Violation("search-error", "", s.cfgS, h, fmt.Sprintf("q=%q: %v", q, err))
					continue
				}
				ids := make([]uint32, len(res))
				sc := make([]float32, len(res))
				for i, x := range res {
					ids[i], sc[i] = x.Id, x.Score
				}
				if msg := vAcceptDesc(ids, sc, want, k); msg != "" {
					cause := ""
					for _, id := range ids {
						if d, ok := s.docs[id]; (ok && d.deleted) || (!ok && s.gone[id]) {
							cause = "returned-removed"
						}
					}
					s.c.Violation("wrong-answer", cause, s.cfgS, h, fmt.Sprintf("q=%q k=%d ids=%v: %s; got %v %v want %v", q, k, r, msg, ids, sc, want))
				}
				if len(want) > 0 && (nDel > 0 || len(want) < len(s.docs)-nDel || (k > 0 && k < len(want))) {
					s.c.Nontrivial(fmt.Sprintf("%s|%d|%d|%d", mkey, qi, k, ri))
				}
				s.c.Outcome(fmt.Sprint(ids))
			}
		}
	}
	// multi-query aggregation (k large enough that no per-query list is truncated)
	// (the last three: queries of one search that differ only in padding - white space and
	// punctuation segments are tokens, so each is a query of its own)
	combos := [][]string{{"a", "b"}, {"a", "a b", "c"}, {"z", "a"}, {"a", "a "}, {" b", "b", "b\u00a0"}, {"a", "a.", "A"}}
	for ci, combo := range combos {
		for _, agg := range []ScoreAggregationKind{SumAggregation, MaxAggregation, MeanAggregation} {
			for _, k := range []int{-1, len(s.docs) + 10} {
				s.c.Evaluations++
				per := map[uint32][]float64{}
				for _, q := range combo {
					for id, v := range s.refScores(q) {
						per[id] = append(per[id], v)
					}
				}
				want := map[uint32]float64{}
				for id, l := range per {
					v := 0.0
					switch agg {
					case SumAggregation:
						for _, x := range l {
							v += x
						}
					case MaxAggregation:
						v = l[0]
						for _, x := range l {
							v = math.Max(v, x)
						}
					case MeanAggregation:
						for _, x := range l {
							v += x
						}
						v /= float64(len(l))
					}
					want[id] = v
				}
				res, err := s.idx.NewSearch().WithQuery(combo...).WithK(k).WithScoreAggregation(agg).Execute()
				if err != nil {
					s.c.Violation("search-error", "multi", s.cfgS, h, err.Error())
					continue
				}
				ids := make([]uint32, len(res))
				sc := make([]float32, len(res))
				for i, x := range res {
					ids[i], sc[i] = x.Id, x.Score
				}
				if msg := vAcceptDesc(ids, sc, want, k); msg != "" {
					s.c.Violation("multi-query-aggregation", string(agg), s.cfgS, h, fmt.Sprintf("queries=%q agg=%s k=%d: %s; got %v %v want %v", combo, agg, k, msg, ids, sc, want))
				}
				if len(want) > 1 {
					s.c.Nontrivial(fmt.Sprintf("%s|multi%d|%s|%d", mkey, ci, agg, k))
				}
			}
		}
	}
}

func (s *vC03Sys) Key() string { return s.keyCanon() + "#deep" + vDeepHash(s.idx) }

func (s *vC03Sys) keyCanon() string {
	ids := []int{}
	for id := range s.docs {
		ids = append(ids, int(id))
	}
	sort.Ints(ids)
	var sb strings.Builder
	sb.WriteString(vCanonBM25(s.idx) + "#")
	for _, id := range ids {
		d := s.docs[uint32(id)]
		fmt.Fprintf(&sb, "%d=%q/%v;", id, d.text, d.deleted)
	}
	fmt.Fprintf(&sb, "ever%v gone%v", vSetStr(s.ever), vSetStr(s.gone))
	return sb.String()
}

// vC03Sweep: for every n in 1..maxN a corpus of n structured documents (every third
// removed, flush, one replace, one more add), full query alphabet after each phase.
func vC03Sweep(c *vCtx, maxN int) {
	words := []string{"a", "b", "c", "fi", "É", "a a", "b c a", ""}
	for n := 1; n <= maxN; n++ {
		if c.Expired() {
			c.Bound = fmt.Sprintf("sweep sizes 1..%d", n-1)
			return
		}
		texts := make([]string, n+2)
		for i := range texts {
			t := words[i%len(words)]
			if i%3 == 1 {
				t += " " + words[(i/3)%len(words)]
			}
			if i%5 == 2 {
				t += " a b"
			}
			texts[i] = t
		}
		s := &vC03Sys{c: c, cfgS: fmt.Sprintf("bm25 sweep n=%d", n) + vIDBaseTag(), nids: n + 2, texts: texts}
		s.Reset()
		var hist []vOp
		ap := func(op vOp, check bool) {
			s.Apply(op, hist, check)
			hist = append(hist, op)
			c.Transitions++
		}
		for i := 0; i < n; i++ {
			ap(vOp{K: "Add", A: i + 1, B: i}, i == n-1)
		}
		for i := 2; i < n; i += 3 {
			ap(vOp{K: "Remove", A: i + 1}, i+3 >= n)
		}
		ap(vOp{K: "Flush"}, true)
		ap(vOp{K: "Replace", A: 1, B: n}, true)
		ap(vOp{K: "Add", A: n + 1, B: n + 1}, true)
		c.Traces++
		c.NewState(s.cfgS)
	}
	c.Sample(fmt.Sprintf("n structured texts, every third removed, flush, replace, add; every n in 1..%d", maxN))
	c.Bound = fmt.Sprintf("sweep sizes 1..%d", maxN)
}

// vC03Endurance: one long-lived index: n identical searches (every answer equals the
// first), then n add / replace / remove cycles with a flush every 48, judged with the whole
// oracle every 997 cycles and at the end.
func vC03Endurance(c *vCtx, n int) {
	words := []string{"a", "b", "c", "fi", "a a", "b c a", "a b"}
	s := &vC03Sys{c: c, cfgS: fmt.Sprintf("bm25 endurance n=%d", n), nids: 8, texts: words}
	s.Reset()
	var hist []vOp
	ap := func(op vOp, check bool) {
		s.Apply(op, hist, check)
		if len(hist) < 64 {
			hist = append(hist, op)
		}
		c.Transitions++
	}
	for i := 0; i < 6; i++ {
		ap(vOp{K: "Add", A: i + 1, B: i}, false)
	}
	ap(vOp{K: "Remove", A: 1}, true)
	first := ""
	for i := 0; i < n; i++ {
		if i%4096 == 0 && c.Expired() {
			c.Bound = fmt.Sprintf("endurance: deadline after %d searches", i)
			return
		}
		res, err := s.idx.NewSearch().WithQuery("a b").WithK(-1).Execute()
		sc := make([]float64, len(res))
		for j, r := range res {
			sc[j] = float64(r.Score)
		}
		sort.Float64s(sc)
		got := fmt.Sprintf("%v|%v", err, sc)
		c.Evaluations++
		if i == 0 {
			first = got
		} else if got != first {
			c.Violation("answer-changed-after-many-searches", "", s.cfgS, vHistStrings(hist), fmt.Sprintf("search number %d returned [%s], the first one [%s]", i+1, got, first))
			break
		}
	}
	live := []int{2, 3, 4, 5, 6}
	for i := 0; i < n; i++ {
		if i%4096 == 0 && c.Expired() {
			c.Bound = fmt.Sprintf("endurance: deadline after %d cycles", i)
			return
		}
		id := 100 + i
		ap(vOp{K: "Add", A: id, B: i % len(words)}, false)
		live = append(live, id)
		if i%5 == 0 {
			ap(vOp{K: "Replace", A: live[1], B: (i + 3) % len(words)}, false)
		}
		ap(vOp{K: "Remove", A: live[0]}, i%997 == 0)
		live = live[1:]
		if i%48 == 47 {
			ap(vOp{K: "Flush"}, i%997 < 48)
		}
	}
	ap(vOp{K: "Flush"}, true)
	c.Traces++
	c.NewState(s.cfgS)
	c.Nontrivial(s.cfgS)
	c.Sample(fmt.Sprintf("bm25: %d searches then %d add/replace/remove cycles on one index", n, n))
}

// vC03Large: large corpora (1500 .. 5000 documents): three quarters removed at once (a
// single flush purges more than 1024 / 4096 documents), flush, some purged ids re-added
// with their old text and with another text, one fresh add; judged after every step.
func vC03Large(c *vCtx, sizes []int) {
	words := []string{"a", "b", "c", "fi", "É", "a a", "b c a", ""}
	for _, n := range sizes {
		if c.Expired() {
			c.Bound += fmt.Sprintf(" (deadline before large n=%d)", n)
			return
		}
		texts := make([]string, n+2)
		for i := range texts {
			t := words[i%len(words)]
			if i%3 == 1 {
				t += " " + words[(i/3)%len(words)]
			}
			if i%5 == 2 {
				t += " a b"
			}
			texts[i] = t
		}
		s := &vC03Sys{c: c, cfgS: fmt.Sprintf("bm25 large n=%d", n), nids: n + 2, texts: texts}
		s.Reset()
		var hist []vOp
		ap := func(op vOp, check bool) {
			s.Apply(op, hist, check)
			hist = append(hist, op)
			c.Transitions++
		}
		for i := 0; i < n; i++ {
			ap(vOp{K: "Add", A: i + 1, B: i}, i == n-1)
		}
		for i := 0; i < n; i++ {
			if i%4 != 0 {
				ap(vOp{K: "Remove", A: i + 1}, i >= n-2)
			}
		}
		ap(vOp{K: "Flush"}, true)
		ap(vOp{K: "Add", A: 2, B: 1}, true)     // purged id, its old text
		ap(vOp{K: "Add", A: 3, B: 6}, true)     // purged id, another text
		ap(vOp{K: "Add", A: n - 1, B: 0}, true) // late id
		ap(vOp{K: "Remove", A: 2}, true)
		ap(vOp{K: "Flush"}, true)
		ap(vOp{K: "Add", A: n + 1, B: n + 1}, true)
		c.Traces++
		c.NewState(s.cfgS)
	}
	c.Sample(fmt.Sprintf("bm25 corpora of sizes %v: 3/4 removed, flush, purged ids re-added, flush, fresh add", sizes))
}

// vC03Lengths: the LENGTH of a token / of a document as a swept size parameter. For every
// length L of the list and every family (a run of L ASCII letters, of L two-byte letters,
// of L digits, of L spaces between two words, of L newlines, a document of L short words)
// a four-document corpus around that text goes through add / remove / flush / replace /
// re-add and is judged with the whole query alphabet plus the long token itself as a query.
func vC03Lengths(c *vCtx, lens []int) {
	fams := []struct {
		name string
		mk   func(l int) (text, query string)
	}{
		{"letters", func(l int) (string, string) { t := strings.Repeat("x", l); return t, t }},
		{"two-byte letters", func(l int) (string, string) { t := strings.Repeat("é", l); return t, t }},
		{"digits", func(l int) (string, string) { t := strings.Repeat("7", l); return t, t }},
		{"spaces", func(l int) (string, string) { return "p" + strings.Repeat(" ", l) + "q", "q" }},
		{"newlines", func(l int) (string, string) { return "p" + strings.Repeat("\n", l) + "q", "q p" }},
		{"words", func(l int) (string, string) { return strings.Repeat("ab c ", l/2+1), "ab" }},
		{"letters after words", func(l int) (string, string) { t := strings.Repeat("y", l); return "a b " + t + " c", t + " c" }},
	}
	done := 0
	for _, l := range lens {
		for _, f := range fams {
			if c.Expired() {
				c.Bound = fmt.Sprintf("token / document lengths: %d of %d lengths x %d families (deadline)", done, len(lens), len(fams))
				return
			}
			text, q := f.mk(l)
			texts := []string{text + " a", "a b", "b " + text, text, "a", "c a " + text + " a"}
			s := &vC03Sys{c: c, cfgS: fmt.Sprintf("bm25 lengths family=%q L=%d", f.name, l), nids: 6, texts: texts, extraQ: []string{q, q + " a"}}
			s.Reset()
			var hist []vOp
			s.lean = l > 4097
			ap := func(op vOp, check bool) {
				s.Apply(op, hist, check || !s.lean)
				hist = append(hist, op)
				c.Transitions++
			}
			for i := 0; i < 4; i++ {
				ap(vOp{K: "Add", A: i + 1, B: i}, i == 3)
			}
			ap(vOp{K: "Remove", A: 3}, false)
			ap(vOp{K: "Flush"}, true)
			ap(vOp{K: "Replace", A: 1, B: 4}, false)
			ap(vOp{K: "Add", A: 3, B: 5}, true)
			c.Traces++
			c.NewState(s.cfgS)
		}
		done++
	}
	c.Bound = fmt.Sprintf("token / document lengths %v x %d families", lens, len(fams))
}

// vC03Colliding: a corpus of terms that collide under the usual 32-bit hashes (and
// anagrams); every term is a query; add all, remove every third, flush, replace, re-add.
func vC03Colliding(c *vCtx) {
	texts, queries := vSerCollidingTexts()
	s := &vC03Sys{c: c, cfgS: "bm25 colliding-terms", nids: len(texts) + 1, texts: texts, extraQ: queries, lean: true}
	s.Reset()
	var hist []vOp
	ap := func(op vOp, check bool) {
		s.Apply(op, hist, check)
		hist = append(hist, op)
		c.Transitions++
	}
	for i := range texts {
		ap(vOp{K: "Add", A: i + 1, B: i}, i%4 == 3 || i == len(texts)-1)
	}
	for i := 2; i < len(texts); i += 3 {
		ap(vOp{K: "Remove", A: i + 1}, false)
	}
	ap(vOp{K: "Flush"}, true)
	ap(vOp{K: "Replace", A: 1, B: 1}, true)
	ap(vOp{K: "Add", A: 3, B: 0}, true)
	c.Traces++
	c.NewState(s.cfgS)
	c.Bound = fmt.Sprintf("%d documents over %d hash-colliding term pairs", len(texts), len(texts)/2)
}

// vC03Runes: the token alphabet itself, exhaustively. For EVERY Unicode scalar value r in
// [lo, hi] (and, with marks, for every letter x combining mark pair) a one-document corpus
// "k <text>" is searched with the raw text, with its reference normal form
// lower(NFKC(text)) and with its upper-cased form; a hit is expected exactly when the
// reference token sets intersect, and the document "k <normal form>" must be found by the
// raw text under the same rule.
func vC03Runes(c *vCtx, lo, hi rune, marks bool) {
	cfg := fmt.Sprintf("bm25 runes %X..%X marks=%v", lo, hi, marks)
	judge := func(text string) {
		nf := strings.ToLower(norm.NFKC.String(text))
		for _, pair := range [][2]string{{text, text}, {text, nf}, {nf, text}, {text, strings.ToUpper(text)}, {strings.ToUpper(nf), text}} {
			doc, q := "k "+pair[0], pair[1]
			c.Evaluations++
			dt, qt := vRefTokens(doc), vRefTokens(q)
			want := false
			for _, a := range dt {
				for _, b := range qt {
					want = want || a == b
				}
			}
			ix := NewBM25SearchIndex()
			if err := ix.Add(1, doc); err != nil {
				c.Violation("add-error", "runes", cfg, []string{fmt.Sprintf("Add(1,%q)", doc)}, err.Error())
				continue
			}
			res, err := ix.NewSearch().WithQuery(q).WithK(-1).Execute()
			if err != nil {
				c.Violation("search-error", "runes", cfg, []string{fmt.Sprintf("Add(1,%q)", doc)}, err.Error())
				continue
			}
			if (len(res) == 1) != want || len(res) > 1 {
				c.Violation("wrong-token-matching", "", cfg, []string{fmt.Sprintf("Add(1,%q)", doc)}, fmt.Sprintf("query %q (%U): %d hits, reference tokens doc=%q query=%q => match=%v", q, []rune(q), len(res), dt, qt, want))
			}
			if want && nf != text {
				c.Nontrivial(cfg + text)
			}
		}
		c.Traces++
	}
	for r := lo; r <= hi; r++ {
		if r >= 0xD800 && r <= 0xDFFF {
			continue
		}
		if r%4096 == 0 && c.Expired() {
			c.Bound = fmt.Sprintf("runes %X..%X", lo, r-1)
			return
		}
		if !marks {
			judge(string(r))
			continue
		}
		for m := rune(0x300); m <= 0x36F; m++ {
			judge(string([]rune{r, m}))
		}
	}
	c.NewState(cfg)
	c.Bound = fmt.Sprintf("runes %X..%X", lo, hi)
	c.Sample(cfg + ": one-document corpus per text; raw / normal-form / upper-cased query and document")
}

func init() {
	vRegister(&vCheck{
		ID: "C03", Level: "model_checking", Engine: "histmc",
		Rule:        "BFS over Add(fresh id, text)/Replace(live id, other text)/Remove(live, removed, unknown id)/Flush histories on the real BM25SearchIndex over a text alphabet with empty text, repeated tokens, punctuation and whitespace tokens, a compatibility ligature, non-ASCII upper case and a full-width letter; in every reached state every (query x k x id restriction) and every multi-query x aggregation combination is compared (id set, per-id score, order, top-k multiset) with a from-scratch float64 Okapi BM25 over the not-yet-flushed corpus (soft-deleted documents count in N/df/avgdl until Flush), and the private running totals are compared with the model's. Non-trivial = distinct (state, query, k, restriction) with a non-empty expected answer where a soft-deleted document exists or restriction/k/non-matching actually excluded a live document.",
		Assumptions: []string{"uax29 and x/text NFKC are the trusted tokeniser (called directly by the oracle, not through comet's wrappers)", "float32 score vs float64 reference within 1e-5 relative", "re-adding a removed id is judged by C06"},
		Shards: func(tier string) []vShard {
			var sh []vShard
			depth, nids := 5, 3
			if tier == "thorough" {
				depth = 6
			}
			// shard by the first text
			for t0 := range vC03Texts {
				t0 := t0
				sh = append(sh, vShard{Name: fmt.Sprintf("bm25/first=%d", t0), Run: func(c *vCtx) {
					s := &vC03Sys{c: c, cfgS: fmt.Sprintf("bm25 ids=%d", nids), nids: nids, texts: vC03Texts}
					vBFSFrom(c, s, depth, []vOp{{K: "Add", A: 1, B: t0}})
				}})
			}
			maxN := 70
			if tier == "thorough" {
				maxN = 300
			}
			bdepth := 3
			if tier == "thorough" {
				bdepth = 4
			}
			sh = append(sh, vShard{Name: "bm25/builders", Run: func(c *vCtx) { vTextBuilderShard(c, bdepth) }})
			lens := []int{1, 2, 3, 63, 64, 65, 255, 256, 257, 1023, 1024, 1025, 4095, 4096, 4097, 16383, 16384, 16385, 32767, 32768, 32769, 65535, 65536, 65537, 70000, 131071, 131072, 131073}
			if tier == "thorough" {
				lens = append(lens, 262143, 262144, 262145, 1<<20-1, 1<<20, 1<<20+1)
			}
			for part := 0; part < 4; part++ {
				part := part
				var mine []int
				for i, l := range lens {
					if i%4 == part {
						mine = append(mine, l)
					}
				}
				sh = append(sh, vShard{Name: fmt.Sprintf("bm25/lengths/%d", part), Run: func(c *vCtx) { vC03Lengths(c, mine) }})
			}
			sh = append(sh, vShard{Name: "bm25/colliding", Run: vC03Colliding})
			// observation gaps (zz_verif_obsgap.go): three texts, two ids, Observe in the alphabet
			sh = append(sh, vShard{Name: "bm25/obsgap", Run: func(c *vCtx) {
				in := &vC03Sys{c: c, cfgS: "bm25 obsgap ids=2", nids: 2, texts: []string{"a", "a a b", "b c"}}
				vBFS(c, &vObsGapSys{inner: in}, 7)
			}})
			sh = append(sh, vShard{Name: "bm25/sweep", Run: func(c *vCtx) { vC03Sweep(c, maxN) }})
			sh = append(sh, vShard{Name: "bm25/endurance", Run: func(c *vCtx) { vC03Endurance(c, 70000) }})
			lg := [][]int{{1500}, {2600}}
			if tier == "thorough" {
				lg = [][]int{{1500}, {2600}, {5600}, {9000}}
			}
			for _, sz := range lg {
				sz := sz
				sh = append(sh, vShard{Name: fmt.Sprintf("bm25/large/%d", sz[0]), Run: func(c *vCtx) { vC03Large(c, sz) }})
			}
			for _, base := range vIDBases {
				base := base
				sh = append(sh, vShard{Name: fmt.Sprintf("bm25/bigids/%d", base), Run: func(c *vCtx) {
					vIDBase = base
					defer func() { vIDBase = 0 }()
					s := &vC03Sys{c: c, cfgS: fmt.Sprintf("bm25 ids=3 idbase=%d", base), nids: 3, texts: vC03Texts[:5]}
					vBFS(c, s, 4)
					vC03Sweep(c, 12)
				}})
			}
			// every Unicode scalar value as a token (8 shards), and letter x combining mark
			for i := 0; i < 8; i++ {
				lo, hi := rune(i*0x6000), rune((i+1)*0x6000-1) // 0..0x2FFFF: BMP, SMP, SIP
				sh = append(sh, vShard{Name: fmt.Sprintf("bm25/runes/%X", lo), Run: func(c *vCtx) { vC03Runes(c, lo, hi, false) }})
			}
			if tier == "thorough" {
				sh = append(sh, vShard{Name: "bm25/runes/30000", Run: func(c *vCtx) { vC03Runes(c, 0x30000, 0x10FFFF, false) }})
			}
			sh = append(sh, vShard{Name: "bm25/marks/latin", Run: func(c *vCtx) { vC03Runes(c, 0x41, 0x24F, true) }})
			sh = append(sh, vShard{Name: "bm25/marks/greek-cyrillic", Run: func(c *vCtx) { vC03Runes(c, 0x370, 0x4FF, true) }})
			return sh
		},
		Replay: func(c *vCtx, v *vViolation) bool {
			texts := vC03Texts
			if i := strings.Index(v.Config, " idbase="); i >= 0 {
				var b uint32
				fmt.Sscanf(v.Config[i:], " idbase=%d", &b)
				vIDBase = b
				defer func() { vIDBase = 0 }()
				texts = vC03Texts[:5]
			}
			if strings.HasPrefix(v.Config, "bm25 runes ") {
				var lo, hi rune
				var marks bool
				fmt.Sscanf(v.Config, "bm25 runes %X..%X marks=%t", &lo, &hi, &marks)
				vC03Runes(c, lo, hi, marks)
				_, ok := c.viol[v.Sig()]
				return ok
			}
			if strings.HasPrefix(v.Config, "bm25 endurance n=") {
				var n int
				fmt.Sscanf(v.Config, "bm25 endurance n=%d", &n)
				vC03Endurance(c, n)
				_, ok := c.viol[v.Sig()]
				return ok
			}
			if strings.HasPrefix(v.Config, "bm25 lengths ") {
				var l int
				if i := strings.LastIndex(v.Config, " L="); i >= 0 {
					fmt.Sscanf(v.Config[i:], " L=%d", &l)
				}
				vC03Lengths(c, []int{l})
				_, ok := c.viol[v.Sig()]
				return ok
			}
			if v.Config == "bm25 obsgap ids=2" {
				in := &vC03Sys{c: c, cfgS: v.Config, nids: 2, texts: []string{"a", "a a b", "b c"}}
				vReplayHist(&vObsGapSys{inner: in}, v.History)
				_, ok := c.viol[v.Sig()]
				return ok
			}
			if v.Config == "bm25 colliding-terms" {
				vC03Colliding(c)
				_, ok := c.viol[v.Sig()]
				return ok
			}
			if strings.HasPrefix(v.Config, "bm25 large n=") {
				var n int
				fmt.Sscanf(v.Config, "bm25 large n=%d", &n)
				vC03Large(c, []int{n})
				_, ok := c.viol[v.Sig()]
				return ok
			}
			if strings.HasPrefix(v.Config, "bm25 sweep n=") {
				var n int
				fmt.Sscanf(v.Config, "bm25 sweep n=%d", &n)
				vC03Sweep(c, n)
				_, ok := c.viol[v.Sig()]
				return ok
			}
			var nids int
			fmt.Sscanf(v.Config, "bm25 ids=%d", &nids)
			vReplayHist(&vC03Sys{c: c, cfgS: v.Config, nids: nids, texts: texts}, v.History)
			_, ok := c.viol[v.Sig()]
			return ok
		},
	})
}
