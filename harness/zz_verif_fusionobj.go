//go:build verif

package comet

// Fusion OBJECT histories (C19, shared with C05): fusion strategies and configurations are
// objects that callers keep, customise and reuse. Every sequence of <= depth steps over
//
//	customise   c := DefaultFusionConfig(); c.VectorWeight, c.TextWeight, c.K = 0.25, 3, 1
//	pristine?   DefaultFusionConfig() must (still) describe weights 1, 1 and K = 60
//	build       (re)create the seven fusion objects (nil config, DefaultFusion(), literal
//	            configs, max, min); fusions built earlier are kept and stay in use
//	combine(i)  every fusion object built so far combines input pair i (sizes 1 .. 90,
//	            so that consecutive calls grow, shrink and repeat sizes)
//
// is executed; every Combine result is compared with the rule computed from the
// configuration the object was BUILT with (nil = the documented defaults).

import (
	"fmt"
	"sort"
)

type vFusObj struct {
	name       string
	f          Fusion
	kind       int // 0 weighted sum, 1 rrf, 2 max, 3 min
	wv, wt, k  float64
	builtAt    int
	customised bool
}

func vFusInputs() [][2]map[uint32]float64 {
	sizes := []int{1, 2, 3, 4, 5, 6, 8, 12, 40, 60, 61, 90}
	var out [][2]map[uint32]float64
	for i, n := range sizes {
		m := sizes[(i+5)%len(sizes)]
		v, x := map[uint32]float64{}, map[uint32]float64{}
		for j := 0; j < n; j++ {
			v[uint32(j+1)] = 0.5 + float64((j*7)%n) + float64(j)/1024 // distinct
		}
		for j := 0; j < m; j++ {
			x[uint32(j+1+n/2)] = 1.25 + float64((j*5)%m) + float64(j)/2048
		}
		out = append(out, [2]map[uint32]float64{v, x})
	}
	return out
}

func vFusRef(o *vFusObj, v, x map[uint32]float64) []map[uint32]float64 {
	var accept []map[uint32]float64
	switch o.kind {
	case 0:
		m := map[uint32]float64{}
		for id, w := range v {
			m[id] = o.wv * w
		}
		for id, w := range x {
			m[id] += o.wt * w
		}
		accept = append(accept, m)
	case 1:
		rank := func(mm map[uint32]float64, asc bool) map[uint32]int {
			ids := make([]uint32, 0, len(mm))
			for id := range mm {
				ids = append(ids, id)
			}
			sort.Slice(ids, func(i, j int) bool {
				if asc {
					return mm[ids[i]] < mm[ids[j]]
				}
				return mm[ids[i]] > mm[ids[j]]
			})
			r := map[uint32]int{}
			for i, id := range ids {
				r[id] = i
			}
			return r
		}
		for origin := 0; origin <= 1; origin++ {
			m := map[uint32]float64{}
			for id, r := range rank(v, true) {
				m[id] += 1 / (o.k + float64(r+origin))
			}
			for id, r := range rank(x, false) {
				m[id] += 1 / (o.k + float64(r+origin))
			}
			accept = append(accept, m)
		}
	case 2:
		m := map[uint32]float64{}
		for id, w := range v {
			m[id] = w
		}
		for id, w := range x {
			if old, ok := m[id]; !ok || w > old {
				m[id] = w
			}
		}
		accept = append(accept, m)
	case 3:
		m := map[uint32]float64{}
		for id, w := range v {
			if w2, ok := x[id]; ok {
				if w2 < w {
					m[id] = w2
				} else {
					m[id] = w
				}
			}
		}
		accept = append(accept, m)
	}
	return accept
}

// vFusionObjectsRun executes one step sequence; steps: 0 customise, 1 pristine?, 2 build,
// 3+i combine(i).
func vFusionObjectsRun(c *vCtx, cfgS string, inputs [][2]map[uint32]float64, seq []int) {
	vResetGlobals()
	var objs []*vFusObj
	customised := false
	names := func(upto int) []string {
		var h []string
		for _, s := range seq[:upto+1] {
			switch {
			case s == 0:
				h = append(h, "customise(DefaultFusionConfig())")
			case s == 1:
				h = append(h, "DefaultFusionConfig() pristine?")
			case s == 2:
				h = append(h, "build fusions")
			default:
				h = append(h, fmt.Sprintf("combine(input %d: %d + %d ids)", s-3, len(inputs[s-3][0]), len(inputs[s-3][1])))
			}
		}
		return h
	}
	defer func() {
		// restore whatever a shared default object may have become (so that one sequence
		// cannot influence the next one if the code under test shares the object)
		if customised {
			d := DefaultFusionConfig()
			if d.VectorWeight == 0.25 {
				d.VectorWeight, d.TextWeight, d.K = 1, 1, 60
			}
		}
	}()
	for si, s := range seq {
		c.Transitions++
		switch {
		case s == 0:
			d := DefaultFusionConfig()
			d.VectorWeight, d.TextWeight, d.K = 0.25, 3, 1
			customised = true
		case s == 1:
			c.Evaluations++
			d := DefaultFusionConfig()
			if d == nil || d.VectorWeight != 1 || d.TextWeight != 1 || d.K != 60 {
				c.Violation("fusion-object-history", "default-config-not-pristine", cfgS, names(si), fmt.Sprintf("DefaultFusionConfig() returned %+v", d))
			}
		case s == 2:
			mk := func(kind FusionKind, cfg *FusionConfig) Fusion { f, _ := NewFusion(kind, cfg); return f }
			objs = append(objs,
				&vFusObj{"NewFusion(weighted_sum,nil)", mk(WeightedSumFusion, nil), 0, 1, 1, 60, si, customised},
				&vFusObj{"NewFusion(reciprocal_rank,nil)", mk(ReciprocalRankFusion, nil), 1, 1, 1, 60, si, customised},
				&vFusObj{"DefaultFusion()", DefaultFusion(), 0, 1, 1, 60, si, customised},
				&vFusObj{"NewFusion(reciprocal_rank,{1,1,60})", mk(ReciprocalRankFusion, &FusionConfig{VectorWeight: 1, TextWeight: 1, K: 60}), 1, 1, 1, 60, si, customised},
				&vFusObj{"NewFusion(weighted_sum,{.3,.7,60})", mk(WeightedSumFusion, &FusionConfig{VectorWeight: 0.3, TextWeight: 0.7, K: 60}), 0, 0.3, 0.7, 60, si, customised},
				&vFusObj{"NewFusion(max,nil)", mk(MaxFusion, nil), 2, 0, 0, 0, si, customised},
				&vFusObj{"NewFusion(min,nil)", mk(MinFusion, nil), 3, 0, 0, 0, si, customised},
			)
		default:
			in := inputs[s-3]
			for _, o := range objs {
				c.Evaluations++
				if o.f == nil {
					c.Violation("fusion-object-history", "constructor-failed", cfgS, names(si), o.name)
					continue
				}
				got := o.f.Combine(in[0], in[1])
				ok := false
				accept := vFusRef(o, in[0], in[1])
				for _, m := range accept {
					if vMapEq(got, m) {
						ok = true
					}
				}
				if !ok {
					var diff string
					for id, w := range accept[0] {
						if g, has := got[id]; !has || !vApprox(g, w) {
							diff = fmt.Sprintf("e.g. id %d: got %v (present=%v), rule gives %v", id, g, has, w)
							break
						}
					}
					c.Violation("fusion-object-history", "combine-differs-from-rule", cfgS, names(si),
						fmt.Sprintf("%s built at step %d: result of %d ids differs from the rule of the configuration it was built with (%s)", o.name, o.builtAt, len(got), diff))
				}
			}
		}
	}
	c.Traces++
}

func vFusionObjectsMC(c *vCtx, depth int) {
	inputs := vFusInputs()
	menu := 3 + len(inputs)
	cfgS := "fusion objects"
	seq := make([]int, 0, depth)
	var rec func()
	rec = func() {
		if len(seq) > 0 && seq[len(seq)-1] != 0 && seq[len(seq)-1] != 2 {
			// sequences ending in a judged step (pristine? or combine)
			vFusionObjectsRun(c, cfgS, inputs, seq)
			c.NewState(fmt.Sprint(seq))
		}
		if len(seq) == depth || c.Expired() {
			return
		}
		for i := 0; i < menu; i++ {
			if i >= 3 {
				// a combine before any build does nothing
				built := false
				for _, s := range seq {
					built = built || s == 2
				}
				if !built {
					continue
				}
			}
			seq = append(seq, i)
			rec()
			seq = seq[:len(seq)-1]
		}
	}
	rec()
	c.Bound = fmt.Sprintf("fusion object histories: every sequence of <= %d steps over customise / pristine? / build / combine(12 input pairs)", depth)
}

func init() {
	vClassReplay["fusion-object-history"] = func(c *vCtx, v *vViolation) bool {
		inputs := vFusInputs()
		var seq []int
		for _, h := range v.History {
			switch {
			case h == "customise(DefaultFusionConfig())":
				seq = append(seq, 0)
			case h == "DefaultFusionConfig() pristine?":
				seq = append(seq, 1)
			case h == "build fusions":
				seq = append(seq, 2)
			default:
				var i int
				fmt.Sscanf(h, "combine(input %d:", &i)
				seq = append(seq, 3+i)
			}
		}
		vFusionObjectsRun(c, v.Config, inputs, seq)
		_, ok := c.viol[v.Sig()]
		return ok
	}
}
