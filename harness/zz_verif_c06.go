//go:build verif

package comet

// C06 — writes are all-or-nothing, removals are total, remove+add updates (histmc).
// (a) hybrid index over flat x bm25 x metadata (and sub-index subsets) with failing
// adds in the 1st / 3rd sub-index; (b) the re-add protocol on each vector kind, BM25
// and the metadata index on their own.

import (
	"fmt"
	"math"
	"sort"
	"strings"
)

type vDoc struct {
	Vec  []float32
	Text string
	Meta map[string]interface{}
	Fail string // "", "wrongdim", "zero", "badmeta"
}

var vC06Docs = []vDoc{
	{Vec: []float32{1, 0}, Text: "alpha", Meta: map[string]interface{}{"s": "x"}},
	{Vec: []float32{0, 1}, Text: "beta", Meta: map[string]interface{}{"s": "y"}},
	{Vec: []float32{1, 0}}, // vector only (duplicate of doc 0's vector)
	{Text: "alpha \n beta", Meta: map[string]interface{}{"s": "y"}}, // text + metadata only; the line break is a token of its own
	{Vec: []float32{1, 0, 0}, Text: "alpha", Meta: map[string]interface{}{"s": "x"}, Fail: "wrongdim"},
	{Vec: []float32{3, 4}, Text: "gamma", Meta: map[string]interface{}{"s": "x", "bad": []int{1}}, Fail: "badmeta"},
	{Vec: []float32{3, 4}, Text: "gamma", Meta: map[string]interface{}{"bad": []int{1}}, Fail: "badmeta"},
	{Vec: []float32{0, 0}, Text: "alpha", Meta: map[string]interface{}{"s": "x"}, Fail: "zero"},
	// values whose acceptance is the implementation's choice (non-finite / out-of-range
	// floats): whichever way the call goes, it must go that way as a whole
	{Vec: []float32{3, 4}, Text: "gamma", Meta: map[string]interface{}{"s": "x", "f": math.NaN()}, Fail: "either:nan"},
	{Vec: []float32{3, 4}, Text: "gamma", Meta: map[string]interface{}{"s": "y", "f": 1e300}, Fail: "either:huge"},
	// a non-zero vector whose squared components underflow in float32 (its norm computes to
	// 0): a cosine index may refuse it or not, but the call goes one way as a whole
	{Vec: []float32{1e-30, 1e-30}, Text: "gamma", Meta: map[string]interface{}{"s": "x"}, Fail: "either:tinynorm"},
}

type vHybCfg struct {
	V, T, M bool
	Metric  DistanceKind
}

func (c vHybCfg) String() string {
	return fmt.Sprintf("hybrid V=%v T=%v M=%v metric=%s", c.V, c.T, c.M, c.Metric)
}

type vHybModelDoc struct {
	doc     int
	readded bool
}

type vHybSys struct {
	c        *vCtx
	cfg      vHybCfg
	cfgS     string
	idx      HybridSearchIndex
	live     map[uint32]vHybModelDoc
	removed  map[uint32]bool
	failed   map[uint32]string // id -> failure kind of the last failed add (cleared by a successful add)
	returned map[uint32]bool
	autoN    int
}

func (s *vHybSys) Reset() {
	vResetGlobals()
	var vi VectorIndex
	var ti TextIndex
	var mi MetadataIndex
	if s.cfg.V {
		f, _ := NewFlatIndex(2, s.cfg.Metric)
		vi = f
	}
	if s.cfg.T {
		ti = NewBM25SearchIndex()
	}
	if s.cfg.M {
		mi = NewRoaringMetadataIndex()
	}
	s.idx = NewHybridSearchIndex(vi, ti, mi)
	s.live = map[uint32]vHybModelDoc{}
	s.removed = map[uint32]bool{}
	s.failed = map[uint32]string{}
	s.returned = map[uint32]bool{}
	s.autoN = 0
	nodeIDCounter = 100 + vIDBase
	documentFilterPool.Reset()
	heapPool.Reset()
}

func (s *vHybSys) willFail(d vDoc) bool {
	switch d.Fail {
	case "wrongdim":
		return s.cfg.V
	case "zero":
		return s.cfg.V && s.cfg.Metric == Cosine
	case "badmeta":
		return s.cfg.M
	}
	return false
}

func (s *vHybSys) Enabled() []vOp {
	var ops []vOp
	for _, id := range []uint32{1, 2} {
		if _, ok := s.live[id+vIDBase]; ok {
			// AddWithID on an id that is still live: a valid one replaces the document
			// (the new content, and only the new content, is findable: documents 2 and 3
			// supply fewer modalities than 0 and 1), a failing one changes nothing
			for di := range vC06Docs {
				if di < 2 || (vC06Docs[di].Fail == "zero" && s.cfg.Metric != Cosine) {
					continue
				}
				ops = append(ops, vOp{K: "AddWithID", A: int(id), B: di})
			}
			continue
		}
		for di := range vC06Docs {
			if vC06Docs[di].Fail == "zero" && s.cfg.Metric != Cosine {
				continue
			}
			ops = append(ops, vOp{K: "AddWithID", A: int(id), B: di})
		}
	}
	if s.autoN < 2 {
		for _, di := range []int{0, 1, 5} {
			ops = append(ops, vOp{K: "Add", B: di})
		}
	}
	for _, id := range []uint32{1, 2, 3, 101} {
		ops = append(ops, vOp{K: "Remove", A: int(id)})
	}
	ops = append(ops, vOp{K: "Flush"})
	return ops
}

// vCloneMeta hands the code under test its own copy of a metadata map and remembers the
// copy; vSpoilMeta, called after the Add returned, overwrites and extends every remembered
// copy the way a caller that re-uses one map in an ingestion loop does. The map belongs to
// the caller: what was indexed is what the map held when Add was called.
var vHandedOut []map[string]interface{}

func vCloneMeta(m map[string]interface{}) map[string]interface{} {
	if m == nil {
		return nil
	}
	out := map[string]interface{}{}
	for k, v := range m {
		out[k] = v
	}
	if len(vHandedOut) >= 64 {
		vHandedOut = vHandedOut[:0] // call sites that never spoil
	}
	vHandedOut = append(vHandedOut, out)
	return out
}

func vSpoilMeta() {
	for _, m := range vHandedOut {
		for k := range m {
			switch m[k].(type) {
			case string:
				m[k] = "spoiled"
			case bool:
				m[k] = "spoiled"
			default:
				delete(m, k)
			}
		}
		m["spoiled"] = "later"
	}
	vHandedOut = vHandedOut[:0]
}

func (s *vHybSys) Apply(op vOp, hist []vOp, check bool) {
	h := func() []string { return vHistStrings(append(hist, op)) }
	switch op.K {
	case "AddWithID", "Add":
		d := vC06Docs[op.B]
		var id uint32
		var err error
		if op.K == "Add" {
			s.autoN++
			id, err = s.idx.Add(vCopyVec(d.Vec), d.Text, vCloneMeta(d.Meta))
			if err == nil {
				if check && (s.returned[id] || id == 0) {
					s.c.Violation("auto-id-repeated", "", s.cfgS, h(), fmt.Sprintf("Add returned id %d again", id))
				}
				s.returned[id] = true
			}
		} else {
			id = uint32(op.A) + vIDBase
			err = s.idx.AddWithID(id, vCopyVec(d.Vec), d.Text, vCloneMeta(d.Meta))
		}
		vSpoilMeta()
		wantFail := s.willFail(d)
		if strings.HasPrefix(d.Fail, "either:") {
			wantFail = err != nil // not judged: the model follows the acknowledged outcome
		}
		if check && wantFail != (err != nil) {
			s.c.Violation("add-result", fmt.Sprintf("fail=%s", d.Fail), s.cfgS, h(), fmt.Sprintf("%s doc %d returned %v, expected failure=%v", op.K, op.B, err, wantFail))
		}
		if err == nil {
			_, wasRemoved := s.removed[id]
			s.live[id] = vHybModelDoc{doc: op.B, readded: wasRemoved}
			delete(s.removed, id)
		} else if id != 0 || op.K == "AddWithID" {
			if op.K == "Add" {
				// the id of a failed auto-id add is not known to the caller; the harness
				// knows the counter value and uses it only to label leaked state
				id = nodeIDCounter
			}
			if !strings.Contains(s.failed[id], d.Fail) {
				s.failed[id] = strings.TrimPrefix(s.failed[id]+"+"+d.Fail, "+")
			}
		}
	case "Remove":
		id := uint32(op.A) + vIDBase
		err := s.idx.Remove(id)
		_, isLive := s.live[id]
		if check && isLive != (err == nil) {
			s.c.Violation("remove-result", fmt.Sprintf("live=%v", isLive), s.cfgS, h(), fmt.Sprintf("Remove(%d) returned %v", id, err))
		}
		if isLive && err == nil {
			delete(s.live, id)
			s.removed[id] = true
		}
	case "Flush":
		if err := s.idx.Flush(); err != nil && check {
			s.c.Violation("flush-error", "", s.cfgS, h(), err.Error())
		}
	}
	if check {
		s.observe(h())
	}
}

func (s *vHybSys) has(id uint32, mod byte) bool {
	md, ok := s.live[id]
	if !ok {
		return false
	}
	d := vC06Docs[md.doc]
	switch mod {
	case 'V':
		return s.cfg.V && len(d.Vec) > 0
	case 'T':
		return s.cfg.T && d.Text != ""
	case 'M':
		return s.cfg.M && len(d.Meta) > 0
	}
	return false
}

// diagnose labels an unexpected / missing id with a narrow witness tag.
func (s *vHybSys) diagnose(id uint32, present bool, mod string) string {
	if present {
		if f, ok := s.failed[id]; ok {
			// a failed add of this id is in the history: whatever is wrong with it now is
			// attributed to that (the failed add must have left every modality unchanged)
			return "after-failed-add:" + f + ":" + mod
		}
		if s.removed[id] {
			return "returned-removed:" + mod
		}
		if _, ok := s.live[id]; ok {
			return "stale-or-wrong-modality:" + mod
		}
		return "spurious:" + mod
	}
	if md, ok := s.live[id]; ok && md.readded {
		tag := "readd-invisible:" + mod
		if mod == "vector" && s.idx.VectorIndex() != nil {
			if b := vDeletedBitmap(s.idx.VectorIndex()); b != nil && b.Contains(id) {
				tag += ":deleted-bit-still-set"
			}
		}
		if mod == "text" {
			if t, ok := s.idx.TextIndex().(*BM25SearchIndex); ok && t.deletedDocs.Contains(id) {
				tag += ":deleted-bit-still-set"
			}
		}
		return tag
	}
	return "missing-live:" + mod
}

func (s *vHybSys) cmpSets(h []string, what, mod string, got []uint32, want map[uint32]bool) {
	s.c.Evaluations++
	gs := map[uint32]int{}
	for _, id := range got {
		gs[id]++
	}
	for id, n := range gs {
		if n > 1 {
			s.c.Violation("duplicate-id", s.diagnose(id, true, mod), s.cfgS, h, fmt.Sprintf("%s: id %d returned %d times", what, id, n))
		}
		if !want[id] {
			s.c.Violation("unexpected-id", s.diagnose(id, true, mod), s.cfgS, h, fmt.Sprintf("%s returned id %d; expected %v got %v", what, id, vSetStr(want), got))
		}
	}
	for id := range want {
		if gs[id] == 0 {
			s.c.Violation("missing-id", s.diagnose(id, false, mod), s.cfgS, h, fmt.Sprintf("%s misses id %d; expected %v got %v", what, id, vSetStr(want), got))
		}
	}
	if len(want) > 0 && (len(s.removed) > 0 || len(s.failed) > 0) {
		s.c.Nontrivial(s.cfgS + "|" + s.Key() + "|" + what)
	}
	s.c.Outcome(fmt.Sprint(vSetStr(want)))
}

func vSetStr(m map[uint32]bool) []uint32 {
	out := make([]uint32, 0, len(m))
	for id := range m {
		out = append(out, id)
	}
	sort.Slice(out, func(i, j int) bool { return out[i] < out[j] })
	return out
}

func (s *vHybSys) observe(h []string) {
	// vector probes
	if s.cfg.V {
		for _, q := range [][]float32{{1, 0}, {0, 1}} {
			want := map[uint32]bool{}
			for id := range s.live {
				if s.has(id, 'V') {
					want[id] = true
				}
			}
			res, err := s.idx.VectorIndex().NewSearch().WithQuery(vCopyVec(q)).WithK(-1).Execute()
			if err != nil {
				s.c.Violation("search-error", "vector-direct", s.cfgS, h, err.Error())
			} else {
				s.cmpSets(h, fmt.Sprintf("VectorIndex().search(%v)", q), "vector", vResIDs(res), want)
				for _, r := range res {
					if md, ok := s.live[r.Node.ID()]; ok && s.has(r.Node.ID(), 'V') {
						ref := vRefDist(s.cfg.Metric, q, vC06Docs[md.doc].Vec)
						if !vApprox(float64(r.Score), ref) {
							s.c.Violation("stale-content", s.diagnose(r.Node.ID(), true, "vector"), s.cfgS, h, fmt.Sprintf("id %d scored %v for %v, current content gives %v", r.Node.ID(), r.Score, q, ref))
						}
					}
				}
			}
			hres, err := s.idx.NewSearch().WithVector(vCopyVec(q)).WithK(10).Execute()
			if err != nil {
				s.c.Violation("search-error", "vector-hybrid", s.cfgS, h, err.Error())
			} else {
				ids := make([]uint32, len(hres))
				for i, r := range hres {
					ids[i] = r.ID
				}
				s.cmpSets(h, fmt.Sprintf("hybrid.search(vector %v)", q), "vector", ids, want)
			}
		}
	}
	if s.cfg.T {
		for _, tok := range []string{"alpha", "beta", "gamma", "\n"} {
			want := map[uint32]bool{}
			for id, md := range s.live {
				if s.has(id, 'T') && strings.Contains(" "+vC06Docs[md.doc].Text+" ", " "+tok+" ") {
					want[id] = true
				}
			}
			res, err := s.idx.TextIndex().NewSearch().WithQuery(tok).WithK(-1).Execute()
			if err != nil {
				s.c.Violation("search-error", "text-direct", s.cfgS, h, err.Error())
			} else {
				ids := make([]uint32, len(res))
				for i, r := range res {
					ids[i] = r.Id
				}
				s.cmpSets(h, fmt.Sprintf("TextIndex().search(%q)", tok), "text", ids, want)
			}
			hres, err := s.idx.NewSearch().WithText(tok).WithK(10).Execute()
			if err != nil {
				s.c.Violation("search-error", "text-hybrid", s.cfgS, h, err.Error())
			} else {
				ids := make([]uint32, len(hres))
				for i, r := range hres {
					ids[i] = r.ID
				}
				s.cmpSets(h, fmt.Sprintf("hybrid.search(text %q)", tok), "text", ids, want)
			}
		}
	}
	if s.cfg.M {
		for _, val := range []string{"x", "y", ""} {
			want := map[uint32]bool{}
			for id, md := range s.live {
				if s.has(id, 'M') && (val == "" || vC06Docs[md.doc].Meta["s"] == val) {
					want[id] = true
				}
			}
			ms := s.idx.MetadataIndex().NewSearch()
			if val != "" {
				ms = ms.WithFilters(Eq("s", val))
			}
			res, err := ms.Execute()
			if err != nil {
				s.c.Violation("search-error", "metadata-direct", s.cfgS, h, err.Error())
			} else {
				ids := make([]uint32, len(res))
				for i, r := range res {
					ids[i] = r.GetId()
				}
				s.cmpSets(h, fmt.Sprintf("MetadataIndex().search(s=%q)", val), "metadata", ids, want)
			}
			if val != "" {
				hres, err := s.idx.NewSearch().WithMetadata(Eq("s", val)).WithK(10).Execute()
				if err != nil {
					s.c.Violation("search-error", "metadata-hybrid", s.cfgS, h, err.Error())
				} else {
					ids := make([]uint32, len(hres))
					for i, r := range hres {
						ids[i] = r.ID
					}
					s.cmpSets(h, fmt.Sprintf("hybrid.search(s=%q)", val), "metadata", ids, want)
				}
			}
		}
	}
}

func (s *vHybSys) Key() string { return s.keyCanon() + "#deep" + vDeepHash(s.idx) }

func (s *vHybSys) keyCanon() string {
	var sb strings.Builder
	hi := s.idx.(*hybridSearchIndex)
	ids := make([]int, 0, len(hi.docInfo))
	for id := range hi.docInfo {
		ids = append(ids, int(id))
	}
	sort.Ints(ids)
	for _, id := range ids {
		di := hi.docInfo[uint32(id)]
		fmt.Fprintf(&sb, "%d:%v%v%v;", id, di.hasVector, di.hasText, di.hasMetadata)
	}
	if hi.vectorIndex != nil {
		sb.WriteString("|V:" + vCanonVec(hi.vectorIndex))
	}
	if t, ok := hi.textIndex.(*BM25SearchIndex); ok && t != nil {
		sb.WriteString("|T:" + vCanonBM25(t))
	}
	if m, ok := hi.metadataIndex.(*RoaringMetadataIndex); ok && m != nil {
		sb.WriteString("|M:" + vCanonMeta(m))
	}
	// model
	sb.WriteString("#")
	mids := make([]int, 0)
	for id := range s.live {
		mids = append(mids, int(id))
	}
	sort.Ints(mids)
	for _, id := range mids {
		fmt.Fprintf(&sb, "%d=%d/%v;", id, s.live[uint32(id)].doc, s.live[uint32(id)].readded)
	}
	fmt.Fprintf(&sb, "R%v F%v A%d C%d", vSetStr(s.removed), s.failed, s.autoN, nodeIDCounter)
	return sb.String()
}

func vCanonBM25(t *BM25SearchIndex) string {
	var sb strings.Builder
	ids := make([]int, 0, len(t.docTokens))
	for id := range t.docTokens {
		ids = append(ids, int(id))
	}
	sort.Ints(ids)
	for _, id := range ids {
		fmt.Fprintf(&sb, "%d:%q/%d;", id, t.docTokens[uint32(id)], t.docLengths[uint32(id)])
	}
	toks := make([]string, 0, len(t.postings))
	for k := range t.postings {
		toks = append(toks, k)
	}
	sort.Strings(toks)
	for _, k := range toks {
		fmt.Fprintf(&sb, "%q=%v/", k, t.postings[k].ToArray())
		tids := make([]int, 0)
		for id := range t.tf[k] {
			tids = append(tids, int(id))
		}
		sort.Ints(tids)
		for _, id := range tids {
			fmt.Fprintf(&sb, "%d^%d,", id, t.tf[k][uint32(id)])
		}
		sb.WriteString(";")
	}
	tfOnly := make([]string, 0)
	for k := range t.tf {
		if _, ok := t.postings[k]; !ok {
			tfOnly = append(tfOnly, k)
		}
	}
	sort.Strings(tfOnly)
	fmt.Fprintf(&sb, "tfonly%q n=%d tot=%d avg=%v del=%v", tfOnly, t.numDocs.Load(), t.totalTokens, t.avgDocLen, t.deletedDocs.ToArray())
	return sb.String()
}

func vCanonMeta(m *RoaringMetadataIndex) string {
	var sb strings.Builder
	fmt.Fprintf(&sb, "all=%v;", m.allDocs.ToArray())
	keys := make([]string, 0, len(m.categorical))
	for k := range m.categorical {
		keys = append(keys, k)
	}
	sort.Strings(keys)
	for _, k := range keys {
		fmt.Fprintf(&sb, "%q=%v;", k, m.categorical[k].ToArray())
	}
	nk := make([]string, 0, len(m.numeric))
	for k := range m.numeric {
		nk = append(nk, k)
	}
	sort.Strings(nk)
	for _, k := range nk {
		b := m.numeric[k]
		ex := b.GetExistenceBitmap().ToArray()
		fmt.Fprintf(&sb, "%q:", k)
		for _, id := range ex {
			v, _ := b.GetValue(uint64(id))
			fmt.Fprintf(&sb, "%d=%d,", id, v)
		}
		sb.WriteString(";")
	}
	return sb.String()
}

// ---------------------------------------------------------------------------
// (b) re-add protocol on single indexes

type vReaddSys struct {
	c     *vCtx
	kind  string // flat hnsw ivf pq ivfpq bm25 metadata
	cfg   vVecCfg
	cfgS  string
	vidx  VectorIndex
	tidx  *BM25SearchIndex
	midx  *RoaringMetadataIndex
	live  map[uint32]int // id -> content index
	readd map[uint32]bool
	rem   map[uint32]bool
}

var vReaddVecs = [][]float32{{1, 0}, {0, 1}, {3, 4}}
var vReaddTexts = []string{"alpha", "beta \n alpha", "gamma alpha"} // (the second text holds a line break: a token of its own)
var vReaddMeta = []map[string]interface{}{{"s": "x", "n": 1}, {"s": "y", "n": 2}, {"s": "z", "b": true}}

func (s *vReaddSys) Reset() {
	vResetGlobals()
	vFixLevels()
	s.live = map[uint32]int{}
	s.readd = map[uint32]bool{}
	s.rem = map[uint32]bool{}
	s.vidx, s.tidx, s.midx = nil, nil, nil
	switch s.kind {
	case "bm25":
		s.tidx = NewBM25SearchIndex()
	case "metadata":
		s.midx = NewRoaringMetadataIndex()
	default:
		idx, err := s.cfg.New()
		if err != nil {
			panic(err)
		}
		s.vidx = idx
	}
	documentFilterPool.Reset()
	minHeapPool.Reset()
	maxHeapPool.Reset()
	heapPool.Reset()
}

func (s *vReaddSys) Enabled() []vOp {
	var ops []vOp
	for _, id := range []uint32{1, 2} {
		if _, ok := s.live[id+vIDBase]; ok {
			continue
		}
		for ci := 0; ci < 3; ci++ {
			ops = append(ops, vOp{K: "Add", A: int(id), B: ci})
		}
	}
	for _, id := range []uint32{1, 2} {
		if _, ok := s.live[id+vIDBase]; ok {
			ops = append(ops, vOp{K: "Remove", A: int(id)})
		}
	}
	ops = append(ops, vOp{K: "Flush"})
	return ops
}

func (s *vReaddSys) Apply(op vOp, hist []vOp, check bool) {
	h := func() []string { return vHistStrings(append(hist, op)) }
	id := uint32(op.A) + vIDBase
	var err error
	switch op.K {
	case "Add":
		switch {
		case s.vidx != nil:
			err = s.vidx.Add(*NewVectorNodeWithID(id, vCopyVec(vReaddVecs[op.B])))
		case s.tidx != nil:
			err = s.tidx.Add(id, vReaddTexts[op.B])
		case s.midx != nil:
			err = s.midx.Add(*NewMetadataNodeWithID(id, vCloneMeta(vReaddMeta[op.B])))
			vSpoilMeta()
		}
		if err != nil {
			if check {
				s.c.Violation("add-failed", s.kind, s.cfgS, h(), err.Error())
			}
		} else {
			s.live[id] = op.B
			if s.rem[id] {
				s.readd[id] = true
			}
			delete(s.rem, id)
		}
	case "Remove":
		switch {
		case s.vidx != nil:
			err = s.vidx.Remove(*NewVectorNodeWithID(id, nil))
		case s.tidx != nil:
			err = s.tidx.Remove(id)
		case s.midx != nil:
			err = s.midx.Remove(*NewMetadataNodeWithID(id, nil))
		}
		if err != nil {
			if check {
				s.c.Violation("remove-failed", s.kind, s.cfgS, h(), err.Error())
			}
		} else {
			delete(s.live, id)
			s.rem[id] = true
		}
	case "Flush":
		switch {
		case s.vidx != nil:
			err = s.vidx.Flush()
		case s.tidx != nil:
			err = s.tidx.Flush()
		case s.midx != nil:
			err = s.midx.Flush()
		}
	}
	if check {
		s.observe(h())
	}
}

func (s *vReaddSys) tag(id uint32, present bool) string {
	t := s.kind + ":"
	if present {
		if s.rem[id] {
			return t + "returned-removed"
		}
		return t + "stale-content"
	}
	if s.readd[id] {
		t += "readd-invisible"
		if s.vidx != nil {
			if b := vDeletedBitmap(s.vidx); b != nil && b.Contains(id) {
				t += ":deleted-bit-still-set"
			}
		}
		if s.tidx != nil && s.tidx.deletedDocs.Contains(id) {
			t += ":deleted-bit-still-set"
		}
		return t
	}
	if h, ok := s.vidx.(*HNSWIndex); ok && h.deletedNodes.Contains(h.entryPoint) {
		return t + "missing-live:hnsw-entry-point-soft-deleted"
	}
	return t + "missing-live"
}

func (s *vReaddSys) observe(h []string) {
	key := ""
	nt := func(what string) {
		if len(s.rem) > 0 || len(s.readd) > 0 {
			if key == "" {
				key = s.Key()
			}
			s.c.Nontrivial(s.cfgS + "|" + key + "|" + what)
		}
	}
	switch {
	case s.vidx != nil:
		for qi, q := range vReaddVecs {
			s.c.Evaluations++
			res, err := s.vidx.NewSearch().WithQuery(vCopyVec(q)).WithK(-1).WithNProbes(-1).WithEfSearch(64).Execute()
			if err != nil {
				s.c.Violation("search-error", s.kind, s.cfgS, h, err.Error())
				continue
			}
			got := map[uint32]float32{}
			for _, r := range res {
				id := r.Node.ID()
				if _, dup := got[id]; dup {
					s.c.Violation("duplicate-id", s.tag(id, true), s.cfgS, h, fmt.Sprintf("query %v: id %d twice: [%s]", q, id, vResStr(res)))
				}
				got[id] = r.Score
				ci, ok := s.live[id]
				if !ok {
					s.c.Violation("unexpected-id", s.tag(id, true), s.cfgS, h, fmt.Sprintf("query %v returned id %d: [%s]", q, id, vResStr(res)))
					continue
				}
				ref, _ := vKindScore(s.vidx, s.cfg.Metric, q, id, vReaddVecs[ci])
				if !vApprox(float64(r.Score), ref) {
					s.c.Violation("stale-content", s.tag(id, true), s.cfgS, h, fmt.Sprintf("query %v: id %d scored %v, current content gives %v", q, id, r.Score, ref))
				}
			}
			for id := range s.live {
				if _, ok := got[id]; !ok {
					s.c.Violation("missing-id", s.tag(id, false), s.cfgS, h, fmt.Sprintf("query %v misses live id %d: [%s]", q, id, vResStr(res)))
				}
			}
			nt(fmt.Sprint("q", qi))
			s.c.Outcome(fmt.Sprint(vResIDs(res)))
		}
		// findable with ordinary search parameters too: a query equal to a document's
		// current vector, probing ONE cluster (the hybrid index's default), must return
		// that document (it lives in the cluster of its nearest centroid); skipped when
		// two centroids are equally near
		for id, ci := range s.live {
			q := vReaddVecs[ci]
			if x, ok := s.vidx.(*IVFIndex); ok && vCentroidTie(x.distance, x.centroids, q) {
				continue
			}
			if x, ok := s.vidx.(*IVFPQIndex); ok && vCentroidTie(x.distance, x.centroids, q) {
				continue
			}
			s.c.Evaluations++
			res, err := s.vidx.NewSearch().WithQuery(vCopyVec(q)).WithK(-1).WithNProbes(1).Execute()
			if err != nil {
				s.c.Violation("search-error", s.kind, s.cfgS, h, err.Error())
				continue
			}
			found := false
			for _, r := range res {
				if r.Node.ID() == id {
					found = true
				}
			}
			if !found {
				s.c.Violation("missing-id", s.tag(id, false)+":single-probe-self-query", s.cfgS, h, fmt.Sprintf("query = current vector %v of id %d with nprobes=1 returns [%s]", q, id, vResStr(res)))
			}
		}
	case s.tidx != nil:
		for _, tok := range []string{"alpha", "beta", "gamma", "\n"} {
			s.c.Evaluations++
			res, err := s.tidx.NewSearch().WithQuery(tok).WithK(-1).Execute()
			if err != nil {
				s.c.Violation("search-error", s.kind, s.cfgS, h, err.Error())
				continue
			}
			got := map[uint32]bool{}
			for _, r := range res {
				got[r.Id] = true
				ci, ok := s.live[r.Id]
				if !ok || !strings.Contains(" "+vReaddTexts[ci]+" ", " "+tok+" ") {
					s.c.Violation("unexpected-id", s.tag(r.Id, true), s.cfgS, h, fmt.Sprintf("query %q returned id %d", tok, r.Id))
				}
			}
			for id, ci := range s.live {
				if strings.Contains(" "+vReaddTexts[ci]+" ", " "+tok+" ") && !got[id] {
					s.c.Violation("missing-id", s.tag(id, false), s.cfgS, h, fmt.Sprintf("query %q misses live id %d", tok, id))
				}
			}
			nt(tok)
			s.c.Outcome(fmt.Sprint(vSetStr(got)))
		}
	case s.midx != nil:
		for _, f := range []Filter{Eq("s", "x"), Eq("s", "y"), Eq("s", "z"), Eq("n", 1), Eq("n", 2), Eq("b", true), Exists("n"), {}} {
			s.c.Evaluations++
			ms := s.midx.NewSearch()
			if f.Field != "" {
				ms = ms.WithFilters(f)
			}
			res, err := ms.Execute()
			if err != nil {
				s.c.Violation("search-error", s.kind, s.cfgS, h, err.Error())
				continue
			}
			got := map[uint32]bool{}
			for _, r := range res {
				got[r.GetId()] = true
			}
			want := map[uint32]bool{}
			for id, ci := range s.live {
				md := vReaddMeta[ci]
				switch {
				case f.Field == "":
					want[id] = true
				case f.Operator == OpExists:
					if _, ok := md[f.Field]; ok {
						want[id] = true
					}
				default:
					if v, ok := md[f.Field]; ok && v == f.Value {
						want[id] = true
					}
				}
			}
			for id := range got {
				if !want[id] {
					s.c.Violation("unexpected-id", s.tag(id, true), s.cfgS, h, fmt.Sprintf("filter %v returned id %d", f, id))
				}
			}
			for id := range want {
				if !got[id] {
					s.c.Violation("missing-id", s.tag(id, false), s.cfgS, h, fmt.Sprintf("filter %v misses id %d", f, id))
				}
			}
			nt(fmt.Sprint(f))
			s.c.Outcome(fmt.Sprint(vSetStr(got)))
		}
	}
}

func (s *vReaddSys) Key() string {
	var sb strings.Builder
	switch {
	case s.vidx != nil:
		sb.WriteString(vCanonVec(s.vidx))
	case s.tidx != nil:
		sb.WriteString(vCanonBM25(s.tidx))
	case s.midx != nil:
		sb.WriteString(vCanonMeta(s.midx))
	}
	ids := []int{}
	for id := range s.live {
		ids = append(ids, int(id))
	}
	sort.Ints(ids)
	sb.WriteString("#")
	for _, id := range ids {
		fmt.Fprintf(&sb, "%d=%d;", id, s.live[uint32(id)])
	}
	fmt.Fprintf(&sb, "rem%v readd%v", vSetStr(s.rem), vSetStr(s.readd))
	return sb.String()
}

func vC06ReaddCfgs() []vVecCfg {
	return []vVecCfg{
		{Kind: "flat", Metric: Euclidean, Dim: 2},
		{Kind: "flat", Metric: Cosine, Dim: 2},
		{Kind: "hnsw", Metric: Euclidean, Dim: 2, M: 2, Ef: 8},
		{Kind: "hnsw", Metric: Cosine, Dim: 2, M: 3, Ef: 8},
		{Kind: "ivf", Metric: Euclidean, Dim: 2, NList: 2, Train: 0},
		{Kind: "pq", Metric: Euclidean, Dim: 2, M: 2, NBits: 2, Train: 0},
		{Kind: "ivfpq", Metric: Euclidean, Dim: 2, NList: 2, M: 1, NBits: 2, Train: 0},
		{Kind: "bm25"},
		{Kind: "metadata"},
	}
}

func vHybCfgs() []vHybCfg {
	return []vHybCfg{
		{V: true, T: true, M: true, Metric: Euclidean},
		{V: true, T: true, M: true, Metric: Cosine},
		{V: true, T: true, M: false, Metric: Euclidean},
		{V: true, T: false, M: true, Metric: Euclidean},
		{V: false, T: true, M: true, Metric: Euclidean},
	}
}

func vParseHybCfg(s string) vHybCfg {
	var c vHybCfg
	var metric string
	fmt.Sscanf(s, "hybrid V=%t T=%t M=%t metric=%s", &c.V, &c.T, &c.M, &metric)
	c.Metric = DistanceKind(metric)
	return c
}

func init() {
	vRegister(&vCheck{
		ID: "C06", Level: "model_checking", Engine: "histmc",
		Rule:        "BFS over Add / AddWithID (valid, failing in the 1st sub-index: wrong dimension or zero vector under cosine, failing in the 3rd: unsupported metadata type) / Remove (live, removed, never-added, auto id) / Flush / re-AddWithID of a removed id on the real hybrid index (5 sub-index configurations), and over Add/Remove/Flush/re-Add on each of flat, hnsw, ivf, pq, ivfpq, bm25, metadata alone. After every transition every modality is probed through the hybrid search and directly on VectorIndex()/TextIndex()/MetadataIndex() and compared (id sets, per-id score of current content) with a map id->content. Non-trivial = distinct (config, state, probe) with a removal or failed add in the history and a non-empty expected answer.",
		Assumptions: []string{"AddWithID on a live id is outside the statement and not offered", "BM25 Add cannot fail, so a 2nd-stage failure cannot be produced", "hnsw single-index scenario uses efSearch 64 >= resident nodes"},
		Shards: func(tier string) []vShard {
			var sh []vShard
			dh, dr := 4, 6
			if tier == "thorough" {
				dh, dr = 5, 8
			}
			for _, cfg := range vHybCfgs() {
				cfg := cfg
				sh = append(sh, vShard{Name: strings.ReplaceAll(cfg.String(), " ", ","), Run: func(c *vCtx) {
					vBFS(c, &vHybSys{c: c, cfg: cfg, cfgS: cfg.String()}, dh)
				}})
			}
			for _, cfg := range vC06ReaddCfgs() {
				cfg := cfg
				sh = append(sh, vShard{Name: "readd/" + strings.ReplaceAll(cfg.String(), " ", ","), Run: func(c *vCtx) {
					vBFS(c, &vReaddSys{c: c, kind: cfg.Kind, cfg: cfg, cfgS: "readd " + cfg.String()}, dr)
				}})
			}
			// observation gaps (zz_verif_obsgap.go) on the hybrid index
			sh = append(sh, vShard{Name: "obsgap/hybrid", Run: func(c *vCtx) {
				cfg := vHybCfgs()[0]
				vBFS(c, &vObsGapSys{inner: &vHybSys{c: c, cfg: cfg, cfgS: cfg.String() + " obsgap"}}, 4)
			}})
			// the same spaces with every id shifted to around 2^16 and 2^31 (auto ids too)
			for _, base := range vIDBases[:3] {
				base := base
				sh = append(sh, vShard{Name: fmt.Sprintf("bigids/%d", base), Run: func(c *vCtx) {
					vIDBase = base
					defer func() { vIDBase = 0 }()
					cfg := vHybCfgs()[0]
					vBFS(c, &vHybSys{c: c, cfg: cfg, cfgS: cfg.String() + vIDBaseTag()}, 3)
					for _, rc := range vC06ReaddCfgs() {
						if base == math.MaxUint32 && rc.Kind == "hnsw" {
							continue // for an HNSW Add id 0 means "assign an id": not an explicit id
						}
						vBFS(c, &vReaddSys{c: c, kind: rc.Kind, cfg: rc, cfgS: "readd " + rc.String() + vIDBaseTag()}, 4)
					}
				}})
			}
			return sh
		},
		Replay: func(c *vCtx, v *vViolation) bool {
			if i := strings.Index(v.Config, " idbase="); i >= 0 {
				var b uint32
				fmt.Sscanf(v.Config[i:], " idbase=%d", &b)
				vIDBase = b
				defer func() { vIDBase = 0 }()
			}
			if strings.HasPrefix(v.Config, "readd ") {
				cfg := vParseVecCfg(strings.TrimPrefix(v.Config, "readd "))
				vReplayHist(&vReaddSys{c: c, kind: cfg.Kind, cfg: cfg, cfgS: v.Config}, v.History)
			} else if strings.HasSuffix(v.Config, " obsgap") {
				cfg := vParseHybCfg(v.Config)
				vReplayHist(&vObsGapSys{inner: &vHybSys{c: c, cfg: cfg, cfgS: v.Config}}, v.History)
			} else {
				cfg := vParseHybCfg(v.Config)
				vReplayHist(&vHybSys{c: c, cfg: cfg, cfgS: v.Config}, v.History)
			}
			_, ok := c.viol[v.Sig()]
			return ok
		},
	})
}

// vCentroidTie: are the two nearest centroids of q (after preprocessing) equally near?
func vCentroidTie(dist Distance, centroids [][]float32, q []float32) bool {
	pq, err := dist.Preprocess(vCopyVec(q))
	if err != nil || len(centroids) < 2 {
		return false
	}
	best, second := float32(math.Inf(1)), float32(math.Inf(1))
	for _, c := range centroids {
		d := dist.Calculate(pq, c)
		if d < best {
			best, second = d, best
		} else if d < second {
			second = d
		}
	}
	return vApprox(float64(best), float64(second))
}
