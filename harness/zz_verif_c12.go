//go:build verif

package comet

// C12 — HNSW never hides live vectors: non-empty, exact when small, every inserted
// vector reachable through the bottom layer (histmc with enumerated level choices and
// enumerated entry-point re-election).

import (
	"fmt"
	"sort"
	"strings"
)

type vHnswCfg struct {
	Metric DistanceKind
	Dim    int
	M      int
	Ef     int
	MaxN   int // maximum number of adds in a history
	MaxRem int
	MaxFl  int
	MaxLvl int // maximum number of non-zero level choices
	Vals   int // which value alphabet
}

func (c vHnswCfg) String() string {
	return fmt.Sprintf("hnsw metric=%s dim=%d M=%d ef=%d maxN=%d maxRem=%d maxFl=%d maxLvl=%d vals=%d", c.Metric, c.Dim, c.M, c.Ef, c.MaxN, c.MaxRem, c.MaxFl, c.MaxLvl, c.Vals)
}

func vParseHnswCfg(s string) vHnswCfg {
	var c vHnswCfg
	var metric string
	fmt.Sscanf(s, "hnsw metric=%s dim=%d M=%d ef=%d maxN=%d maxRem=%d maxFl=%d maxLvl=%d vals=%d", &metric, &c.Dim, &c.M, &c.Ef, &c.MaxN, &c.MaxRem, &c.MaxFl, &c.MaxLvl, &c.Vals)
	c.Metric = DistanceKind(metric)
	return c
}

func vHnswVals(dim, which int) [][]float32 {
	if dim == 1 {
		switch which {
		case 0:
			return [][]float32{{1}, {2}, {3}, {100}, {1}, {-2}}
		case 1: // tight cluster then outlier
			return [][]float32{{1}, {1.5}, {2}, {100}}
		case 3:
			return [][]float32{{0}, {1}, {2}, {3}}
		default:
			return [][]float32{{1}, {2}, {50}}
		}
	}
	if which == 3 {
		return [][]float32{{1, 1}, {2, 1}, {3, 1}, {4, 1}}
	}
	switch which {
	case 0:
		return [][]float32{{1, 0}, {0, 1}, {1, 1}, {100, 100}, {1, 0}, {2, 0}}
	case 1:
		return [][]float32{{1, 0}, {1, 0.5}, {1, 1}, {-50, 1}}
	default:
		return [][]float32{{1, 0}, {0, 1}, {30, 1}}
	}
}

type vHnswSys struct {
	noBatch bool // lean mode: no multi-query searches
	c       *vCtx
	cfg     vHnswCfg
	cfgS    string
	vals    [][]float32
	idx     *HNSWIndex
	m       *vVecModel
	nAdd    int
	nRem    int
	nFl     int
	nLvl    int
	nReadd  int
	idZero  bool        // ids are 1, 0, 3, 2, ...: the SECOND vector inserted carries id 0 (it is never re-added: for an HNSW Add id 0 also means "assign one")
	queries [][]float32 // override of the query alphabet (sweeps)
	// resident = vectors held by the graph (incl. soft-deleted); maxRes = its maximum
	// since the index was last empty or flushed
	resident       int
	maxRes         int
	maxEver        int // maximum number of stored vectors at any time in the history
	everFlushedBig bool
	// vertices whose layer-0 list was emptied BY a Flush (every neighbour was physically
	// deleted; Flush does not reconnect): witness of the second known reachability finding
	isolatedByFlush map[uint32]bool
}

func (s *vHnswSys) Reset() {
	vResetGlobals()
	idx, err := NewHNSWIndex(s.cfg.Dim, s.cfg.Metric, s.cfg.M, s.cfg.Ef, s.cfg.Ef)
	if err != nil {
		panic(err)
	}
	s.idx = idx
	s.m = newVecModel()
	s.nAdd, s.nRem, s.nFl, s.nLvl, s.resident, s.maxRes, s.maxEver, s.nReadd = 0, 0, 0, 0, 0, 0, 0, 0
	s.isolatedByFlush = map[uint32]bool{}
	documentFilterPool.Reset()
	minHeapPool.Reset()
	maxHeapPool.Reset()
}

// entry-point candidates a Flush may legally elect: live nodes of maximal live level
func (s *vHnswSys) flushCandidates() []uint32 {
	if !s.idx.deletedNodes.Contains(s.idx.entryPoint) {
		return nil
	}
	best := -1
	var out []uint32
	for id, n := range s.idx.nodes {
		if s.idx.deletedNodes.Contains(id) {
			continue
		}
		if n.Level > best {
			best = n.Level
			out = out[:0]
		}
		if n.Level == best {
			out = append(out, id)
		}
	}
	sort.Slice(out, func(i, j int) bool { return out[i] < out[j] })
	return out
}

func (s *vHnswSys) Enabled() []vOp {
	var ops []vOp
	if s.nAdd < s.cfg.MaxN {
		id := s.nAdd + 1
		if s.idZero {
			id = s.nAdd ^ 1
		}
		for vi := range s.vals {
			for lvl := 0; lvl <= 2; lvl++ {
				if lvl > 0 && s.nLvl >= s.cfg.MaxLvl {
					break
				}
				ops = append(ops, vOp{K: "Add", A: id, B: vi, C: lvl})
			}
		}
	}
	if s.nReadd < 1 && s.nRem > 0 && s.cfg.MaxN <= 2*s.cfg.M && s.cfg.Vals != 3 {
		// update = remove + add: re-add an id that is currently removed (soft-deleted or flushed away)
		rids := make([]int, 0)
		for id := range s.m.ever {
			if _, live := s.m.live[id]; !live {
				rids = append(rids, int(id))
			}
		}
		sort.Ints(rids)
		for _, id := range rids {
			if id == 0 {
				continue
			}
			for vi := 0; vi < 2 && vi < len(s.vals); vi++ {
				ops = append(ops, vOp{K: "ReAdd", A: id, B: vi})
			}
		}
	}
	if s.nRem < s.cfg.MaxRem {
		ids := make([]int, 0)
		for id := range s.m.live {
			ids = append(ids, int(id))
		}
		sort.Ints(ids)
		for _, id := range ids {
			ops = append(ops, vOp{K: "Remove", A: id})
		}
	}
	if s.nFl < s.cfg.MaxFl && len(s.m.removed) > 0 && s.idx.deletedNodes.GetCardinality() > 0 {
		cands := s.flushCandidates()
		if len(cands) <= 1 {
			ops = append(ops, vOp{K: "Flush"})
		} else {
			for i := range cands {
				ops = append(ops, vOp{K: "Flush", C: i})
			}
		}
	}
	return ops
}

func (s *vHnswSys) Apply(op vOp, hist []vOp, check bool) {
	h := func() []string { return vHistStrings(append(hist, op)) }
	switch op.K {
	case "Add":
		raw := s.vals[op.B]
		var err error
		vWithLevel(op.C, func() { err = s.idx.Add(*NewVectorNodeWithID(uint32(op.A), vCopyVec(raw))) })
		s.nAdd++
		if op.C > 0 {
			s.nLvl++
		}
		if err != nil {
			if check {
				s.c.Violation("add-failed", "", s.cfgS, h(), err.Error())
			}
			break
		}
		s.m.live[uint32(op.A)] = vCopyVec(raw)
		s.m.ever[uint32(op.A)] = true
		s.resident++
		if s.resident > s.maxRes {
			s.maxRes = s.resident
		}
		if s.resident > s.maxEver {
			s.maxEver = s.resident
		}
	case "ReAdd":
		raw := s.vals[op.B]
		s.nReadd++
		wasResident := s.idx.deletedNodes.Contains(uint32(op.A))
		var err error
		vWithLevel(0, func() { err = s.idx.Add(*NewVectorNodeWithID(uint32(op.A), vCopyVec(raw))) })
		if err != nil {
			if check {
				s.c.Violation("add-failed", "readd", s.cfgS, h(), err.Error())
			}
			break
		}
		s.m.live[uint32(op.A)] = vCopyVec(raw)
		delete(s.m.removed, uint32(op.A))
		if wasResident {
			// the index compacts before re-adding a soft-deleted id: the graph now holds the live vectors only
			s.resident = len(s.m.live)
			s.maxRes = s.resident
			s.m.removed = map[uint32]bool{}
		} else {
			s.resident++
			if s.resident > s.maxRes {
				s.maxRes = s.resident
			}
		}
		if s.resident > s.maxEver {
			s.maxEver = s.resident
		}
	case "Remove":
		id := uint32(op.A)
		s.nRem++
		if err := s.idx.Remove(*NewVectorNodeWithID(id, nil)); err != nil {
			if check {
				s.c.Violation("remove-failed", "", s.cfgS, h(), err.Error())
			}
			break
		}
		delete(s.m.live, id)
		s.m.removed[id] = true
	case "Flush":
		s.nFl++
		cands := s.flushCandidates()
		hadEdges := map[uint32]bool{}
		for id, n := range s.idx.nodes {
			if len(n.Edges) > 0 && len(n.Edges[0]) > 0 && !s.idx.deletedNodes.Contains(id) {
				hadEdges[id] = true
			}
		}
		if err := s.idx.Flush(); err != nil && check {
			s.c.Violation("flush-error", "", s.cfgS, h(), err.Error())
		}
		for id := range hadEdges {
			if n := s.idx.nodes[id]; n != nil && len(n.Edges) > 0 && len(n.Edges[0]) == 0 {
				s.isolatedByFlush[id] = true
			}
		}
		if len(cands) > 0 {
			legal := false
			for _, c := range cands {
				if c == s.idx.entryPoint {
					legal = true
				}
			}
			if !legal && check {
				s.c.Violation("flush-elected-illegal-entry-point", "", s.cfgS, h(), fmt.Sprintf("entry point %d not among live nodes of maximal level %v", s.idx.entryPoint, cands))
			}
			if len(cands) > 1 && op.C < len(cands) {
				// force this alternative: every map order is explored, none is sampled
				s.idx.entryPoint = cands[op.C]
			}
		}
		s.resident = len(s.m.live)
		s.maxRes = s.resident
		s.m.removed = map[uint32]bool{}
	}
	if s.resident == 0 {
		s.maxRes = 0
	}
	if check {
		s.observe(h())
	}
}

// reachable computes the set of stored nodes reachable from the entry point through
// layer-0 edges (through stored nodes, soft-deleted ones included).
func (s *vHnswSys) reachable() (map[uint32]bool, string) {
	seen := map[uint32]bool{}
	if len(s.idx.nodes) == 0 {
		return seen, ""
	}
	ep, ok := s.idx.nodes[s.idx.entryPoint]
	if !ok || ep == nil {
		return seen, fmt.Sprintf("entry point %d is not a stored node", s.idx.entryPoint)
	}
	stack := []uint32{s.idx.entryPoint}
	seen[s.idx.entryPoint] = true
	for len(stack) > 0 {
		id := stack[len(stack)-1]
		stack = stack[:len(stack)-1]
		n := s.idx.nodes[id]
		if n == nil || len(n.Edges) == 0 {
			continue
		}
		for _, nb := range n.Edges[0] {
			if _, stored := s.idx.nodes[nb]; !stored {
				return seen, fmt.Sprintf("node %d has a layer-0 edge to %d which is not stored", id, nb)
			}
			if !seen[nb] {
				seen[nb] = true
				stack = append(stack, nb)
			}
		}
	}
	return seen, ""
}

// why labels an unreachable node with a narrow witness predicate. The only accepted
// (known) cause is the keep-M-nearest pruning heuristic: it can only act once some
// layer-0 list has overflowed, i.e. once the graph has held >= 2M+2 vectors, and it
// shows as: every *reachable* out-neighbour of the node has a full list that does not
// contain the node (its back-edge was pruned away).
func (s *vHnswSys) why(id uint32, reach map[uint32]bool) string {
	n := s.idx.nodes[id]
	if n == nil {
		return "not-stored"
	}
	if s.maxEver < 2*s.cfg.M+2 {
		return "no-list-ever-overflowed"
	}
	if len(n.Edges) == 0 || len(n.Edges[0]) == 0 {
		if s.isolatedByFlush[id] {
			return "isolated-by-flush:all-its-neighbours-were-physically-deleted"
		}
		return "node-has-no-out-edges"
	}
	if s.nFl > 0 {
		return "pruned-back-edges:after-flush"
	}
	for _, nb := range n.Edges[0] {
		if !reach[nb] {
			continue
		}
		o := s.idx.nodes[nb]
		if o == nil || len(o.Edges[0]) < 2*s.idx.M {
			return "reachable-neighbour-with-room-lacks-back-edge"
		}
	}
	return "pruned-back-edges"
}

// vC12Sweep: realistic M (16, 32): for every n in 1..2M+3 structured vectors are inserted
// with a fixed level pattern, every fourth removed, flush; judged after every phase
// (exactness holds up to 2M resident vectors because ef >= 2M+3).
func vC12Sweep(c *vCtx, metric DistanceKind, m int) {
	maxN := 2*m + 3
	for n := 1; n <= maxN; n++ {
		if c.Expired() {
			c.Bound = fmt.Sprintf("sweep sizes 1..%d", n-1)
			return
		}
		cfg := vHnswCfg{Metric: metric, Dim: 3, M: m, Ef: 2*m + 6, MaxN: maxN + 2, MaxRem: maxN, MaxFl: 3, MaxLvl: maxN, Vals: 9}
		s := &vHnswSys{c: c, cfg: cfg, cfgS: cfg.String() + fmt.Sprintf(" sweep n=%d", n), vals: vStructuredVecs(3, n+1)}
		s.queries = [][]float32{s.vals[0], s.vals[n/2], {0.5, 0.5, 0.5}, {-40, 3, 1}}
		s.Reset()
		var hist []vOp
		ap := func(op vOp, check bool) {
			s.Apply(op, hist, check)
			hist = append(hist, op)
			c.Transitions++
		}
		for i := 0; i < n; i++ {
			lvl := 0
			if i%6 == 5 {
				lvl = 1
			}
			if i%17 == 16 {
				lvl = 2
			}
			ap(vOp{K: "Add", A: i + 1, B: i, C: lvl}, i == n-1)
		}
		for i := 0; i < n; i += 4 {
			ap(vOp{K: "Remove", A: i + 1}, i+4 >= n)
		}
		if s.idx.deletedNodes.GetCardinality() > 0 && len(s.m.live) > 0 {
			ap(vOp{K: "Flush"}, true)
		}
		ap(vOp{K: "Add", A: n + 1, B: n, C: 0}, true)
		c.Traces++
		c.NewState(s.cfgS)
	}
	c.Sample(fmt.Sprintf("M=%d ef=%d: n structured vectors with levels 0/1/2, every fourth removed (incl. the entry point), flush, one more add; every n in 1..%d", m, 2*m+6, maxN))
	c.Bound = fmt.Sprintf("sweep sizes 1..%d", maxN)
}

// vC12Adversarial: LARGE graphs (hundreds to thousands of vectors, levels 0..3) under
// adversarial removals. n structured vectors are inserted; then, step after step, the
// target of the next removal is chosen from the private state: the current entry point,
// the highest-level live vertex, the live vertex with the largest layer-0 in-degree (a
// hub), the most recently inserted live vertex, the live vertex nearest to the probe
// query - in rotation; every 5th step a Flush (forcing, in rotation, another legal
// re-elected entry point), every 11th step a new vector. After every step (every 10th for
// n > 400) the whole C12 oracle runs: non-emptiness with efSearch 1, 2 and the default,
// results live, reachability / graph invariants (the known pruning finding keeps its
// witness). Ends when two live vectors are left.
func vC12Adversarial(c *vCtx, metric DistanceKind, m, n int) {
	cfg := vHnswCfg{Metric: metric, Dim: 3, M: m, Ef: 2*m + 6, MaxN: 2 * n, MaxRem: 2 * n, MaxFl: n, MaxLvl: 2 * n, Vals: 9}
	s := &vHnswSys{c: c, cfg: cfg, cfgS: cfg.String() + fmt.Sprintf(" adversarial n=%d", n), vals: vStructuredVecs(3, 2*n+2)}
	probe := []float32{0.5, 0.5, 0.5}
	s.queries = [][]float32{s.vals[0], s.vals[n/2], probe, {-40, 3, 1}}
	s.Reset()
	var hist []vOp
	ap := func(op vOp, check bool) {
		s.Apply(op, hist, check)
		hist = append(hist, op)
		c.Transitions++
	}
	lvlOf := func(i int) int {
		l := 0
		for x := i + 1; x%4 == 0 && l < 3; x /= 4 {
			l++
		}
		return l
	}
	next := 0
	for ; next < n; next++ {
		ap(vOp{K: "Add", A: next + 1, B: next, C: lvlOf(next)}, next == n-1)
	}
	every := 1
	if n > 400 {
		every = 10
	}
	step := 0
	for len(s.m.live) > 2 {
		if c.Expired() {
			c.Bound = fmt.Sprintf("adversarial n=%d: %d removals (deadline)", n, step)
			return
		}
		var target uint32
		found := false
		live := func(id uint32) bool { _, ok := s.m.live[id]; return ok }
		switch step % 5 {
		case 0:
			if live(s.idx.entryPoint) {
				target, found = s.idx.entryPoint, true
			}
		case 1:
			best := -1
			for id, nd := range s.idx.nodes {
				if live(id) && (nd.Level > best || (nd.Level == best && id < target)) {
					best, target, found = nd.Level, id, true
				}
			}
		case 2:
			indeg := map[uint32]int{}
			for _, nd := range s.idx.nodes {
				if len(nd.Edges) > 0 {
					for _, nb := range nd.Edges[0] {
						indeg[nb]++
					}
				}
			}
			best := -1
			for id, d := range indeg {
				if live(id) && (d > best || (d == best && id < target)) {
					best, target, found = d, id, true
				}
			}
		case 3:
			for id := range s.m.live {
				if !found || id > target {
					target, found = id, true
				}
			}
		case 4:
			bd := 0.0
			for id, v := range s.m.live {
				if d := vRefDist(metric, probe, v); !found || d < bd || (d == bd && id < target) {
					bd, target, found = d, id, true
				}
			}
		}
		if !found {
			for id := range s.m.live {
				if !found || id < target {
					target, found = id, true
				}
			}
		}
		step++
		check := step%every == 0
		ap(vOp{K: "Remove", A: int(target)}, check)
		if step%5 == 0 && s.idx.deletedNodes.GetCardinality() > 0 {
			ap(vOp{K: "Flush", C: (step / 5) % 3}, true)
		}
		if step%11 == 0 {
			ap(vOp{K: "Add", A: next + 1, B: next, C: lvlOf(next)}, check)
			next++
		}
	}
	ap(vOp{K: "Flush"}, true)
	c.Traces++
	c.NewState(s.cfgS)
	c.Bound = fmt.Sprintf("adversarial n=%d: %d removals, down to two live vectors", n, step)
}

// emptyCause labels an empty answer: whether any live vertex is reachable at all, and if
// none is, whether every live vertex is cut off by the known pruning defect (why()).
func (s *vHnswSys) emptyCause(reach map[uint32]bool, bad string) string {
	if bad != "" {
		return "graph-invariant-broken"
	}
	whys := map[string]bool{}
	for id := range s.m.live {
		if reach[id] {
			return "some-live-reachable"
		}
		whys[s.why(id, reach)] = true
	}
	if len(whys) == 1 {
		for w := range whys {
			return "no-live-node-reachable:" + w
		}
	}
	return "no-live-node-reachable"
}

// vC12Tails: for every n in 1..maxN: n structured vectors (levels 0/1/2), then
//
//	tail 0: ALL removed (no flush), one new vector added, flush, id 1 re-added
//	tail 1: all but the LAST removed, one more added, flush
//	tail 2: one vector (the entry point's id) removed and re-added, flush
//
// judged after every step of the tail. Sizes above 2M+1 can hit the known pruning defect
// (F6); its witness predicate keeps that separate from anything else.
func vC12Tails(c *vCtx, metric DistanceKind, m, maxN int) {
	for n := 1; n <= maxN; n++ {
		for tail := 0; tail < 3; tail++ {
			if c.Expired() {
				c.Bound = fmt.Sprintf("tail sizes 1..%d", n-1)
				return
			}
			cfg := vHnswCfg{Metric: metric, Dim: 3, M: m, Ef: 2*m + 6, MaxN: maxN + 3, MaxRem: 2 * maxN, MaxFl: 3, MaxLvl: maxN, Vals: 9}
			s := &vHnswSys{c: c, cfg: cfg, cfgS: cfg.String() + fmt.Sprintf(" tails n=%d tail=%d", n, tail), vals: vStructuredVecs(3, n+2)}
			s.queries = [][]float32{s.vals[0], s.vals[n/2], {0.5, 0.5, 0.5}, {-40, 3, 1}}
			s.Reset()
			var hist []vOp
			ap := func(op vOp, check bool) {
				s.Apply(op, hist, check)
				hist = append(hist, op)
				c.Transitions++
			}
			for i := 0; i < n; i++ {
				lvl := 0
				if i%6 == 5 {
					lvl = 1
				}
				if i%17 == 16 {
					lvl = 2
				}
				ap(vOp{K: "Add", A: i + 1, B: i, C: lvl}, false)
			}
			switch tail {
			case 0:
				for i := 0; i < n; i++ {
					ap(vOp{K: "Remove", A: i + 1}, false)
				}
				ap(vOp{K: "Add", A: n + 1, B: n}, true)
				ap(vOp{K: "Flush"}, true)
				ap(vOp{K: "ReAdd", A: 1, B: n + 1}, true)
			case 1:
				for i := 0; i < n-1; i++ {
					ap(vOp{K: "Remove", A: i + 1}, i == n-2)
				}
				ap(vOp{K: "Add", A: n + 1, B: n}, true)
				ap(vOp{K: "Flush"}, true)
			case 2:
				ep := int(s.idx.entryPoint)
				ap(vOp{K: "Remove", A: ep}, true)
				ap(vOp{K: "ReAdd", A: ep, B: n + 1}, true)
				ap(vOp{K: "Flush"}, true)
			}
			c.Traces++
			c.NewState(s.cfgS)
		}
	}
	c.Sample(fmt.Sprintf("M=%d: n structured vectors, then all removed + one added + flush + re-add / all but the last removed + add + flush / entry point updated + flush; every n in 1..%d", m, maxN))
	c.Bound = fmt.Sprintf("tail sizes 1..%d", maxN)
}

func (s *vHnswSys) observe(h []string) {
	mkey := s.m.key()
	// (c) structural invariant
	s.c.Evaluations++
	reach, bad := s.reachable()
	if bad != "" {
		s.c.Violation("graph-invariant", "", s.cfgS, h, bad)
	} else {
		ids := make([]int, 0)
		for id := range s.m.live {
			ids = append(ids, int(id))
		}
		sort.Ints(ids)
		for _, id := range ids {
			if !reach[uint32(id)] {
				cause := s.why(uint32(id), reach)
				s.c.Violation("unreachable-live-node", cause, s.cfgS, h, fmt.Sprintf("live node %d is not reachable from entry point %d through layer 0; state %s", id, s.idx.entryPoint, vCanonVec(s.idx)))
				break
			}
		}
	}
	if len(s.m.live) > 1 {
		s.c.Nontrivial(s.cfgS + "|reach|" + mkey + fmt.Sprint(s.idx.entryPoint))
	}
	// (a) non-emptiness, (b) exactness
	qs := s.queries
	if qs == nil {
		qs = vHnswVals(s.cfg.Dim, s.cfg.Vals)
		qs = append(append([][]float32{}, qs...), vQueryAlphabet(s.cfg.Dim)[1])
	}
	small := s.maxRes <= 2*s.cfg.M && s.cfg.Ef >= s.maxRes
	for qi, q := range qs {
		if s.cfg.Metric == Cosine && vIsZero(q) {
			continue
		}
		for _, k := range []int{1, 2, -1, 0} {
			if k == 0 && qi != 0 {
				continue // (k = 0, the other "return everything" form: with the first query)
			}
			s.c.Evaluations++
			res, err := vRunVecQuery(s.idx, vVecQuery{Q: q, K: k})
			if err != nil {
				s.c.Violation("search-error", "", s.cfgS, h, err.Error())
				continue
			}
			if len(s.m.live) > 0 && len(res) == 0 {
				cause := s.emptyCause(reach, bad)
				s.c.Violation("empty-result-with-live-vectors", cause, s.cfgS, h, fmt.Sprintf("q=%v k=%d returned nothing although %d live vectors exist", q, k, len(s.m.live)))
			}
			// non-emptiness does not depend on the beam width: also with efSearch 1 and 2
			for _, ef := range []int{1, 2} {
				if k != 1 {
					break
				}
				s.c.Evaluations++
				r2, err := vRunVecQuery(s.idx, vVecQuery{Q: q, K: k, Ef: ef})
				if err != nil {
					s.c.Violation("search-error", "", s.cfgS, h, err.Error())
				} else if len(s.m.live) > 0 && len(r2) == 0 {
					s.c.Violation("empty-result-with-live-vectors", fmt.Sprintf("efSearch=%d:%s", ef, s.emptyCause(reach, bad)), s.cfgS, h, fmt.Sprintf("q=%v k=%d efSearch=%d returned nothing although %d live vectors exist", q, k, ef, len(s.m.live)))
				} else if msg := vAcceptSound(r2, vLiveCands(s.cfg.Metric, s.m.live, q), k, true); msg != "" {
					s.c.Violation("unsound-result", vCauseVec(s.m, r2), s.cfgS, h, fmt.Sprintf("q=%v k=%d efSearch=%d: %s; got [%s]", q, k, ef, msg, vResStr(r2)))
				}
			}
			cands, _ := vEligible(s.cfg.Metric, s.m.live, vVecQuery{Q: q, K: k}, false, func(id uint32, v []float32) float64 { return vRefDist(s.cfg.Metric, q, v) })
			if small {
				if msg := vAcceptExact(res, cands, k); msg != "" {
					cause := ""
					if s.nFl > 0 {
						cause = "after-flush"
					}
					// the known pruning defect (F6) also surfaces here: the graph once held
					// >= 2M+2 vectors, a flush brought it back under 2M, and a live node that
					// the earlier pruning cut off is still unreachable
					if bad == "" && s.maxEver >= 2*s.cfg.M+2 {
						for id := range s.m.live {
							if !reach[id] {
								cause += ":live-node-cut-off-by-earlier-pruning"
								break
							}
						}
					}
					s.c.Violation("not-exact-when-small", cause, s.cfgS, h, fmt.Sprintf("q=%v k=%d (held <= %d <= 2M, ef=%d): %s; got [%s]", q, k, s.maxRes, s.cfg.Ef, msg, vResStr(res)))
				}
				if len(s.m.live) > 1 {
					s.c.Nontrivial(fmt.Sprintf("%s|exact|%s|%d|%d", s.cfgS, mkey, qi, k))
				}
			} else if msg := vAcceptSound(res, cands, k, true); msg != "" {
				s.c.Violation("unsound-result", vCauseVec(s.m, res), s.cfgS, h, fmt.Sprintf("q=%v k=%d: %s; got [%s]", q, k, msg, vResStr(res)))
			}
			s.c.Outcome(fmt.Sprint(vResIDs(res)))
		}
	}
	if len(s.m.live) > 1 && !s.noBatch {
		s.observeBatch(h, qs)
	}
}

// observeBatch: one Execute with SEVERAL queries answers like the queries one at a time:
// the per-query lists (same k) aggregated per id (sum), best k of that. Every ordered pair
// of the first query with the second / third (a far query before a near one and the other way
// round), k below the number of live vectors.
func (s *vHnswSys) observeBatch(h []string, qs [][]float32) {
	if len(qs) > 3 {
		qs = qs[:3]
	}
	ks := []int{1}
	if len(s.m.live) > 2 {
		ks = []int{2}
	}
	for a := range qs {
		for b := range qs {
			if a == b || (a != 0 && b != 0) || (s.cfg.Metric == Cosine && (vIsZero(qs[a]) || vIsZero(qs[b]))) {
				continue
			}
			for _, k := range ks {
				s.c.Evaluations++
				per := map[uint32]float64{}
				fail := false
				for _, q := range [][]float32{qs[a], qs[b]} {
					r, err := vRunVecQuery(s.idx, vVecQuery{Q: q, K: k})
					if err != nil {
						fail = true
						break
					}
					for _, x := range r {
						per[x.Node.ID()] += float64(x.Score)
					}
				}
				if fail {
					continue
				}
				got, err := s.idx.NewSearch().WithK(k).WithQuery(vCopyVec(qs[a]), vCopyVec(qs[b])).Execute()
				if err != nil {
					s.c.Violation("search-error", "batch", s.cfgS, h, err.Error())
					continue
				}
				var cands []vCand
				for id, v := range per {
					cands = append(cands, vCand{id, v})
				}
				sort.Slice(cands, func(i, j int) bool {
					if cands[i].dist != cands[j].dist {
						return cands[i].dist < cands[j].dist
					}
					return cands[i].id < cands[j].id
				})
				if msg := vAcceptExact(got, cands, k); msg != "" {
					s.c.Violation("batch-differs-from-single-queries", "", s.cfgS, h, fmt.Sprintf("queries %v then %v, k=%d: %s; got [%s], the queries one at a time aggregate to %v", qs[a], qs[b], k, msg, vResStr(got), cands))
				}
				if len(per) > k {
					s.c.Nontrivial(fmt.Sprintf("%s|batch|%s|%d|%d|%d", s.cfgS, s.m.key(), a, b, k))
				}
			}
		}
	}
}

func vLiveCands(metric DistanceKind, live map[uint32][]float32, q []float32) []vCand {
	c, _ := vEligible(metric, live, vVecQuery{Q: q, K: -1}, false, func(id uint32, v []float32) float64 { return vRefDist(metric, q, v) })
	return c
}

func (s *vHnswSys) Key() string { return s.keyCanon() + "#deep" + vDeepHash(s.idx) }

func (s *vHnswSys) keyCanon() string {
	return vCanonVec(s.idx) + "#" + s.m.key() + fmt.Sprintf("#%d/%d/%d/%d/%d/%d/%d/%d", s.nAdd, s.nRem, s.nFl, s.nLvl, s.resident, s.maxRes, s.maxEver, s.nReadd)
}

func vC12Configs(tier string) []vHnswCfg {
	var out []vHnswCfg
	th := tier == "thorough"
	for _, metric := range []DistanceKind{Euclidean, Cosine, L2Squared} {
		for _, d := range []int{1, 2} {
			if metric == Cosine && d == 1 {
				continue // one-dimensional cosine has two points only
			}
			if metric == L2Squared && !th {
				continue
			}
			for _, m := range []int{2, 3} {
				if m == 3 && !th && !(metric == Euclidean && d == 2) {
					continue
				}
				// exactness regime: at most 2M adds, ef in {2M, 4M}
				efs := []int{2 * m}
				if th {
					efs = []int{2 * m, 4 * m}
				}
				for _, ef := range efs {
					c := vHnswCfg{Metric: metric, Dim: d, M: m, Ef: ef, MaxN: 2 * m, MaxRem: 1, MaxFl: 1, MaxLvl: 1, Vals: 0}
					if m == 3 {
						c.Vals = 1
						c.MaxN = 4
						c.MaxLvl = 0
						if th {
							c.MaxN = 6
							c.MaxLvl = 1
						}
					}
					if th {
						c.MaxRem = 2
						c.MaxLvl = 2
						if m == 2 {
							c.MaxFl = 2
						}
					}
					out = append(out, c)
					// narrow alphabet (collinear values), several removals and two flushes:
					// e.g. removing all nearest earlier neighbours of a later vector, then flushing
					if ef == 2*m && (th || m == 2) {
						cn := vHnswCfg{Metric: metric, Dim: d, M: m, Ef: ef, MaxN: m + 2, MaxRem: m + 1, MaxFl: 2, MaxLvl: 0, Vals: 3}
						if th {
							cn.MaxN = 2 * m
							cn.MaxLvl = 1
						}
						out = append(out, cn)
					}
				}
				// reachability / non-emptiness regime: beyond 2M+1 nodes, reduced alphabet
				if m == 2 {
					c := vHnswCfg{Metric: metric, Dim: d, M: m, Ef: 4 * m, MaxN: 2*m + 2, MaxRem: 1, MaxFl: 1, MaxLvl: 0, Vals: 2}
					if th {
						c.MaxN = 2*m + 3
						c.MaxRem = 2
						c.MaxLvl = 1
					}
					out = append(out, c)
					c2 := c
					c2.Vals = 1
					c2.MaxLvl = 0
					if th {
						c2.MaxN = 2*m + 4
						c2.MaxRem = 1
					}
					out = append(out, c2)
				}
			}
		}
	}
	return out
}

func init() {
	vRegister(&vCheck{
		ID: "C12", Level: "model_checking", Engine: "histmc",
		Rule:        "BFS over Add(value, level in {0,1,2} chosen by the explorer)/Remove(every live id)/Flush(every legal entry-point re-election) histories on the real HNSWIndex. In every reached state: (a) unrestricted search non-empty whenever a live vector exists, (b) exact k-NN acceptance against brute force while the index has held <= 2M vectors since last empty/flush and ef >= that number, (c) every live node reachable from the entry point through layer-0 edges, entry point stored, no dangling edge. Non-trivial = distinct (config, state) with >= 2 live vectors for (c) and distinct (config, state, query, k) in the exactness regime. Batches: one Execute with two queries (every ordered pair of the first query with the second / third, k below the live count) must equal the two queries run one at a time, aggregated per id, best k.",
		Assumptions: []string{"map-order dependent entry-point re-election in Flush is enumerated by forcing each legal candidate", "levels above 2 and more than 2 non-zero levels per history are outside the bound", "reachability regime explored up to 2M+2 (quick) / 2M+4 (thorough) inserts with reduced value alphabets"},
		Shards: func(tier string) []vShard {
			var sh []vShard
			for _, cfg := range vC12Configs(tier) {
				cfg := cfg
				sh = append(sh, vShard{Name: strings.ReplaceAll(cfg.String(), " ", ","), Run: func(c *vCtx) {
					depth := cfg.MaxN + cfg.MaxRem + cfg.MaxFl
					vBFS(c, &vHnswSys{c: c, cfg: cfg, cfgS: cfg.String(), vals: vHnswVals(cfg.Dim, cfg.Vals)}, depth)
				}})
			}
			for _, bcfg := range []vVecCfg{{Kind: "hnsw", Metric: Euclidean, Dim: 2, M: 2, Ef: 2}, {Kind: "hnsw", Metric: Cosine, Dim: 3, M: 4, Ef: 16}} {
				bcfg := bcfg
				bdepth := 3
				if tier == "thorough" {
					bdepth = 4
				}
				sh = append(sh, vShard{Name: "builders/" + strings.ReplaceAll(bcfg.String(), " ", ","), Run: func(c *vCtx) { vVecBuilderShard(c, bcfg, bdepth) }})
			}
			// id 0 as an explicit id (the second vector inserted)
			for i, cfg := range vC12Configs(tier) {
				cfg := cfg
				if i%3 != 0 && tier != "thorough" {
					continue
				}
				sh = append(sh, vShard{Name: "idzero/" + strings.ReplaceAll(cfg.String(), " ", ","), Run: func(c *vCtx) {
					depth := cfg.MaxN + cfg.MaxRem + cfg.MaxFl
					vBFS(c, &vHnswSys{c: c, cfg: cfg, cfgS: cfg.String() + " idzero", idZero: true, vals: vHnswVals(cfg.Dim, cfg.Vals)}, depth)
				}})
			}
			for _, m := range []int{16, 32} {
				for _, metric := range []DistanceKind{Euclidean, Cosine} {
					m, metric := m, metric
					if m == 32 && metric == Cosine && tier != "thorough" {
						continue
					}
					sh = append(sh, vShard{Name: fmt.Sprintf("sweep/%s/M%d", metric, m), Run: func(c *vCtx) { vC12Sweep(c, metric, m) }})
				}
			}
			// one long-lived index: 70 000 searches, then 70 000 add / remove cycles
			for _, ecfg := range []vVecCfg{{Kind: "hnsw", Metric: Euclidean, Dim: 3, M: 32, Ef: 80}, {Kind: "hnsw", Metric: Cosine, Dim: 2, M: 4, Ef: 50}} {
				ecfg := ecfg
				sh = append(sh, vShard{Name: "endurance/" + strings.ReplaceAll(ecfg.String(), " ", ","), Run: func(c *vCtx) { vKindEndurance(c, ecfg, 70000, nil) }})
			}
			adv := [][2]int{{4, 300}, {16, 1030}, {2, 120}}
			if tier == "thorough" {
				adv = append(adv, [2]int{8, 4100}, [2]int{32, 2000})
			}
			for i, a := range adv {
				a := a
				metric := []DistanceKind{Euclidean, Cosine, L2Squared}[i%3]
				sh = append(sh, vShard{Name: fmt.Sprintf("adversarial/%s/M%d/n%d", metric, a[0], a[1]), Run: func(c *vCtx) { vC12Adversarial(c, metric, a[0], a[1]) }})
			}
			for _, m := range []int{2, 3, 4, 8, 16} {
				m := m
				maxN := 3*m + 4
				if tier == "thorough" {
					maxN = 6*m + 8
				}
				sh = append(sh, vShard{Name: fmt.Sprintf("tails/M%d", m), Run: func(c *vCtx) { vC12Tails(c, Euclidean, m, maxN) }})
			}
			return sh
		},
		Replay: func(c *vCtx, v *vViolation) bool {
			if i := strings.Index(v.Config, " endurance n="); i >= 0 {
				var n int
				fmt.Sscanf(v.Config[i:], " endurance n=%d", &n)
				vKindEndurance(c, vParseVecCfg(v.Config[:i]), n, nil)
				_, ok := c.viol[v.Sig()]
				return ok
			}
			if i := strings.Index(v.Config, " adversarial n="); i >= 0 {
				var n int
				fmt.Sscanf(v.Config[i:], " adversarial n=%d", &n)
				cfg := vParseHnswCfg(v.Config)
				vC12Adversarial(c, cfg.Metric, cfg.M, n)
				_, ok := c.viol[v.Sig()]
				return ok
			}
			if i := strings.Index(v.Config, " tails n="); i >= 0 {
				var n int
				fmt.Sscanf(v.Config[i:], " tails n=%d", &n)
				cfg := vParseHnswCfg(v.Config)
				vC12Tails(c, cfg.Metric, cfg.M, n)
				_, ok := c.viol[v.Sig()]
				return ok
			}
			if strings.Contains(v.Config, " sweep n=") {
				cfg := vParseHnswCfg(v.Config)
				vC12Sweep(c, cfg.Metric, cfg.M)
				_, ok := c.viol[v.Sig()]
				return ok
			}
			cfg := vParseHnswCfg(v.Config)
			vReplayHist(&vHnswSys{c: c, cfg: cfg, cfgS: v.Config, idZero: strings.HasSuffix(v.Config, " idzero"), vals: vHnswVals(cfg.Dim, cfg.Vals)}, v.History)
			_, ok := c.viol[v.Sig()]
			return ok
		},
	})
}
