//go:build verif && !verifl2

package comet

// placeholders until the store harness provides the segment shards of C16 (3)
var vC16StoreShards = func(tier string) []vShard { return nil }
var vC16StoreReplay = func(c *vCtx, v *vViolation) bool { return false }

// (C18's scheduler scenario S19 exists in the L2 build only)
var vC18SchedShards = func(tier string) []vShard { return nil }
