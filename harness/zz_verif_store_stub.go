//go:build verif && !verifl2

package comet

// placeholders until the store harness provides the segment shards of C16 (3)
var vC16StoreShards = func(tier string) []vShard { return nil }
var vC16StoreReplay = func(c *vCtx, v *vViolation) bool { return false }
