//go:build verif

package comet

// C18 — distance functions obey the metric laws (domainmc: exhaustive lattice).

import (
	"fmt"
	"math"
)

// vNegZero: IEEE negative zero (what -x, x*0 with a negative x, or Scale(v, -1) leave behind);
// a vector of zeros is a zero vector whatever the sign bits say
var vNegZero = float32(math.Copysign(0, -1))

var vC18A = []float32{0, vNegZero, 1e-6, -1e-6, 1e-3, -1e-3, 0.5, -0.5, 1, -1, 3, -3, 1e3, -1e3, 1e6, -1e6}
var vC18Sub = []float32{0, vNegZero, 1e-3, -1e-3, 1, -1, 1e3, -1e3}

func vAllVecs(alpha []float32, d int) [][]float32 {
	out := [][]float32{{}}
	for i := 0; i < d; i++ {
		var next [][]float32
		for _, p := range out {
			for _, a := range alpha {
				next = append(next, append(append([]float32(nil), p...), a))
			}
		}
		out = next
	}
	return out
}

func vNorm64(v []float32) float64 {
	s := 0.0
	for _, x := range v {
		s += float64(x) * float64(x)
	}
	return math.Sqrt(s)
}

func vBitsEq(a, b []float32) bool {
	if len(a) != len(b) {
		return false
	}
	for i := range a {
		if math.Float32bits(a[i]) != math.Float32bits(b[i]) {
			return false
		}
	}
	return true
}

type vC18 struct {
	c    *vCtx
	cfgS string
}

func (t *vC18) bad(class, detail string) {
	t.c.Violation(class, "", t.cfgS, nil, detail)
}

// eps: c * d * 2^-23, c = 8 covers accumulation of d products/squares plus the final
// sqrt / division / subtraction (each <= 1 ulp) with a comfortable margin.
func vEps(d int) float64 { return 8 * float64(d) * math.Pow(2, -23) }

func (t *vC18) pair(a, b []float32) {
	c := t.c
	d := len(a)
	eps := vEps(d)
	l2, _ := NewDistance(Euclidean)
	sq, _ := NewDistance(L2Squared)
	cs, _ := NewDistance(Cosine)
	c.Evaluations++
	// --- Euclidean family
	ref2 := 0.0
	mag := 0.0
	for i := range a {
		x := float64(a[i]) - float64(b[i])
		ref2 += x * x
		mag += float64(a[i])*float64(a[i]) + float64(b[i])*float64(b[i])
	}
	dab, dba := l2.Calculate(a, b), l2.Calculate(b, a)
	sab, sba := sq.Calculate(a, b), sq.Calculate(b, a)
	if dab < 0 || sab < 0 || math.IsNaN(float64(dab)) || math.IsNaN(float64(sab)) {
		t.bad("negative-or-nan-distance", fmt.Sprintf("a=%v b=%v l2=%v l2sq=%v", a, b, dab, sab))
	}
	if dab != dba || sab != sba {
		t.bad("asymmetric", fmt.Sprintf("a=%v b=%v l2 %v/%v l2sq %v/%v", a, b, dab, dba, sab, sba))
	}
	if l2.Calculate(a, a) != 0 || sq.Calculate(a, a) != 0 {
		t.bad("self-distance-nonzero", fmt.Sprintf("a=%v", a))
	}
	// the subtraction a[i]-b[i] is rounded to float32 before squaring: relative to the
	// operand magnitudes, not to the result
	tolSq := eps * (ref2 + mag)
	if math.Abs(float64(sab)-ref2) > tolSq {
		t.bad("l2sq-value", fmt.Sprintf("a=%v b=%v got %v ref %v", a, b, sab, ref2))
	}
	if math.Abs(float64(dab)*float64(dab)-float64(sab)) > 4*eps*math.Max(float64(sab), 1e-30) {
		t.bad("l2-is-not-sqrt-of-l2sq", fmt.Sprintf("a=%v b=%v l2=%v l2sq=%v", a, b, dab, sab))
	}
	// --- batch == element-wise, bit-exact, for all three kinds
	for name, dist := range map[string]Distance{"l2": l2, "l2sq": sq, "cosine": cs} {
		got := dist.CalculateBatch([][]float32{a, b, a}, b)
		want := []float32{dist.Calculate(a, b), dist.Calculate(b, b), dist.Calculate(a, b)}
		if !vBitsEq(got, want) {
			t.bad("batch-differs-from-scalar", fmt.Sprintf("%s a=%v b=%v batch %v scalar %v", name, a, b, got, want))
		}
	}
	// --- a batch result belongs to the caller: it keeps its values while later batch calls
	// (of any kind, with other operands) run
	for name, dist := range map[string]Distance{"l2": l2, "l2sq": sq, "cosine": cs} {
		kept := dist.CalculateBatch([][]float32{a, b, a}, b)
		want := []float32{dist.Calculate(a, b), dist.Calculate(b, b), dist.Calculate(a, b)}
		for _, other := range []Distance{l2, sq, cs} {
			other.CalculateBatch([][]float32{b, b, a, a}, a)
		}
		if !vBitsEq(kept, want) {
			t.bad("batch-result-changed-by-later-call", fmt.Sprintf("%s a=%v b=%v: the slice returned earlier now holds %v, it held %v", name, a, b, kept, want))
		}
	}
	// --- batch over queries that are VIEWS into one backing array (rows of a matrix, the
	// first one with spare capacity), with a middle entry replaced by a separate slice and
	// with two middle rows exchanged: entry i of the batch is the distance to queries[i],
	// wherever that slice lives
	if d <= 8 || len(a)%7 == 0 {
		backing := make([]float32, 0, 5*d)
		for _, r := range [][]float32{a, b, a, b, a} {
			backing = append(backing, r...)
		}
		row := func(i int) []float32 { return backing[i*d : (i+1)*d] }
		for name, dist := range map[string]Distance{"l2": l2, "l2sq": sq, "cosine": cs} {
			for vi, qs := range [][][]float32{
				{row(0), row(1), vCopyVec(b), row(3), row(4)},
				{row(0), row(1), row(3), row(2), row(4)},
				{row(0), row(1), row(1), row(1), row(4)},
				{backing[0:d:d], row(2), row(1)},
			} {
				got := dist.CalculateBatch(qs, b)
				want := make([]float32, len(qs))
				for i, q := range qs {
					want[i] = dist.Calculate(q, b)
				}
				if !vBitsEq(got, want) {
					t.bad("batch-differs-from-scalar", fmt.Sprintf("%s queries are views into one array (variant %d) a=%v b=%v batch %v scalar %v", name, vi, a, b, got, want))
				}
			}
		}
	}
	// --- preprocessing
	for _, dist := range []Distance{l2, sq} {
		ac := vCopyVec(a)
		p, err := dist.Preprocess(ac)
		if err != nil || !vBitsEq(ac, a) || !vBitsEq(p, a) {
			t.bad("euclidean-preprocess", fmt.Sprintf("a=%v -> %v err %v", a, p, err))
		}
		if err := dist.PreprocessInPlace(ac); err != nil || !vBitsEq(ac, a) {
			t.bad("euclidean-preprocess-in-place", fmt.Sprintf("a=%v -> %v", a, ac))
		}
	}
	ac := vCopyVec(a)
	pa, errA := cs.Preprocess(ac)
	if !vBitsEq(ac, a) {
		t.bad("preprocess-modified-argument", fmt.Sprintf("a=%v became %v", a, ac))
	}
	ain := vCopyVec(a)
	errIn := cs.PreprocessInPlace(ain)
	if vIsZero(a) {
		if errA != ErrZeroVector || errIn != ErrZeroVector {
			t.bad("zero-vector-not-rejected", fmt.Sprintf("a=%v Preprocess err %v, in place err %v", a, errA, errIn))
		}
		return
	}
	if errA != nil || errIn != nil {
		t.bad("cosine-preprocess-error", fmt.Sprintf("a=%v: %v / %v", a, errA, errIn))
		return
	}
	if !vBitsEq(pa, ain) {
		t.bad("in-place-differs-from-copying-preprocess", fmt.Sprintf("a=%v: %v vs %v", a, pa, ain))
	}
	if math.Abs(vNorm64(pa)-1) > eps {
		t.bad("preprocessed-not-unit", fmt.Sprintf("a=%v -> %v norm %v", a, pa, vNorm64(pa)))
	}
	if vIsZero(b) {
		return
	}
	pb, _ := cs.Preprocess(vCopyVec(b))
	cab, cba := cs.Calculate(pa, pb), cs.Calculate(pb, pa)
	if cab < 0 || cab > 2 || math.IsNaN(float64(cab)) {
		t.bad("cosine-out-of-range", fmt.Sprintf("a=%v b=%v d=%v", a, b, cab))
	}
	tol := 2 * eps
	if math.Abs(float64(cab)-float64(cba)) > tol {
		t.bad("cosine-asymmetric", fmt.Sprintf("a=%v b=%v %v vs %v", a, b, cab, cba))
	}
	if float64(cs.Calculate(pa, pa)) > tol {
		t.bad("cosine-self-distance", fmt.Sprintf("a=%v d=%v", a, cs.Calculate(pa, pa)))
	}
	dot := 0.0
	for i := range a {
		dot += float64(a[i]) * float64(b[i])
	}
	ref := 1 - dot/(vNorm64(a)*vNorm64(b))
	if math.Abs(float64(cab)-ref) > tol {
		t.bad("cosine-value", fmt.Sprintf("a=%v b=%v got %v ref %v", a, b, cab, ref))
	}
	// positive scalings 2^e over the whole range in which float32 squares neither underflow
	// nor overflow (non-zero components stay within 2^-60 .. 2^60), and two decimal ones
	scales := []float32{1e-3, 0.5, 2, 1e3}
	for _, e := range []int{-60, -50, -44, -40, -30, -20, -10, 10, 20, 30, 40, 44, 50, 60} {
		scales = append(scales, float32(math.Ldexp(1, e)))
	}
	for _, s := range scales {
		sa := make([]float32, len(a))
		inRange := true
		for i := range a {
			sa[i] = a[i] * s
			if m := math.Abs(float64(sa[i])); a[i] != 0 && (m < math.Ldexp(1, -60) || m > math.Ldexp(1, 60)) {
				inRange = false
			}
		}
		if n := vNorm64(sa); n > math.Ldexp(1, 55) {
			inRange = false // the sum of squares must stay finite as well
		}
		if vIsZero(sa) || !inRange {
			continue
		}
		psa, err := cs.Preprocess(sa)
		if err != nil {
			t.bad("cosine-preprocess-error", fmt.Sprintf("scaled %v: %v", sa, err))
			continue
		}
		if math.Abs(float64(cs.Calculate(psa, pb))-float64(cab)) > tol {
			t.bad("cosine-not-scale-invariant", fmt.Sprintf("a=%v s=%v b=%v: %v vs %v", a, s, b, cs.Calculate(psa, pb), cab))
		}
	}
	c.Nontrivial(fmt.Sprintf("%v|%v", a, b))
}

func (t *vC18) helpers(a []float32) {
	d := len(a)
	eps := vEps(d)
	t.c.Evaluations++
	n := float64(Norm(a))
	if math.Abs(n-vNorm64(a)) > eps*math.Max(vNorm64(a), 1e-30) {
		t.bad("norm-value", fmt.Sprintf("a=%v got %v ref %v", a, n, vNorm64(a)))
	}
	for _, s := range []float32{0, -1, 0.5, 3, 1e3} {
		ac := vCopyVec(a)
		r := Scale(ac, s)
		if !vBitsEq(ac, a) || len(r) != len(a) {
			t.bad("scale-modified-argument", fmt.Sprintf("a=%v", a))
		}
		for i := range a {
			if r[i] != a[i]*s {
				t.bad("scale-value", fmt.Sprintf("a=%v s=%v got %v", a, s, r))
				break
			}
		}
	}
	ac := vCopyVec(a)
	nv := Normalize(ac)
	if !vBitsEq(ac, a) {
		t.bad("normalize-modified-argument", fmt.Sprintf("a=%v", a))
	}
	ip := vCopyVec(a)
	NormalizeInPlace(ip)
	if !vBitsEq(ip, nv) {
		t.bad("normalize-in-place-differs", fmt.Sprintf("a=%v: %v vs %v", a, ip, nv))
	}
	if vIsZero(a) {
		if !vBitsEq(nv, a) {
			t.bad("normalize-zero", fmt.Sprintf("a=%v -> %v", a, nv))
		}
		return
	}
	if math.Abs(vNorm64(nv)-1) > eps {
		t.bad("normalize-not-unit", fmt.Sprintf("a=%v -> %v", a, nv))
	}
	for i := range a {
		if math.Abs(float64(nv[i])-float64(a[i])/vNorm64(a)) > eps {
			t.bad("normalize-value", fmt.Sprintf("a=%v -> %v", a, nv))
			break
		}
	}
}

func (t *vC18) triangle(a, b, c []float32) {
	l2, _ := NewDistance(Euclidean)
	t.c.Evaluations++
	ab, bc, ac := float64(l2.Calculate(a, b)), float64(l2.Calculate(b, c)), float64(l2.Calculate(a, c))
	mag := vNorm64(a) + vNorm64(b) + vNorm64(c)
	if ac > ab+bc+vEps(len(a))*(ab+bc+ac+mag) {
		t.bad("triangle-inequality", fmt.Sprintf("a=%v b=%v c=%v: d(a,c)=%v > %v + %v", a, b, c, ac, ab, bc))
	}
}

// structured high-dimension families: block-constant / alternating vectors
func vC18High(d int) [][]float32 {
	var out [][]float32
	for _, x := range []float32{1e-3, 1, -1, 1e3} {
		for _, y := range []float32{0, 1e-3, -1, 1, 1e3} {
			blk := make([]float32, d)
			alt := make([]float32, d)
			half := make([]float32, d)
			for i := 0; i < d; i++ {
				blk[i] = x
				if i%2 == 1 {
					alt[i] = y
				} else {
					alt[i] = x
				}
				if i < d/2 {
					half[i] = x
				} else {
					half[i] = y
				}
			}
			out = append(out, blk, alt, half)
		}
	}
	// nearly parallel pair (1, eps, 0, ...)
	np1 := make([]float32, d)
	np2 := make([]float32, d)
	np1[0], np2[0], np2[1] = 1, 1, 1e-3
	out = append(out, np1, np2)
	return out
}

// vC18Basis: for one dimension, signed unit spikes at every position, all-ones, a ramp
// and an alternating vector: any index arithmetic slip in a (possibly unrolled) kernel
// loop changes some pairwise value.
func vC18Basis(d int) [][]float32 {
	var out [][]float32
	for i := 0; i < d; i++ {
		for _, x := range []float32{1, -2} {
			v := make([]float32, d)
			v[i] = x
			out = append(out, v)
		}
	}
	ones := make([]float32, d)
	ramp := make([]float32, d)
	alt := make([]float32, d)
	for i := 0; i < d; i++ {
		ones[i] = 1
		ramp[i] = float32(i + 1)
		if i%2 == 0 {
			alt[i] = 0.5
		} else {
			alt[i] = -3
		}
	}
	return append(out, ones, ramp, alt)
}

func init() {
	vRegister(&vCheck{
		ID: "C18", Level: "exploration", Engine: "domainmc",
		Rule:        "Exhaustive lattice: ALL vectors in A^d (A = 16 values: 0, IEEE negative zero and 1e-6..1e6 with signs, d in {1,2}; 8-value sub-alphabet for d=3), all ordered pairs (non-negativity, exact symmetry and zero self-distance for l2/l2^2, l2^2 value, l2 = sqrt(l2^2), cosine range/symmetry/self/value vs float64 / invariance under 4 positive scalings, batch == scalar bit-exact, Preprocess leaves its argument bit-identical, in-place == copying preprocess and unit norm, zero vector rejected), all triples over d=1 (full) and d=2 (sub-alphabet) for the triangle inequality, Norm/Scale/Normalize/NormalizeInPlace against their definitions, plus, for EVERY d in 4..40 and d in {47,48,49,60,63,65,68,96,100,127,128,129,132,255,256,257,300}, every pair of signed unit spikes at every position / all-ones / ramp / alternating vectors (index arithmetic of unrolled loops), plus every pair of structured block-constant / alternating / half-half / nearly-parallel vectors in d in {64, 512}. Tolerance 8*d*2^-23 relative to operand magnitudes. Non-trivial = distinct non-zero pairs on which every cosine law was evaluated.",
		Assumptions: []string{"tolerances scaled to float32 accumulation error: 8*d*2^-23 times the operand magnitudes"},
		Shards: func(tier string) []vShard {
			var sh []vShard
			mk := func(name string, vecs [][]float32, tri [][]float32) {
				// shard pairs by first vector modulo 4
				for part := 0; part < 4; part++ {
					part := part
					sh = append(sh, vShard{Name: fmt.Sprintf("%s/part%d", name, part), Run: func(c *vCtx) {
						t := &vC18{c: c, cfgS: name}
						for i, a := range vecs {
							if i%4 != part {
								continue
							}
							t.helpers(a)
							for _, b := range vecs {
								t.pair(a, b)
							}
							if c.Expired() {
								c.Bound = fmt.Sprintf("%s: deadline after %d first vectors", name, i)
								return
							}
						}
						for i, a := range tri {
							if i%4 != part {
								continue
							}
							for _, b := range tri {
								for _, cc := range tri {
									t.triangle(a, b, cc)
								}
							}
						}
						c.Sample(fmt.Sprintf("%s: pair %v , %v", name, vecs[part], vecs[len(vecs)-1-part]))
						c.Bound = "lattice complete"
					}})
				}
			}
			mk1 := func(name string, vecs [][]float32, tri [][]float32) {
				sh = append(sh, vShard{Name: name, Run: func(c *vCtx) {
					t := &vC18{c: c, cfgS: name}
					for i, a := range vecs {
						t.helpers(a)
						for _, b := range vecs {
							t.pair(a, b)
						}
						if i%16 == 0 && c.Expired() {
							c.Bound = fmt.Sprintf("%s: deadline after %d first vectors", name, i)
							return
						}
					}
					for _, a := range tri {
						for _, b := range tri {
							for _, cc := range tri {
								t.triangle(a, b, cc)
							}
						}
					}
					c.Sample(fmt.Sprintf("%s: %d vectors, all pairs", name, len(vecs)))
					c.Bound = "lattice complete"
				}})
			}
			mk("d1", vAllVecs(vC18A, 1), vAllVecs(vC18A, 1))
			tri2 := vAllVecs(vC18Sub, 2)
			mk("d2", vAllVecs(vC18A, 2), tri2)
			if tier == "thorough" {
				mk("d3", vAllVecs(vC18Sub, 3), vAllVecs([]float32{0, 1, -1e3}, 3))
			} else {
				mk("d3", vAllVecs([]float32{0, 1e-3, 1, -1, 1e3}, 3), nil)
			}
			// every dimension 4..40 and the neighbourhoods of the usual unrolling widths
			var dimsB []int
			for d := 4; d <= 40; d++ {
				dimsB = append(dimsB, d)
			}
			dimsB = append(dimsB, 47, 48, 49, 60, 63, 65, 68, 96, 100, 127, 128, 129, 132, 255, 256, 257, 300)
			for _, d := range dimsB {
				bs := vC18Basis(d)
				if d > 40 {
					// one spike sign only beyond d=40 (keeps the pair count quadratic in d, not 4x)
					var r [][]float32
					for i, v := range bs {
						if i >= 2*d || i%2 == 0 {
							r = append(r, v)
						}
					}
					bs = r
				}
				mk1(fmt.Sprintf("basis-d%d", d), bs, bs[len(bs)-3:])
			}
			// batch SIZE sweep: every batch length 0..maxB (chunking / worker splitting)
			maxB := 600
			if tier == "thorough" {
				maxB = 4200
			}
			sh = append(sh, vShard{Name: "batch-sizes", Run: func(c *vCtx) {
				t := &vC18{c: c, cfgS: "batch-sizes"}
				l2, _ := NewDistance(Euclidean)
				sq, _ := NewDistance(L2Squared)
				cs, _ := NewDistance(Cosine)
				for _, d := range []int{1, 3, 8, 17} {
					target := make([]float32, d)
					for j := range target {
						target[j] = float32(j%3) + 0.5
					}
					var qs [][]float32
					for n := 0; n <= maxB; n++ {
						if n > 0 {
							q := make([]float32, d)
							for j := range q {
								q[j] = float32((n*7+j*3)%11) - 4.25
							}
							qs = append(qs, q)
						}
						for name, dist := range map[string]Distance{"l2": l2, "l2sq": sq, "cosine": cs} {
							c.Evaluations++
							got := dist.CalculateBatch(qs, target)
							if len(got) != n {
								t.bad("batch-differs-from-scalar", fmt.Sprintf("%s d=%d: batch of %d queries returned %d values", name, d, n, len(got)))
								continue
							}
							for i, q := range qs {
								if w := dist.Calculate(q, target); math.Float32bits(w) != math.Float32bits(got[i]) {
									t.bad("batch-differs-from-scalar", fmt.Sprintf("%s d=%d: batch of %d queries, entry %d is %v, scalar %v", name, d, n, i, got[i], w))
									break
								}
							}
						}
						c.Traces++
					}
					if c.Expired() {
						c.Bound = "batch sizes: deadline"
						return
					}
				}
				c.NewState("batch-sizes")
				c.Sample(fmt.Sprintf("every batch length 0..%d for d in {1,3,8,17}, three kinds, each entry bit-equal to Calculate", maxB))
				c.Bound = fmt.Sprintf("batch sizes 0..%d", maxB)
			}})
			mk("d64", vC18High(64), vC18High(64)[:12])
			mk("d512", vC18High(512), nil)
			// the shared metric singletons under concurrent callers (scenario S19, explored by the
			// cooperative scheduler; L2 build)
			sh = append(sh, vC18SchedShards(tier)...)
			return sh
		},
	})
}
