//go:build verif

package comet

// Value collisions as an enumerated input dimension: pairs of distinct, equal-length,
// lower-case alphanumeric terms that collide under the hash functions a Go program would
// plausibly key a table with (the 32-bit checksums and hashes of the standard library and
// the classic string hashes), found by a deterministic brute-force search at first use,
// plus anagram pairs (order-insensitive hashes). Any structure in the code under test that
// identifies a term, field name or value by such a hash confuses the two members of a pair.

import (
	"hash/adler32"
	"hash/crc32"
	"hash/fnv"
	"sync"
)

type vCollision struct {
	Hash string
	A, B string
}

var (
	vCollOnce sync.Once
	vCollList []vCollision
)

func vCollidingTerms() []vCollision {
	vCollOnce.Do(func() {
		castagnoli := crc32.MakeTable(crc32.Castagnoli)
		koopman := crc32.MakeTable(crc32.Koopman)
		hashes := []struct {
			name string
			f    func(b []byte) uint32
		}{
			{"crc32-ieee", crc32.ChecksumIEEE},
			{"crc32-castagnoli", func(b []byte) uint32 { return crc32.Checksum(b, castagnoli) }},
			{"crc32-koopman", func(b []byte) uint32 { return crc32.Checksum(b, koopman) }},
			{"adler32", adler32.Checksum},
			{"fnv32", func(b []byte) uint32 { h := fnv.New32(); h.Write(b); return h.Sum32() }},
			{"fnv32a", func(b []byte) uint32 { h := fnv.New32a(); h.Write(b); return h.Sum32() }},
			{"fnv64a-low32", func(b []byte) uint32 { h := fnv.New64a(); h.Write(b); return uint32(h.Sum64()) }},
			{"fnv64a-folded", func(b []byte) uint32 { h := fnv.New64a(); h.Write(b); s := h.Sum64(); return uint32(s) ^ uint32(s>>32) }},
			{"djb2", func(b []byte) uint32 {
				h := uint32(5381)
				for _, c := range b {
					h = h*33 + uint32(c)
				}
				return h
			}},
			{"java31", func(b []byte) uint32 {
				h := uint32(0)
				for _, c := range b {
					h = h*31 + uint32(c)
				}
				return h
			}},
			{"sdbm", func(b []byte) uint32 {
				h := uint32(0)
				for _, c := range b {
					h = uint32(c) + (h << 6) + (h << 16) - h
				}
				return h
			}},
		}
		const letters = "abcdefghijklmnopqrstuvwxyz0123456789"
		word := func(n int) []byte {
			// 7 characters, first one a letter, a different multiplier per position so that
			// consecutive words differ in several characters
			b := make([]byte, 7)
			x := uint64(n)*2654435761 + 12345
			b[0] = letters[x%26]
			x /= 26
			for i := 1; i < 7; i++ {
				b[i] = letters[x%36]
				x /= 36
			}
			return b
		}
		for _, h := range hashes {
			seen := make(map[uint32]int, 1<<19)
			found := 0
			for n := 0; n < 700000 && found < 2; n++ {
				w := word(n)
				k := h.f(w)
				if m, ok := seen[k]; ok {
					o := word(m)
					if string(o) != string(w) {
						vCollList = append(vCollList, vCollision{h.name, string(o), string(w)})
						found++
					}
					continue
				}
				seen[k] = n
			}
		}
		vCollList = append(vCollList,
			vCollision{"anagram", "listen", "silent"},
			vCollision{"anagram", "ab", "ba"},
			vCollision{"first-last-length", "abcd", "acbd"},
			vCollision{"prefix8", "prefix00a", "prefix00b"},
			vCollision{"suffix8", "a00suffix", "b00suffix"},
		)
	})
	return vCollList
}
