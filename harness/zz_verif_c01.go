//go:build verif

package comet

// C01 — flat index returns exactly the k nearest live vectors (histmc).

import (
	"fmt"
	"math"
	"strings"
)

type vFlatSys struct {
	c         *vCtx
	metric    DistanceKind
	dim       int
	ids       []uint32
	vals      [][]float32
	qs        []vVecQuery
	idx       *FlatIndex
	m         *vVecModel
	cfg       string
	inRecheck bool
}

func newFlatSys(c *vCtx, metric DistanceKind, dim int, nids int) *vFlatSys {
	s := &vFlatSys{c: c, metric: metric, dim: dim, vals: vVecAlphabet(dim)}
	for i := 1; i <= nids; i++ {
		s.ids = append(s.ids, uint32(i))
	}
	s.cfg = fmt.Sprintf("flat metric=%s dim=%d ids=%d", metric, dim, nids)
	// query alphabet (evaluated in every reached state)
	thr := []float32{0, 1, 1.4142135, 5, 0.5, 100}
	if metric == Cosine {
		thr = []float32{0, 0.25, 0.5, 1, 1.5, 3}
	}
	if metric == L2Squared {
		thr = []float32{0, 1, 2, 25, 0.5, 1000}
	}
	restr := [][]uint32{nil, {1}, {2, 3}, {9}, {1, 9}, {2, 2, 1}, {1, 3, 3}} // the last two name an id twice (a restriction is a set); {1,3,3} has as many entries as the range 1..3 has ids
	for _, q := range vQueryAlphabet(dim) {
		for _, k := range []int{-1, 0, 1, 2, nids, nids + 1, math.MaxInt64} {
			for ti, t := range thr {
				for ri, r := range restr {
					// (the two restrictions with a repeated id: with every k, at the first and
					// the fourth threshold only - what they add does not depend on the threshold)
					if ri >= 5 && ti != 0 && ti != 3 {
						continue
					}
					s.qs = append(s.qs, vVecQuery{Q: q, K: k, Thr: t, IDs: r})
				}
			}
		}
	}
	return s
}

// newFlatNearUnit (cosine): vectors whose LENGTH is within a few 1e-4 of 1 without being 1,
// next to exact unit vectors, at small angles from the queries: cosine distances of
// 4.5e-4 and 1e-3 whose order and threshold membership change if a "nearly normalised"
// vector is taken for a normalised one. Reference distances are computed in float64 from
// the raw vectors.
func newFlatNearUnit(c *vCtx, dim int) *vFlatSys {
	s := &vFlatSys{c: c, metric: Cosine, dim: dim}
	mk := func(l, theta float64) []float32 {
		v := make([]float32, dim)
		v[0] = float32(l * math.Cos(theta))
		v[1] = float32(l * math.Sin(theta))
		return v
	}
	for _, th := range []float64{0, 0.03, 0.045} {
		for _, l := range []float64{1, 1.0004, 0.9996} {
			s.vals = append(s.vals, mk(l, th))
		}
	}
	s.vals = append(s.vals, mk(1.0002, -0.03), mk(2, 0.02))
	for i := 1; i <= 3; i++ {
		s.ids = append(s.ids, uint32(i))
	}
	s.cfg = fmt.Sprintf("flatnearunit metric=cosine dim=%d ids=3", dim)
	for _, q := range [][]float32{mk(1, 0), mk(1.0003, 0), mk(0.9997, 0.01), mk(3, 0.03)} {
		for _, k := range []int{-1, 1, 2} {
			for _, t := range []float32{0, 2.2e-4, 7.5e-4, 1.5e-3} {
				s.qs = append(s.qs, vVecQuery{Q: q, K: k, Thr: t})
			}
		}
	}
	return s
}

// newFlatDeep: narrow alphabets (2 values, 8 queries) so that deeper histories fit:
// order of insertion vs id order, several pending removals at one flush, ...
func newFlatDeep(c *vCtx, metric DistanceKind, nids int) *vFlatSys {
	s := &vFlatSys{c: c, metric: metric, dim: 2, vals: [][]float32{{1, 0}, {3, 4}}}
	for i := 1; i <= nids; i++ {
		s.ids = append(s.ids, uint32(i))
	}
	s.cfg = fmt.Sprintf("flatdeep metric=%s dim=2 ids=%d", metric, nids)
	for _, q := range [][]float32{{1, 0}, {2, 2}} {
		for _, k := range []int{-1, 1} {
			for _, r := range [][]uint32{nil, {1, 3}} {
				s.qs = append(s.qs, vVecQuery{Q: q, K: k, IDs: r})
			}
		}
	}
	return s
}

func (s *vFlatSys) Reset() {
	vResetGlobals()
	idx, err := NewFlatIndex(s.dim, s.metric)
	if err != nil {
		panic(err)
	}
	s.idx = idx
	s.m = newVecModel()
	documentFilterPool.Reset()
}

func (s *vFlatSys) Enabled() []vOp {
	var ops []vOp
	// Add(i, v) for the smallest unused id only would lose "ids in any order"; ids are
	// interchangeable for the flat index except through restrictions, so every unused id is offered.
	for _, id := range s.ids {
		if _, live := s.m.live[id]; live {
			continue
		}
		if s.m.ever[id] {
			// update: a removed id is added again, with one (other) value
			ops = append(ops, vOp{K: "Add", A: int(id), B: (int(id) + 1) % len(s.vals)})
			continue
		}
		for vi := range s.vals {
			ops = append(ops, vOp{K: "Add", A: int(id), B: vi})
		}
	}
	for _, id := range s.ids {
		// B=1: the node handed to Remove carries some (other) vector; only its id counts
		ops = append(ops, vOp{K: "Remove", A: int(id)}, vOp{K: "Remove", A: int(id), B: 1})
	}
	ops = append(ops, vOp{K: "Flush"})
	// adds that must be refused (zero vector under cosine, wrong dimension, no vector), on
	// every id whatever its status: unused, live, removed and not yet flushed
	for _, id := range s.ids {
		for b := 0; b < 3; b++ {
			if b == 0 && s.metric != Cosine {
				continue
			}
			ops = append(ops, vOp{K: "BadAdd", A: int(id), B: b})
		}
	}
	return ops
}

// vBadVector: 0 = all zeros, 1 = one component too many, 2 = no vector at all.
func vBadVector(dim, which int) []float32 {
	switch which {
	case 0:
		return make([]float32, dim)
	case 1:
		v := make([]float32, dim+1)
		for i := range v {
			v[i] = 1
		}
		return v
	}
	return nil
}

func (s *vFlatSys) Apply(op vOp, hist []vOp, check bool) {
	switch op.K {
	case "BadAdd":
		// the model does not change: a refused add has no effect (in particular it does not
		// bring a removed vector back)
		err := s.idx.Add(*NewVectorNodeWithID(uint32(op.A), vBadVector(s.dim, op.B)))
		if check && err == nil {
			s.c.Violation("add-result", "invalid-vector-accepted", s.cfg, vHistStrings(append(hist, op)), fmt.Sprintf("Add(%d, invalid vector kind %d) returned nil", op.A, op.B))
		}
	case "Add":
		raw := s.vals[op.B]
		arg := vCopyVec(raw)
		err := s.idx.Add(*NewVectorNodeWithID(uint32(op.A), arg))
		wantErr := s.metric == Cosine && vIsZero(raw)
		if check && wantErr != (err != nil) {
			s.c.Violation("add-result", fmt.Sprintf("wantErr=%v", wantErr), s.cfg, vHistStrings(append(hist, op)), fmt.Sprintf("Add(%d,%v) returned %v", op.A, raw, err))
		}
		if err == nil {
			s.m.live[uint32(op.A)] = vCopyVec(raw)
			s.m.ever[uint32(op.A)] = true
			delete(s.m.removed, uint32(op.A))
		}
	case "Remove":
		id := uint32(op.A)
		var carried []float32
		if op.B == 1 {
			carried = vCopyVec(s.vals[(int(id)+1)%len(s.vals)])
		}
		err := s.idx.Remove(*NewVectorNodeWithID(id, carried))
		// whether Remove of an unknown id is an error is not part of C01; the model
		// follows the acknowledged outcome.
		if err == nil {
			delete(s.m.live, id)
			s.m.removed[id] = true
		}
	case "Flush":
		if err := s.idx.Flush(); err != nil && check {
			s.c.Violation("flush-error", "", s.cfg, vHistStrings(append(hist, op)), err.Error())
		}
	}
	if check {
		s.observe(append(hist, op))
	}
}

func (s *vFlatSys) observe(hist []vOp) {
	defer s.recheck(hist)
	stateKey := ""
	for qi, q := range s.qs {
		s.c.Evaluations++
		res, err := vRunVecQuery(s.idx, q)
		if s.metric == Cosine && vIsZero(q.Q) {
			if err == nil {
				s.c.Violation("zero-query-accepted", "", s.cfg, vHistStrings(hist), q.String())
			}
			continue
		}
		if err != nil {
			s.c.Violation("search-error", "", s.cfg, vHistStrings(hist), q.String()+": "+err.Error())
			continue
		}
		cands, boundary := vEligible(s.metric, s.m.live, q, true, func(id uint32, v []float32) float64 { return vRefDist(s.metric, q.Q, v) })
		if boundary {
			s.c.Extra["queries_skipped_boundary"]++
			continue
		}
		if msg := vAcceptExact(res, cands, q.K); msg != "" {
			cause := ""
			for _, r := range res {
				if s.m.removed[r.Node.ID()] {
					cause = "returned-removed"
				}
			}
			s.c.Violation("wrong-answer", cause, s.cfg, vHistStrings(hist), fmt.Sprintf("%s: %s; got [%s]", q.String(), msg, vResStr(res)))
		}
		// non-trivial: something was actually filtered and the answer is non-empty
		if len(cands) > 0 && (len(cands) < len(s.m.live) || len(s.m.removed) > 0 || (q.K > 0 && q.K < len(cands))) {
			if stateKey == "" {
				stateKey = s.m.key()
			}
			s.c.Nontrivial(fmt.Sprintf("%s|%s|%d", s.cfg, stateKey, qi))
		}
		s.c.Outcome(fmt.Sprintf("%v", vResIDs(res)))
	}
}

// recheck: searching must not change later answers — after the whole query alphabet has
// been evaluated, the first queries are evaluated once more against the model (a purely
// behavioural form of "a search does not modify the index").
func (s *vFlatSys) recheck(hist []vOp) {
	if s.inRecheck {
		return
	}
	s.inRecheck = true
	defer func() { s.inRecheck = false }()
	all := s.qs
	if len(all) > 48 {
		s.qs = all[:48]
	}
	s.observe(hist)
	s.qs = all
}

func (s *vFlatSys) Key() string { return s.keyCanon() + "#deep" + vDeepHash(s.idx) }

func (s *vFlatSys) keyCanon() string {
	return vCanonVec(s.idx) + "#" + s.m.key() + "#pool" + fmt.Sprint(len(documentFilterPool.Contents()))
}

func init() {
	mk := func(c *vCtx, metric DistanceKind, dim, nids int) *vFlatSys { return newFlatSys(c, metric, dim, nids) }
	vRegister(&vCheck{
		ID: "C01", Level: "model_checking", Engine: "histmc",
		Rule:        "BFS over Add(fresh id, value)/Remove(any id)/Flush histories on the real FlatIndex with canonical-state dedupe; in every reached state every query of the alphabet (query x k x threshold x id-restriction) is compared with brute-force k-NN in float64. Non-trivial = distinct (config, model state, query) where soft-delete, restriction, threshold or k removed at least one live candidate and the expected answer is non-empty.",
		Assumptions: []string{"ties at the k-th place and order among equal scores are unspecified", "float32 score vs float64 reference within 1e-5 relative; threshold comparisons are crisp only on integer-coordinate (exact) inputs, otherwise queries with a candidate within 1e-4 of the threshold are skipped and counted", "small-scope: dimensions 1-3 (+ one structured d=64 family), ids 1..3/4"},
		Shards: func(tier string) []vShard {
			var sh []vShard
			depth, nids := 4, 3
			dims := []int{1, 2, 3}
			if tier == "thorough" {
				depth, nids = 5, 4
				dims = []int{1, 2, 3, 64}
			}
			for _, metric := range []DistanceKind{Euclidean, L2Squared, Cosine} {
				for _, d := range dims {
					metric, d := metric, d
					dd := depth
					if d == 64 {
						dd = depth - 1
					}
					sh = append(sh, vShard{Name: fmt.Sprintf("flat/%s/d%d", metric, d), Run: func(c *vCtx) {
						vBFS(c, mk(c, metric, d, nids), dd)
					}})
				}
			}
			for _, d := range []int{2, 5} {
				d := d
				sh = append(sh, vShard{Name: fmt.Sprintf("nearunit/d%d", d), Run: func(c *vCtx) { vBFS(c, newFlatNearUnit(c, d), 3) }})
			}
			// observation gaps (zz_verif_obsgap.go): Observe is an operation of the alphabet
			for _, metric := range []DistanceKind{Euclidean, Cosine} {
				metric := metric
				sh = append(sh, vShard{Name: fmt.Sprintf("obsgap/flat/%s", metric), Run: func(c *vCtx) {
					in := newFlatDeep(c, metric, 3)
					in.cfg = "obsgap " + in.cfg
					vBFS(c, &vObsGapSys{inner: in}, 6)
				}})
			}
			// search-object histories (shared explorer, zz_verif_builders.go)
			for _, metric := range []DistanceKind{Euclidean, L2Squared, Cosine} {
				bcfg := vVecCfg{Kind: "flat", Metric: metric, Dim: 3}
				bdepth := 3
				if tier == "thorough" {
					bdepth = 4
				}
				sh = append(sh, vShard{Name: fmt.Sprintf("builders/flat/%s", metric), Run: func(c *vCtx) { vVecBuilderShard(c, bcfg, bdepth) }})
			}
			// very large instances (beyond 2^15 and, thorough, 2^16 stored vectors)
			huge := []int{33000}
			if tier == "thorough" {
				huge = []int{33000, 70000}
			}
			for _, n := range huge {
				n := n
				hcfg := vVecCfg{Kind: "flat", Metric: L2Squared, Dim: 3}
				sh = append(sh, vShard{Name: fmt.Sprintf("large/huge/%d", n), Run: func(c *vCtx) { vKindLarge(c, hcfg, []int{n}, nil) }})
			}
			// size sweep (shared with C02): every n in 1..70 (quick) / 1..300 (thorough)
			maxN := 70
			if tier == "thorough" {
				maxN = 300
			}
			for _, cfg := range []vVecCfg{{Kind: "flat", Metric: Euclidean, Dim: 2}, {Kind: "flat", Metric: Cosine, Dim: 3}, {Kind: "flat", Metric: L2Squared, Dim: 5},
				{Kind: "flat", Metric: L2Squared, Dim: 9}, {Kind: "flat", Metric: Euclidean, Dim: 16}, {Kind: "flat", Metric: Cosine, Dim: 33}} {
				cfg := cfg
				sh = append(sh, vShard{Name: "sweep/" + strings.ReplaceAll(cfg.String(), " ", ","), Run: func(c *vCtx) { vKindSweep(c, cfg, maxN, nil) }})
				sh = append(sh, vShard{Name: "large/" + strings.ReplaceAll(cfg.String(), " ", ","), Run: func(c *vCtx) { vKindLarge(c, cfg, vLargeSizes(tier), nil) }})
			}
			// deep-narrow shards: depth 6 (quick) / 7 (thorough) over 2 values and 3-4 ids in any order
			for _, metric := range []DistanceKind{Euclidean, Cosine} {
				metric := metric
				dn, nn := 6, 3
				if tier == "thorough" {
					dn, nn = 7, 4
				}
				sh = append(sh, vShard{Name: fmt.Sprintf("flatdeep/%s", metric), Run: func(c *vCtx) {
					vBFS(c, newFlatDeep(c, metric, nn), dn)
				}})
			}
			return sh
		},
		Replay: func(c *vCtx, v *vViolation) bool {
			var metric string
			var dim, nids int
			if i := strings.Index(v.Config, " large n="); i >= 0 {
				var n int
				fmt.Sscanf(v.Config[i:], " large n=%d", &n)
				vKindLarge(c, vParseVecCfg(v.Config[:i]), []int{n}, nil)
				_, ok := c.viol[v.Sig()]
				return ok
			}
			if i := strings.Index(v.Config, " sweep n="); i >= 0 {
				var n int
				fmt.Sscanf(v.Config[i:], " sweep n=%d", &n)
				vKindSweep(c, vParseVecCfg(v.Config[:i]), n+1, nil)
				_, ok := c.viol[v.Sig()]
				return ok
			}
			if strings.HasPrefix(v.Config, "obsgap flatdeep ") {
				fmt.Sscanf(strings.TrimPrefix(v.Config, "obsgap flatdeep "), "metric=%s dim=%d ids=%d", &metric, &dim, &nids)
				in := newFlatDeep(c, DistanceKind(metric), nids)
				in.cfg = v.Config
				vReplayHist(&vObsGapSys{inner: in}, v.History)
				_, ok := c.viol[v.Sig()]
				return ok
			}
			if strings.HasPrefix(v.Config, "flatnearunit ") {
				fmt.Sscanf(v.Config, "flatnearunit metric=cosine dim=%d", &dim)
				vReplayHist(newFlatNearUnit(c, dim), v.History)
				_, ok := c.viol[v.Sig()]
				return ok
			}
			if strings.HasPrefix(v.Config, "flatdeep ") {
				fmt.Sscanf(strings.TrimPrefix(v.Config, "flatdeep "), "metric=%s dim=%d ids=%d", &metric, &dim, &nids)
				vReplayHist(newFlatDeep(c, DistanceKind(metric), nids), v.History)
				_, ok := c.viol[v.Sig()]
				return ok
			}
			fmt.Sscanf(strings.TrimPrefix(v.Config, "flat "), "metric=%s dim=%d ids=%d", &metric, &dim, &nids)
			vReplayHist(mk(c, DistanceKind(metric), dim, nids), v.History)
			_, ok := c.viol[v.Sig()]
			return ok
		},
	})
}
