//go:build verif

package comet

// Observation gaps. The BFS of histmc observes (runs the whole query alphabet) after the
// LAST operation of every history; the prefix is replayed without any search. A history
// therefore never contains "search, several writes with no search in between, search" -
// the shape that exposes anything a search leaves behind for later searches (a cache that
// is refreshed or invalidated by writes, tables rebuilt lazily). vObsGapSys wraps a system
// and adds Observe as an operation of the alphabet: the wrapped system's observation runs
// in the MIDDLE of a history, wherever the enumeration puts it. The canonical key carries
// the number of writes since the last observation (0, 1, 2+), so that an Observe - which
// changes nothing the key can see - is not pruned as a revisit.

import "fmt"

type vObservable interface {
	vSystem
	ObserveNow(hist []vOp)
}

type vObsGapSys struct {
	inner vObservable
	wso   int // writes since the last observation
}

func (s *vObsGapSys) Reset() { s.inner.Reset(); s.wso = 0 }

func (s *vObsGapSys) Enabled() []vOp {
	ops := s.inner.Enabled()
	if s.wso > 0 {
		ops = append([]vOp{{K: "Observe"}}, ops...)
	}
	return ops
}

func (s *vObsGapSys) Apply(op vOp, hist []vOp, check bool) {
	if op.K == "Observe" {
		s.inner.ObserveNow(append(append([]vOp(nil), hist...), op))
		s.wso = 0
		return
	}
	s.inner.Apply(op, hist, check)
	// the key describes the state the NEXT level re-creates by replay, i.e. without the
	// end-of-history observation that a checked step runs
	if s.wso < 2 {
		s.wso++
	}
}

func (s *vObsGapSys) Key() string { return fmt.Sprintf("%s|wso=%d", s.inner.Key(), s.wso) }

// ReplayLastOnly: a recorded history is replayed the way the BFS produced it (checks on
// for the last operation only), otherwise every operation would be followed by searches.
func (s *vObsGapSys) ReplayLastOnly() bool { return true }

func (s *vFlatSys) ObserveNow(hist []vOp) { s.observe(hist) }
func (s *vKindSys) ObserveNow(hist []vOp) {
	if !s.polluted {
		s.observe(vHistStrings(hist))
	}
}
func (s *vC03Sys) ObserveNow(hist []vOp) { s.observe(vHistStrings(hist)) }
func (s *vC04Sys) ObserveNow(hist []vOp) { s.observe(vHistStrings(hist)) }
func (s *vC05Sys) ObserveNow(hist []vOp) { s.observe(vHistStrings(hist)) }
func (s *vHybSys) ObserveNow(hist []vOp) { s.observe(vHistStrings(hist)) }
