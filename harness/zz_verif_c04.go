//go:build verif

package comet

// C04 — metadata filters return exactly the documents that satisfy the predicate.

import (
	"fmt"
	"math"
	"sort"
	"strings"
)

var vC04Docs = []map[string]interface{}{
	{"s": "x", "b": true, "i": 7, "f": 0.29},
	{"s": "y", "b": false, "i": -3, "f": 0.28},
	{"s": "", "i": 0, "f": -1.5},
	{"s": "x:y", "b": true, "f": 19.99},
	{"i": int64(1) << 40, "f": 2.5012},
	{"i": -(int64(1) << 40), "s": "x"},
	{"b": false},
	{"f": 0.0, "i": 7},
	{"s": "y", "i": -1},
	{"i": 1, "f": 0.3},
}

var vC04FieldType = map[string]byte{"s": 'S', "b": 'B', "i": 'I', "f": 'F'}

func vFx(v interface{}) (int64, bool) {
	switch x := v.(type) {
	case int:
		return int64(x), true
	case int64:
		return x, true
	case float64:
		return int64(math.Round(x * 100)), true
	}
	return 0, false
}

type vC04Sys struct {
	c          *vCtx
	cfgS       string
	idx        *RoaringMetadataIndex
	live       map[uint32]int // id -> doc index
	rem        map[uint32]bool
	seen       map[string]bool // fields ever indexed in this history
	nAdd       int
	maxDocs    int
	inRecheck  bool
	noPrepared bool                     // lean mode: no prepared-search objects
	reuse      int                      // > 0: re-add mode over ids 1..reuse (see Enabled)
	docs       []map[string]interface{} // document alphabet (nil = vC04Docs)
	qs         []vC04Query
}

type vC04Query struct {
	name    string
	filters []Filter
	groups  []*FilterGroup
}

func (s *vC04Sys) Reset() {
	vResetGlobals()
	if s.docs == nil {
		s.docs = vC04Docs
	}
	s.idx = NewRoaringMetadataIndex()
	s.live = map[uint32]int{}
	s.rem = map[uint32]bool{}
	s.seen = map[string]bool{}
	s.nAdd = 0
}

func (s *vC04Sys) Enabled() []vOp {
	var ops []vOp
	if s.reuse > 0 {
		// re-add mode: ids 1..reuse, an id that is not live may be added (again) with any
		// document of the alphabet - successive VERSIONS of one id
		for id := 1; id <= s.reuse; id++ {
			if _, live := s.live[uint32(id)+vIDBase]; live {
				ops = append(ops, vOp{K: "Remove", A: id, B: 0}, vOp{K: "Remove", A: id, B: 2})
				continue
			}
			for di := range s.docs {
				ops = append(ops, vOp{K: "Add", A: id, B: di})
			}
		}
		return ops
	}
	if s.nAdd < s.maxDocs {
		for di := range s.docs {
			ops = append(ops, vOp{K: "Add", A: s.nAdd + 1, B: di})
		}
	}
	ids := []int{}
	for id := range s.live {
		ids = append(ids, int(id-vIDBase))
	}
	sort.Ints(ids)
	for _, id := range ids {
		// B = what the node handed to Remove carries besides the id (only the id
		// identifies the document): nothing, the indexed metadata, another document's
		// metadata, a map naming an unknown field
		for b := 0; b < 4; b++ {
			ops = append(ops, vOp{K: "Remove", A: id, B: b})
		}
	}
	return ops
}

func (s *vC04Sys) Apply(op vOp, hist []vOp, check bool) {
	h := func() []string { return vHistStrings(append(hist, op)) }
	// prepared search objects: configured BEFORE the operation (one per single filter, as a
	// plain filter and as a one-filter group), executed for the first time AFTER it - a
	// search answers from the index as it is when Execute runs
	var prep []MetadataSearch
	var prepF []Filter
	if check && !s.noPrepared {
		for _, f := range vC04Singles() {
			f := f
			prep = append(prep, s.idx.NewSearch().WithFilters(f))
			prepF = append(prepF, f)
			if len(prepF)%5 == 0 {
				prep = append(prep, s.idx.NewSearch().WithFilterGroups(&FilterGroup{Filters: []Filter{f}, Logic: AND}))
				prepF = append(prepF, f)
			}
		}
	}
	defer func() {
		for i, ps := range prep {
			s.c.Evaluations++
			set := func(ms MetadataSearch) (out map[uint32]bool, err error) {
				defer func() {
					if r := recover(); r != nil {
						err = fmt.Errorf("panic: %v", r)
					}
				}()
				res, err := ms.Execute()
				if err != nil {
					return nil, err
				}
				out = map[uint32]bool{}
				for _, r := range res {
					out[r.GetId()] = true
				}
				return out, nil
			}
			r1, e1 := set(ps)
			r2, e2 := set(s.idx.NewSearch().WithFilters(prepF[i]))
			if (e1 != nil) != (e2 != nil) {
				s.c.Violation("prepared-search-stale", "error-differs", s.cfgS, h(), fmt.Sprintf("%s: a search object configured before the last operation returned err=%v, one configured after it err=%v", vFilterStr(prepF[i]), e1, e2))
			} else if e1 == nil && !vSetEq(r1, r2) {
				s.c.Violation("prepared-search-stale", "result-differs", s.cfgS, h(), fmt.Sprintf("%s: a search object configured before the last operation returned %v, one configured after it %v", vFilterStr(prepF[i]), vSetStr(r1), vSetStr(r2)))
			}
		}
	}()
	switch op.K {
	case "Add":
		if s.reuse == 0 {
			s.nAdd++
		}
		err := s.idx.Add(*NewMetadataNodeWithID((uint32(op.A) + vIDBase), vCloneMeta(s.docs[op.B])))
		vSpoilMeta()
		if err != nil {
			if check {
				s.c.Violation("add-failed", "", s.cfgS, h(), err.Error())
			}
			break
		}
		s.live[(uint32(op.A) + vIDBase)] = op.B
		for k := range s.docs[op.B] {
			s.seen[k] = true
		}
	case "Remove":
		var carried map[string]interface{}
		if di, ok := s.live[(uint32(op.A) + vIDBase)]; ok {
			switch op.B {
			case 1:
				carried = vCloneMeta(s.docs[di])
			case 2:
				carried = vCloneMeta(s.docs[(di+1)%len(s.docs)])
			case 3:
				carried = map[string]interface{}{"zz_unknown": "x"}
			}
		}
		if err := s.idx.Remove(*NewMetadataNodeWithID((uint32(op.A) + vIDBase), carried)); err != nil {
			if check {
				s.c.Violation("remove-failed", "", s.cfgS, h(), err.Error())
			}
			break
		}
		delete(s.live, (uint32(op.A) + vIDBase))
		s.rem[(uint32(op.A) + vIDBase)] = true
	}
	if check {
		s.observe(h())
	}
}

// eval returns the model's answer for one filter; judged=false when the filter is
// outside the oracle's domain (see DESIGN C04). tag is a witness label for known findings.
func (s *vC04Sys) eval(f Filter) (set map[uint32]bool, judged bool, tag string) {
	set = map[uint32]bool{}
	ft := vC04FieldType[f.Field]
	has := func(id uint32) (interface{}, bool) {
		v, ok := s.docs[s.live[id]][f.Field]
		return v, ok
	}
	switch f.Operator {
	case OpExists:
		for id := range s.live {
			if _, ok := has(id); ok {
				set[id] = true
			}
		}
		return set, true, ""
	case OpNotExists:
		for id := range s.live {
			if _, ok := has(id); !ok {
				set[id] = true
			}
		}
		return set, true, ""
	}
	if ft == 0 {
		// field absent from every document: eq/in match nothing, ne/not_in match all live
		switch f.Operator {
		case OpEqual, OpIn:
			return set, true, ""
		case OpNotEqual, OpNotIn:
			for id := range s.live {
				set[id] = true
			}
			return set, true, ""
		}
		return nil, false, ""
	}
	if !s.seen[f.Field] {
		return nil, false, "" // the index cannot know the field's type yet
	}
	if ft == 'S' || ft == 'B' {
		key := func(v interface{}) string { return fmt.Sprintf("%v", v) }
		var vals []string
		switch f.Operator {
		case OpEqual, OpNotEqual:
			vals = []string{key(f.Value)}
		case OpIn, OpNotIn:
			l, ok := f.Value.([]interface{})
			if !ok {
				return nil, false, ""
			}
			for _, v := range l {
				vals = append(vals, key(v))
			}
		default:
			return nil, false, ""
		}
		for id := range s.live {
			v, ok := has(id)
			match := false
			if ok {
				for _, w := range vals {
					if key(v) == w {
						match = true
					}
				}
			}
			if f.Operator == OpEqual || f.Operator == OpIn {
				if match {
					set[id] = true
				}
			} else if !match {
				set[id] = true
			}
		}
		return set, true, ""
	}
	// numeric
	a, ok := vFx(f.Value)
	if !ok {
		return nil, false, ""
	}
	var b int64
	if f.Operator == OpRange {
		b, ok = vFx(f.Value2)
		if !ok {
			return nil, false, ""
		}
	}
	signMix := false
	for id := range s.live {
		v, okv := has(id)
		if !okv {
			continue
		}
		x, _ := vFx(v)
		if (x < 0) != (a < 0) || (f.Operator == OpRange && (x < 0) != (b < 0)) {
			signMix = true
		}
		m := false
		switch f.Operator {
		case OpEqual:
			m = x == a
		case OpNotEqual:
			m = x != a
		case OpGreaterThan:
			m = x > a
		case OpGreaterThanOrEqual:
			m = x >= a
		case OpLessThan:
			m = x < a
		case OpLessThanOrEqual:
			m = x <= a
		case OpRange:
			m = x >= a && x <= b
		default:
			return nil, false, ""
		}
		if m {
			set[id] = true
		}
	}
	if signMix {
		tag = "stored-value-and-operand-differ-in-sign"
	}
	return set, true, tag
}

func vSetEq(a, b map[uint32]bool) bool {
	if len(a) != len(b) {
		return false
	}
	for k := range a {
		if !b[k] {
			return false
		}
	}
	return true
}

func (s *vC04Sys) run(q vC04Query) (map[uint32]bool, error) {
	ms := s.idx.NewSearch()
	if len(q.filters) > 0 {
		ms = ms.WithFilters(q.filters...)
	}
	if len(q.groups) > 0 {
		ms = ms.WithFilterGroups(q.groups...)
	}
	res, err := ms.Execute()
	if err != nil {
		return nil, err
	}
	got := map[uint32]bool{}
	for _, r := range res {
		got[r.GetId()] = true
	}
	return got, nil
}

func vFilterStr(f Filter) string {
	if f.Operator == OpRange {
		return fmt.Sprintf("%s %s [%v,%v]", f.Field, f.Operator, f.Value, f.Value2)
	}
	return fmt.Sprintf("%s %s %v", f.Field, f.Operator, f.Value)
}

func (s *vC04Sys) observe(h []string) {
	mkey := s.Key()
	if !s.inRecheck {
		defer func() {
			// searching must not change later answers: after the trees, the whole pass
			// (single filters, negations, trees) is evaluated once more against the model
			s.inRecheck = true
			s.observe(h)
			s.inRecheck = false
		}()
	}
	// (0) empty filter list = all live documents
	s.c.Evaluations++
	if got, err := s.run(vC04Query{}); err != nil {
		s.c.Violation("search-error", "", s.cfgS, h, err.Error())
	} else {
		all := map[uint32]bool{}
		for id := range s.live {
			all[id] = true
		}
		if !vSetEq(got, all) {
			s.c.Violation("empty-filter-list", "", s.cfgS, h, fmt.Sprintf("got %v want %v", vSetStr(got), vSetStr(all)))
		}
	}
	// (1) single filters and their negations
	singles := vC04Singles()
	ans := make([]map[uint32]bool, len(singles))
	judged := make([]bool, len(singles))
	for i, f := range singles {
		func() {
			defer func() {
				if r := recover(); r != nil {
					s.c.Violation("panic", "", s.cfgS, h, fmt.Sprintf("%s: %v", vFilterStr(f), r))
				}
			}()
			s.c.Evaluations++
			want, j, tag := s.eval(f)
			got, err := s.run(vC04Query{filters: []Filter{f}})
			if !j {
				s.c.Extra["filters_outside_oracle_domain"]++
				return
			}
			judged[i] = true
			ans[i] = want
			if err != nil {
				s.c.Violation("search-error", "", s.cfgS, h, vFilterStr(f)+": "+err.Error())
				return
			}
			if !vSetEq(got, want) {
				s.c.Violation("wrong-filter-answer", vC04Cause(f, tag), s.cfgS, h, fmt.Sprintf("%s: got %v want %v", vFilterStr(f), vSetStr(got), vSetStr(want)))
			}
			if len(want) > 0 && len(want) < len(s.live) {
				s.c.Nontrivial(mkey + "|" + vFilterStr(f))
			}
			s.c.Outcome(fmt.Sprint(vSetStr(want)))
			// Not(f): complement within f's own universe
			nf := Not(f)
			s.c.Evaluations++
			univ := map[uint32]bool{}
			ft := vC04FieldType[f.Field]
			for id := range s.live {
				if ft == 'I' || ft == 'F' {
					if f.Operator != OpExists && f.Operator != OpNotExists {
						if _, ok := s.docs[s.live[id]][f.Field]; !ok {
							continue
						}
					}
				}
				univ[id] = true
			}
			wantN := map[uint32]bool{}
			for id := range univ {
				if !want[id] {
					wantN[id] = true
				}
			}
			gotN, err := s.run(vC04Query{filters: []Filter{nf}})
			if err != nil {
				s.c.Violation("search-error", "not", s.cfgS, h, "Not("+vFilterStr(f)+"): "+err.Error())
				return
			}
			if !vSetEq(gotN, wantN) {
				cause := vC04Cause(f, tag)
				s.c.Violation("wrong-negation", cause, s.cfgS, h, fmt.Sprintf("Not(%s): got %v want %v (universe %v)", vFilterStr(f), vSetStr(gotN), vSetStr(wantN), vSetStr(univ)))
			}
		}()
	}
	// (2) filter trees over a basis with pairwise different answers (first 6 judged filters with distinct answers)
	var basis []int
	seenAns := map[string]bool{}
	for _, pref := range vC04BasisPref {
		for i, f := range singles {
			if len(basis) >= 6 {
				break
			}
			if !judged[i] || vFilterStr(f) != pref {
				continue
			}
			// the implementation's own single-filter answer must already be right for the
			// filter to serve as a tree leaf (tree laws are judged independently of leaf bugs)
			got, err := s.run(vC04Query{filters: []Filter{f}})
			if err != nil || !vSetEq(got, ans[i]) {
				continue
			}
			k := fmt.Sprint(vSetStr(ans[i]))
			if seenAns[k] {
				continue
			}
			seenAns[k] = true
			basis = append(basis, i)
		}
	}
	if len(basis) < 2 {
		return
	}
	// groups = non-empty subsets of the basis with at most 3 filters
	var groups [][]int
	n := len(basis)
	for a := 0; a < n; a++ {
		groups = append(groups, []int{basis[a]})
		for b := a + 1; b < n; b++ {
			groups = append(groups, []int{basis[a], basis[b]})
			for c := b + 1; c < n; c++ {
				groups = append(groups, []int{basis[a], basis[b], basis[c]})
			}
		}
	}
	and := func(g []int) map[uint32]bool {
		out := map[uint32]bool{}
		for id := range s.live {
			ok := true
			for _, i := range g {
				if !ans[i][id] {
					ok = false
				}
			}
			if ok {
				out[id] = true
			}
		}
		return out
	}
	mk := func(g []int) *FilterGroup {
		fg := &FilterGroup{Logic: AND}
		for _, i := range g {
			fg.Filters = append(fg.Filters, singles[i])
		}
		return fg
	}
	checkTree := func(gs [][]int, viaFilters bool) {
		s.c.Evaluations++
		want := map[uint32]bool{}
		for _, g := range gs {
			for id := range and(g) {
				want[id] = true
			}
		}
		var q vC04Query
		if viaFilters {
			q.filters = mk(gs[0]).Filters
		} else {
			for _, g := range gs {
				q.groups = append(q.groups, mk(g))
			}
		}
		got, err := s.run(q)
		if err != nil {
			s.c.Violation("search-error", "tree", s.cfgS, h, fmt.Sprintf("tree %v: %v", gs, err))
			return
		}
		if !vSetEq(got, want) {
			desc := ""
			for _, g := range gs {
				desc += "("
				for _, i := range g {
					desc += vFilterStr(singles[i]) + " AND "
				}
				desc = strings.TrimSuffix(desc, " AND ") + ") OR "
			}
			s.c.Violation("wrong-tree-answer", fmt.Sprintf("groups=%d viaFilters=%v", len(gs), viaFilters), s.cfgS, h, fmt.Sprintf("%s: got %v want %v", strings.TrimSuffix(desc, " OR "), vSetStr(got), vSetStr(want)))
		}
		if len(want) > 0 && len(want) < len(s.live) {
			s.c.Nontrivial(mkey + fmt.Sprint(gs, viaFilters))
		}
	}
	for gi, g := range groups {
		checkTree([][]int{g}, true)
		checkTree([][]int{g}, false)
		for hi := gi; hi < len(groups); hi++ {
			checkTree([][]int{g, groups[hi]}, false)
		}
	}
	// three groups of at most two filters
	var small [][]int
	for _, g := range groups {
		if len(g) <= 2 {
			small = append(small, g)
		}
	}
	for a := 0; a < len(small); a++ {
		for b := a; b < len(small); b++ {
			for c := b; c < len(small); c++ {
				checkTree([][]int{small[a], small[b], small[c]}, false)
			}
		}
	}
	// one group of four filters
	if len(basis) >= 4 {
		checkTree([][]int{basis[:4]}, false)
		checkTree([][]int{basis[:4]}, true)
	}
}

func vC04Cause(f Filter, tag string) string {
	ft := vC04FieldType[f.Field]
	c := ""
	if ft == 'I' || ft == 'F' {
		c = "numeric"
	} else {
		c = "categorical"
	}
	if tag != "" {
		c += ":" + tag
	}
	return c
}

var vC04BasisPref = []string{"s in [x]", "s eq y", "b eq true", "i gte 0", "f lt 0.3", "s exists <nil>", "i not_exists <nil>", "s ne y", "f exists <nil>", "b ne true", "i eq 7"}

func vC04Singles() []Filter {
	var out []Filter
	for _, v := range []interface{}{"x", "y", "", "x:y", "zz"} {
		out = append(out, Eq("s", v), Ne("s", v))
	}
	out = append(out, In("s", "x"), In("s", "x", "y"), In("s", "zz"), In("s", "", "x:y"), NotIn("s", "x"), NotIn("s", "x", "y"), NotIn("s", "zz"))
	for _, v := range []interface{}{true, false} {
		out = append(out, Eq("b", v), Ne("b", v))
	}
	out = append(out, In("b", true), NotIn("b", true, false))
	for _, fld := range []string{"s", "b", "i", "f", "zz"} {
		out = append(out, Exists(fld), NotExists(fld))
	}
	out = append(out, Eq("zz", "x"), Ne("zz", "x"), Eq("zz", 1), Gt("zz", 1), In("zz", "x"), NotIn("zz", "x"))
	iv := []interface{}{-4, -3, -2, -1, 0, 1, 6, 7, 8, int64(1) << 40, -(int64(1) << 40), (int64(1) << 40) + 1}
	for _, v := range iv {
		out = append(out, Eq("i", v), Ne("i", v), Gt("i", v), Gte("i", v), Lt("i", v), Lte("i", v))
	}
	for _, r := range [][2]interface{}{{-3, 7}, {0, 0}, {-5, -1}, {1, 100}, {7, -3}, {-(int64(1) << 40), int64(1) << 40}, {0, 7}, {-3, -3}} {
		out = append(out, Range("i", r[0], r[1]))
	}
	// operands with two decimals, and operands with a third decimal on either side of the
	// rounding point (never exactly on it): floats are compared at two-decimal fixed point,
	// so an operand is its nearest hundredth for every operator alike
	fv := []interface{}{-1.5, -1.51, 0.0, 0.01, 0.28, 0.29, 0.3, 19.99, 20.0, 2.5, 2.51,
		0.284, 0.286, 0.294, 0.296, 19.994, 19.996, 2.496, 2.504, 0.004, 0.006, -1.496, -1.504}
	for _, v := range fv {
		out = append(out, Eq("f", v), Ne("f", v), Gt("f", v), Gte("f", v), Lt("f", v), Lte("f", v))
	}
	for _, r := range [][2]interface{}{{0.28, 0.29}, {-2.0, 0.0}, {0.29, 19.99}, {0.0, 0.0}, {2.5, 2.51}, {0.284, 0.286}, {0.286, 19.994}, {0.296, 19.996}, {0.006, 2.496}} {
		out = append(out, Range("f", r[0], r[1]))
	}
	// out of the oracle's domain: must merely not panic
	out = append(out, Gt("s", "x"), Range("s", "a", "z"), In("i", 7, 1), Eq("i", "seven"), Lt("b", true), Eq("f", 7), Gt("i", 0.5))
	return out
}

func (s *vC04Sys) Key() string { return s.keyCanon() + "#deep" + vDeepHash(s.idx) }

func (s *vC04Sys) keyCanon() string {
	ids := []int{}
	for id := range s.live {
		ids = append(ids, int(id))
	}
	sort.Ints(ids)
	var sb strings.Builder
	sb.WriteString(vCanonMeta(s.idx) + "#")
	for _, id := range ids {
		fmt.Fprintf(&sb, "%d=%d;", id, s.live[uint32(id)])
	}
	fmt.Fprintf(&sb, "rem%v n%d", vSetStr(s.rem), s.nAdd)
	return sb.String()
}

// vC04Sweep: for every n in 1..maxN, n structured documents (every third removed),
// full filter alphabet and trees after each phase.
// vC04Keys: field NAMES and string values are arbitrary text. Documents whose field names
// and values contain the characters an implementation might use as separators (':', '\\',
// '=', ' ', '|', NUL, the empty value) are added in every order (all sequences of <= 3
// documents, optionally one removed); every Eq / Ne / In / NotIn / Exists / NotExists over
// every (field, value) pair occurring in the alphabet is compared with plain map lookups.
func vC04Keys(c *vCtx, maxDocs int) {
	docs := []map[string]interface{}{
		{"a": "b:c"}, {"a:b": "c"}, {"a": "b"}, {"a:": "b:c"}, {"a\\": ":b"}, {"a\\:b": "c"},
		{"k=v": "w"}, {"k": "v=w"}, {"x y": "z"}, {"x": "y z"}, {"p|q": "r"}, {"p": "q|r"}, {"n\x00m": "o"}, {"n": "m\x00o"},
		{"a": "", "a:": ""}, {"": "a:b"}, {"": ""},
		// values / names at the edges of the code space: the last BMP code points, the first
		// and a typical supplementary-plane one (4-byte UTF-8 sorts after U+FFFF), invalid UTF-8
		{"a": "\U0001F600 happy"}, {"a": "\uffff"}, {"a": "\U00010000"}, {"a": "\xff\xfe"}, {"\U0001F600": "c"}, {"a\uffff": "b"},
	}
	type fv struct{ f, v string }
	var pairs []fv
	fields := map[string]bool{}
	seenP := map[fv]bool{}
	for _, d := range docs {
		for f, v := range d {
			fields[f] = true
			if !seenP[fv{f, v.(string)}] {
				seenP[fv{f, v.(string)}] = true
				pairs = append(pairs, fv{f, v.(string)})
			}
		}
	}
	var fl []string
	for f := range fields {
		fl = append(fl, f)
	}
	sort.Strings(fl)
	sort.Slice(pairs, func(i, j int) bool { return pairs[i].f+"\x01"+pairs[i].v < pairs[j].f+"\x01"+pairs[j].v })
	// every field crossed with every value of the alphabet
	vals := map[string]bool{}
	for _, p := range pairs {
		vals[p.v] = true
	}
	var vl []string
	for v := range vals {
		vl = append(vl, v)
	}
	sort.Strings(vl)
	var seq []int
	var rec func()
	judge := func(removed int) {
		idx := NewRoaringMetadataIndex()
		live := map[uint32]map[string]interface{}{}
		var hist []string
		for i, di := range seq {
			id := uint32(i + 1)
			if err := idx.Add(*NewMetadataNodeWithID(id, vCloneMeta(docs[di]))); err != nil {
				c.Violation("add-failed", "keys", "metadata keys", hist, err.Error())
				return
			}
			live[id] = docs[di]
			hist = append(hist, fmt.Sprintf("Add(%d,%q)", id, fmt.Sprint(docs[di])))
		}
		if removed > 0 {
			idx.Remove(*NewMetadataNodeWithID(uint32(removed), nil))
			delete(live, uint32(removed))
			hist = append(hist, fmt.Sprintf("Remove(%d)", removed))
		}
		c.Transitions++
		c.Traces++
		c.NewState("keys|" + strings.Join(hist, ";"))
		check := func(name string, f Filter, pred func(d map[string]interface{}) bool) {
			c.Evaluations++
			res, err := idx.NewSearch().WithFilters(f).Execute()
			if err != nil {
				c.Violation("search-error", "keys", "metadata keys", hist, name+": "+err.Error())
				return
			}
			got := map[uint32]bool{}
			for _, r := range res {
				got[r.GetId()] = true
			}
			var want, have []uint32
			for id, d := range live {
				if pred(d) {
					want = append(want, id)
				}
			}
			for id := range got {
				have = append(have, id)
			}
			sort.Slice(want, func(i, j int) bool { return want[i] < want[j] })
			sort.Slice(have, func(i, j int) bool { return have[i] < have[j] })
			if fmt.Sprint(want) != fmt.Sprint(have) {
				c.Violation("wrong-filter-answer", "field-or-value-contains-a-separator-character", "metadata keys", hist, fmt.Sprintf("%s returned %v, expected %v", name, have, want))
			}
			if len(want) > 0 && len(want) < len(live) {
				c.Nontrivial("keys|" + strings.Join(hist, ";") + name)
			}
		}
		for _, f := range fl {
			f := f
			check(fmt.Sprintf("Exists(%q)", f), Exists(f), func(d map[string]interface{}) bool { _, ok := d[f]; return ok })
			check(fmt.Sprintf("NotExists(%q)", f), NotExists(f), func(d map[string]interface{}) bool { _, ok := d[f]; return !ok })
			for _, v := range vl {
				v := v
				eq := func(d map[string]interface{}) bool { x, ok := d[f]; return ok && x == v }
				check(fmt.Sprintf("Eq(%q,%q)", f, v), Eq(f, v), eq)
				check(fmt.Sprintf("Ne(%q,%q)", f, v), Ne(f, v), func(d map[string]interface{}) bool { return !eq(d) })
				check(fmt.Sprintf("In(%q,[%q])", f, v), In(f, v), eq)
				check(fmt.Sprintf("NotIn(%q,[%q])", f, v), NotIn(f, v), func(d map[string]interface{}) bool { return !eq(d) })
			}
		}
	}
	rec = func() {
		if len(seq) > 0 {
			judge(0)
			if len(seq) >= 2 {
				judge(1)
			}
		}
		if len(seq) == maxDocs || c.Expired() {
			return
		}
		for di := range docs {
			dup := false
			for _, x := range seq {
				dup = dup || x == di
			}
			if dup {
				continue
			}
			seq = append(seq, di)
			rec()
			seq = seq[:len(seq)-1]
		}
	}
	rec()
	c.Sample("field names / values with ':', '\\\\', '=', ' ', '|', NUL and empty strings; every Eq/Ne/In/NotIn/Exists/NotExists over every (field, value) of the alphabet")
	c.Bound = fmt.Sprintf("all sequences of <= %d of %d documents, optionally the first removed", maxDocs, len(docs))
}

// vC04Equivalent: operands that are the SAME number at two-decimal fixed point although
// they differ as float64 (0.3 and 0.1+0.2, 19.99 and 19.9949, 2.5 and 2.504), used
// together in one AND chain on the same field, with every pair of operators: the chain
// is the conjunction of its filters, each judged at fixed point (non-negative data).
func vC04Equivalent(c *vCtx) {
	cfgS := "metadata equivalent-operands"
	vals := []float64{0.3, 19.99, 0.05, 2.5, 0, 7}
	idx := NewRoaringMetadataIndex()
	var hist []string
	for i, v := range vals {
		d := map[string]interface{}{"f": v, "i": i + 5}
		if err := idx.Add(*NewMetadataNodeWithID(uint32(i+1), d)); err != nil {
			c.Violation("add-failed", "equivalent", cfgS, hist, err.Error())
			return
		}
		hist = append(hist, fmt.Sprintf("Add(%d,f=%v)", i+1, v))
	}
	x, y := 0.1, 0.2
	pairs := [][2]float64{{0.3, x + y}, {19.99, 19.9949}, {19.99, 19.99}, {0.05, 0.051}, {2.5, 2.504}, {2.496, 2.5}, {7, 7.004}, {0, 0.004}, {0.3, 19.99}}
	type opf struct {
		name string
		mk   func(v float64) Filter
		ok   func(doc, operand int64) bool
	}
	ops := []opf{
		{"eq", func(v float64) Filter { return Eq("f", v) }, func(d, o int64) bool { return d == o }},
		{"ne", func(v float64) Filter { return Ne("f", v) }, func(d, o int64) bool { return d != o }},
		{"gte", func(v float64) Filter { return Gte("f", v) }, func(d, o int64) bool { return d >= o }},
		{"lte", func(v float64) Filter { return Lte("f", v) }, func(d, o int64) bool { return d <= o }},
		{"gt", func(v float64) Filter { return Gt("f", v) }, func(d, o int64) bool { return d > o }},
		{"lt", func(v float64) Filter { return Lt("f", v) }, func(d, o int64) bool { return d < o }},
	}
	fx := func(v float64) int64 { return int64(math.Round(v * 100)) }
	for _, p := range pairs {
		for _, a := range ops {
			for _, b := range ops {
				want := map[uint32]bool{}
				for i, v := range vals {
					if a.ok(fx(v), fx(p[0])) && b.ok(fx(v), fx(p[1])) {
						want[uint32(i+1)] = true
					}
				}
				fa, fb := a.mk(p[0]), b.mk(p[1])
				name := fmt.Sprintf("f %s %.17g AND f %s %.17g", a.name, p[0], b.name, p[1])
				for vi, ms := range []MetadataSearch{
					idx.NewSearch().WithFilters(fa, fb),
					idx.NewSearch().WithFilters(fb, fa),
					idx.NewSearch().WithFilterGroups(&FilterGroup{Logic: AND, Filters: []Filter{fa, fb}}),
					idx.NewSearch().WithFilterGroups(&FilterGroup{Logic: AND, Filters: []Filter{fb, fa, fa}}),
				} {
					c.Evaluations++
					res, err := ms.Execute()
					if err != nil {
						c.Violation("search-error", "equivalent", cfgS, hist, name+": "+err.Error())
						continue
					}
					got := map[uint32]bool{}
					for _, r := range res {
						got[r.GetId()] = true
					}
					if !vSetEq(got, want) {
						c.Violation("wrong-filter-answer", "equivalent-operands-in-one-chain", cfgS, hist, fmt.Sprintf("%s (variant %d) returned %v, expected %v", name, vi, vSetStr(got), vSetStr(want)))
					}
				}
				if len(want) > 0 && len(want) < len(vals) {
					c.Nontrivial("equiv|" + name)
				}
			}
		}
		c.Traces++
	}
	c.NewState(cfgS)
	c.Transitions += int64(len(vals))
	c.Bound = fmt.Sprintf("%d operand pairs x 36 operator pairs x 4 ways of writing the chain", len(pairs))
}

// vC04Lists: filters whose VALUES print alike although they differ (a list of one string
// with a space vs a list of two strings, an empty list vs a list holding the empty string,
// a bracketed string vs a list, lists in another order) combined in every OR of two
// groups and every "g1 OR (f2 AND f3)" - an implementation that identifies filters by
// their printed form (caches, de-duplication, canonical ordering) confuses them.
func vC04Lists(c *vCtx) {
	cfgS := "metadata lists"
	docs := []map[string]interface{}{
		{"tag": "red wine"}, {"tag": "red"}, {"tag": "wine"}, {"tag": ""}, {}, {"tag": "[red wine]"}, {"tag": "red", "stock": true}, {"tag": "wine", "stock": false},
	}
	idx := NewRoaringMetadataIndex()
	var hist []string
	for i, d := range docs {
		if len(d) == 0 {
			d = map[string]interface{}{"other": "x"}
			docs[i] = d
		}
		if err := idx.Add(*NewMetadataNodeWithID(uint32(i+1), vCloneMeta(d))); err != nil {
			c.Violation("add-failed", "lists", cfgS, hist, err.Error())
			return
		}
		hist = append(hist, fmt.Sprintf("Add(%d,%v)", i+1, d))
	}
	type nf struct {
		name string
		f    Filter
		pred func(d map[string]interface{}) bool
	}
	in := func(vals ...string) func(d map[string]interface{}) bool {
		return func(d map[string]interface{}) bool {
			x, ok := d["tag"]
			if !ok {
				return false
			}
			for _, v := range vals {
				if x == v {
					return true
				}
			}
			return false
		}
	}
	not := func(p func(d map[string]interface{}) bool) func(d map[string]interface{}) bool {
		return func(d map[string]interface{}) bool { return !p(d) }
	}
	var fs []nf
	for _, vals := range [][]string{{"red wine"}, {"red", "wine"}, {"wine", "red"}, {}, {""}, {"[red wine]"}, {"red"}, {"", "red wine"}} {
		iv := make([]interface{}, len(vals))
		for i, v := range vals {
			iv[i] = v
		}
		fs = append(fs, nf{fmt.Sprintf("In(tag,%q)", vals), In("tag", iv...), in(vals...)})
		fs = append(fs, nf{fmt.Sprintf("NotIn(tag,%q)", vals), NotIn("tag", iv...), not(in(vals...))})
	}
	fs = append(fs, nf{"Eq(tag,\"red wine\")", Eq("tag", "red wine"), in("red wine")})
	fs = append(fs, nf{"Eq(stock,true)", Eq("stock", true), func(d map[string]interface{}) bool { return d["stock"] == true }})
	run := func(name string, groups []*FilterGroup, pred func(d map[string]interface{}) bool) {
		c.Evaluations++
		res, err := idx.NewSearch().WithFilterGroups(groups...).Execute()
		if err != nil {
			c.Violation("search-error", "lists", cfgS, hist, name+": "+err.Error())
			return
		}
		var want, have []uint32
		for i, d := range docs {
			if pred(d) {
				want = append(want, uint32(i+1))
			}
		}
		for _, r := range res {
			have = append(have, r.GetId())
		}
		sort.Slice(have, func(i, j int) bool { return have[i] < have[j] })
		if fmt.Sprint(want) != fmt.Sprint(have) {
			c.Violation("wrong-filter-answer", "filters-that-print-alike", cfgS, hist, fmt.Sprintf("%s returned %v, expected %v", name, have, want))
		}
		if len(want) > 0 && len(want) < len(docs) {
			c.Nontrivial("lists|" + name)
		}
	}
	g := func(fl ...Filter) *FilterGroup { return &FilterGroup{Logic: AND, Filters: fl} }
	for _, a := range fs {
		a := a
		run(a.name, []*FilterGroup{g(a.f)}, a.pred)
		for _, b := range fs {
			b := b
			run("("+a.name+") OR ("+b.name+")", []*FilterGroup{g(a.f), g(b.f)}, func(d map[string]interface{}) bool { return a.pred(d) || b.pred(d) })
			run("("+a.name+" AND "+b.name+")", []*FilterGroup{g(a.f, b.f)}, func(d map[string]interface{}) bool { return a.pred(d) && b.pred(d) })
			for _, x := range fs {
				x := x
				run("("+a.name+") OR ("+b.name+" AND "+x.name+")", []*FilterGroup{g(a.f), g(b.f, x.f)}, func(d map[string]interface{}) bool { return a.pred(d) || (b.pred(d) && x.pred(d)) })
			}
		}
		c.Traces++
	}
	c.NewState(cfgS)
	c.Transitions += int64(len(docs))
	c.Sample("In(tag,[\"red wine\"]) vs In(tag,[\"red\",\"wine\"]) vs In(tag,[]) vs In(tag,[\"\"]) ... in every g1 OR g2, g1 AND, g1 OR (f2 AND f3)")
	c.Bound = fmt.Sprintf("all combinations of %d filters in 1-2 groups of <= 2 filters", len(fs))
}

// (the "bigids" shards run the depth-bounded search and a short sweep with every id shifted
// by vIDBase: ids around 2^16, 2^31 and up to 2^32-1)
func vC04Sweep(c *vCtx, maxN int) {
	for n := 1; n <= maxN; n++ {
		if c.Expired() {
			c.Bound = fmt.Sprintf("sweep sizes 1..%d", n-1)
			return
		}
		docs := make([]map[string]interface{}, n+1)
		for i := range docs {
			d := map[string]interface{}{}
			if i%4 != 3 {
				d["s"] = []string{"x", "y", "", "x:y"}[i%4]
			}
			if i%3 != 1 {
				d["i"] = (i*5)%13 + i/13
			}
			if i%5 != 4 {
				d["f"] = float64(i%7) * 0.29
			}
			if i%2 == 0 {
				d["b"] = i%4 == 0
			}
			if len(d) == 0 {
				d["s"] = "y"
			}
			docs[i] = d
		}
		s := &vC04Sys{c: c, cfgS: fmt.Sprintf("metadata sweep n=%d", n) + vIDBaseTag(), maxDocs: n + 1, docs: docs}
		s.Reset()
		var hist []vOp
		ap := func(op vOp, check bool) {
			s.Apply(op, hist, check)
			hist = append(hist, op)
			c.Transitions++
		}
		for i := 0; i < n; i++ {
			ap(vOp{K: "Add", A: i + 1, B: i}, i == n-1)
		}
		for i := 2; i < n; i += 3 {
			ap(vOp{K: "Remove", A: i + 1, B: (i / 3) % 4}, i+3 >= n)
		}
		ap(vOp{K: "Add", A: n + 1, B: n}, true)
		c.Traces++
		c.NewState(s.cfgS)
	}
	c.Sample(fmt.Sprintf("n structured documents, every third removed, one more add; every n in 1..%d", maxN))
	c.Bound = fmt.Sprintf("sweep sizes 1..%d", maxN)
}

// vC04Large: LARGE document sets (a numeric field held by more than 8192 / 65536
// documents) and selective AND chains: a categorical filter that keeps 1/40 of the
// documents (some of which lack the numeric field) followed by numeric comparisons that are
// true at 0, in both orders, through WithFilters and through one AND group; every answer
// is the intersection of the model's single-filter answers. Values and operands are
// non-negative (the mixed-sign finding of the BSI library is witnessed elsewhere).
func vC04Large(c *vCtx, sizes []int) {
	vC04FieldType["g"] = 'S'
	for _, n := range sizes {
		if c.Expired() {
			c.Bound += fmt.Sprintf(" (deadline before n=%d)", n)
			return
		}
		docs := make([]map[string]interface{}, n)
		for i := range docs {
			d := map[string]interface{}{"g": fmt.Sprintf("g%d", i%40)}
			if i%3 != 1 {
				d["i"] = (i * 7) % 5000
			}
			if i%5 != 4 {
				d["f"] = float64(i%700) * 0.29
			}
			if i%2 == 0 {
				d["b"] = i%4 == 0
			}
			docs[i] = d
		}
		s := &vC04Sys{c: c, cfgS: fmt.Sprintf("metadata large n=%d", n), maxDocs: n, docs: docs}
		s.Reset()
		var hist []vOp
		for i := 0; i < n; i++ {
			s.Apply(vOp{K: "Add", A: i + 1, B: i}, hist, false)
		}
		c.Transitions += int64(n)
		chains := [][]Filter{
			{Eq("g", "g7"), Lt("i", 100)},
			{Eq("g", "g7"), Gte("i", 0)},
			{Eq("g", "g7"), Eq("i", 0)},
			{Eq("g", "g7"), Range("i", 0, 2500)},
			{Eq("g", "g7"), Lte("f", 1.0)},
			{Eq("g", "g7"), Ne("i", 5)},
			{In("g", "g1", "g2"), Gt("i", 3)},
			{Eq("g", "g7"), Exists("b"), Lt("i", 50)},
			{Eq("g", "g39"), NotExists("i")},
			{Eq("g", "g13"), Eq("b", true), Lte("i", 4999)},
			{Eq("g", "nope"), Gte("i", 0)},
		}
		judge := func(phase string) {
			for _, ch := range chains {
				var sets []map[uint32]bool
				ok := true
				for _, f := range ch {
					set, judged, _ := s.eval(f)
					ok = ok && judged
					sets = append(sets, set)
				}
				if !ok {
					continue
				}
				want := map[uint32]bool{}
				for id := range sets[0] {
					in := true
					for _, o := range sets[1:] {
						in = in && o[id]
					}
					if in {
						want[id] = true
					}
				}
				rev := make([]Filter, len(ch))
				for i, f := range ch {
					rev[len(ch)-1-i] = f
				}
				for vi, q := range []vC04Query{{filters: ch}, {filters: rev}, {groups: []*FilterGroup{{Filters: ch, Logic: AND}}}, {groups: []*FilterGroup{{Filters: rev, Logic: AND}}}} {
					c.Evaluations++
					got, err := s.run(q)
					var names []string
					for _, f := range ch {
						names = append(names, vFilterStr(f))
					}
					if err != nil {
						c.Violation("search-error", "large", s.cfgS, []string{phase}, fmt.Sprintf("%v: %v", names, err))
						continue
					}
					if !vSetEq(got, want) {
						extra, missing := 0, 0
						var eg uint32
						for id := range got {
							if !want[id] {
								extra++
								eg = id
							}
						}
						for id := range want {
							if !got[id] {
								missing++
								eg = id
							}
						}
						c.Violation("wrong-filter-answer", "large:and-chain", s.cfgS, []string{phase}, fmt.Sprintf("AND chain %v (variant %d): %d ids returned, %d expected; %d not matching, %d missing, e.g. id %d = %v", names, vi, len(got), len(want), extra, missing, eg, docs[eg-1]))
					}
					if len(want) > 0 && len(want) < len(s.live) {
						c.Nontrivial(fmt.Sprintf("%s|%s|%v|%d", s.cfgS, phase, names, vi))
					}
				}
			}
		}
		judge("after the adds")
		for i := 3; i < n; i += 7 {
			s.Apply(vOp{K: "Remove", A: i + 1}, hist, false)
		}
		judge("every 7th removed")
		s.idx.Flush()
		judge("flushed")
		c.Traces++
		c.NewState(s.cfgS)
	}
	c.Bound += fmt.Sprintf(" large document sets %v", sizes)
}

func init() {
	vRegister(&vCheck{
		ID: "C04", Level: "model_checking", Engine: "histmc",
		Rule:        "BFS over Add(fresh id, one of 10 documents mixing string/bool/int/float fields, negative/zero/large ints, two-decimal floats that are not exactly representable, empty string, ':' in a value, absent fields)/Remove histories on the real RoaringMetadataIndex; in every reached state: every single filter (field x 11 operators x operand alphabet incl. absent operands and fields) and its Not(), the empty filter list, and every filter tree over a basis of up to 6 filters with pairwise distinct answers (1-2 groups x <=3 filters, 3 groups x <=2 filters, 1 group x 4 filters, WithFilters) are compared with direct predicate evaluation over the model's live documents. Non-trivial = distinct (state, filter/tree) whose expected answer is a non-empty strict subset of the live documents. Prepared objects: in every checked transition one search object per single filter (every fifth also as a one-filter group) is configured before the operation and executed for the first time after it; it must answer like an object configured afterwards. Re-add histories: ids 1..2, an id that is not live may be added again with any of 4 documents (numeric fields present / absent / other value), depth 7 with one id, 5 with two.",
		Assumptions: []string{"floats compared after rounding to the nearest hundredth (alphabet avoids values where rounding and truncation differ in exact arithmetic)", "not judged (must not panic): ordering operators on non-numeric or never-indexed fields, in/not_in on numeric fields, operands of the wrong type", "bitmap and BSI libraries trusted as libraries; their use by comet is what is checked"},
		Shards: func(tier string) []vShard {
			var sh []vShard
			maxDocs := 3
			if tier == "thorough" {
				maxDocs = 4
			}
			// shard by first document
			for d0 := range vC04Docs {
				d0 := d0
				sh = append(sh, vShard{Name: fmt.Sprintf("meta/first=%d", d0), Run: func(c *vCtx) {
					s := &vC04Sys{c: c, cfgS: fmt.Sprintf("metadata maxDocs=%d first=%d", maxDocs, d0), maxDocs: maxDocs}
					vBFSFrom(c, s, 2*maxDocs, []vOp{{K: "Add", A: 1, B: d0}})
				}})
			}
			maxN := 70
			if tier == "thorough" {
				maxN = 300
			}
			bdepth := 3
			if tier == "thorough" {
				bdepth = 4
			}
			sh = append(sh, vShard{Name: "meta/builders", Run: func(c *vCtx) { vMetaBuilderShard(c, bdepth) }})
			lsz := [][]int{{13000}}
			if tier == "thorough" {
				lsz = [][]int{{13000}, {70000}, {140000}}
			}
			for _, sz := range lsz {
				sz := sz
				sh = append(sh, vShard{Name: fmt.Sprintf("meta/large/%d", sz[0]), Run: func(c *vCtx) { vC04Large(c, sz) }})
			}
			sh = append(sh, vShard{Name: "meta/obsgap", Run: func(c *vCtx) {
				in := &vC04Sys{c: c, cfgS: "metadata obsgap", maxDocs: 2, docs: []map[string]interface{}{vC04Docs[0], vC04Docs[1], vC04Docs[9]}}
				vBFS(c, &vObsGapSys{inner: in}, 6)
			}})
			// successive versions of one id: with a numeric field, without any, with it again
			// (other value); with one id to depth 7, with two ids to depth 5
			sh = append(sh, vShard{Name: "meta/readd", Run: func(c *vCtx) {
				docs := []map[string]interface{}{vC04Docs[7], vC04Docs[6], vC04Docs[9], vC04Docs[8]}
				vBFS(c, &vC04Sys{c: c, cfgS: "metadata readd ids=1", reuse: 1, docs: docs}, 7)
				vBFS(c, &vC04Sys{c: c, cfgS: "metadata readd ids=2", reuse: 2, docs: docs}, 5)
			}})
			sh = append(sh, vShard{Name: "meta/sweep", Run: func(c *vCtx) { vC04Sweep(c, maxN) }})
			sh = append(sh, vShard{Name: "meta/lists", Run: vC04Lists})
			sh = append(sh, vShard{Name: "meta/equivalent", Run: vC04Equivalent})
			sh = append(sh, vShard{Name: "meta/keys", Run: func(c *vCtx) { vC04Keys(c, maxDocs-1) }})
			for _, base := range vIDBases {
				base := base
				sh = append(sh, vShard{Name: fmt.Sprintf("meta/bigids/%d", base), Run: func(c *vCtx) {
					vIDBase = base
					defer func() { vIDBase = 0 }()
					for _, d0 := range []int{0, 4} {
						s := &vC04Sys{c: c, cfgS: fmt.Sprintf("metadata maxDocs=2 first=%d idbase=%d", d0, base), maxDocs: 2}
						vBFSFrom(c, s, 4, []vOp{{K: "Add", A: 1, B: d0}})
					}
					vC04Sweep(c, 12)
				}})
			}
			return sh
		},
		Replay: func(c *vCtx, v *vViolation) bool {
			if i := strings.Index(v.Config, " idbase="); i >= 0 {
				var b uint32
				fmt.Sscanf(v.Config[i:], " idbase=%d", &b)
				vIDBase = b
				defer func() { vIDBase = 0 }()
			}
			if v.Config == "metadata equivalent-operands" {
				vC04Equivalent(c)
				_, ok := c.viol[v.Sig()]
				return ok
			}
			if v.Config == "metadata lists" {
				vC04Lists(c)
				_, ok := c.viol[v.Sig()]
				return ok
			}
			if v.Config == "metadata keys" {
				vC04Keys(c, 3)
				_, ok := c.viol[v.Sig()]
				return ok
			}
			if strings.HasPrefix(v.Config, "metadata readd ids=") {
				var n int
				fmt.Sscanf(v.Config, "metadata readd ids=%d", &n)
				docs := []map[string]interface{}{vC04Docs[7], vC04Docs[6], vC04Docs[9], vC04Docs[8]}
				vReplayHist(&vC04Sys{c: c, cfgS: v.Config, reuse: n, docs: docs}, v.History)
				_, ok := c.viol[v.Sig()]
				return ok
			}
			if v.Config == "metadata obsgap" {
				in := &vC04Sys{c: c, cfgS: v.Config, maxDocs: 2, docs: []map[string]interface{}{vC04Docs[0], vC04Docs[1], vC04Docs[9]}}
				vReplayHist(&vObsGapSys{inner: in}, v.History)
				_, ok := c.viol[v.Sig()]
				return ok
			}
			if strings.HasPrefix(v.Config, "metadata large n=") {
				var n int
				fmt.Sscanf(v.Config, "metadata large n=%d", &n)
				vC04Large(c, []int{n})
				_, ok := c.viol[v.Sig()]
				return ok
			}
			if strings.HasPrefix(v.Config, "metadata sweep n=") {
				var n int
				fmt.Sscanf(v.Config, "metadata sweep n=%d", &n)
				vC04Sweep(c, n)
				_, ok := c.viol[v.Sig()]
				return ok
			}
			var md, first int
			fmt.Sscanf(v.Config, "metadata maxDocs=%d first=%d", &md, &first)
			vReplayHist(&vC04Sys{c: c, cfgS: v.Config, maxDocs: md}, v.History)
			_, ok := c.viol[v.Sig()]
			return ok
		},
	})
}
