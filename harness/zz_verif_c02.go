//go:build verif

package comet

// C02 — every vector index kind returns only live, eligible, correctly scored,
// ordered hits; node search == query search; multi-query aggregation; flush
// invariance for the exhaustive kinds (histmc). Also hosts the per-kind factory and
// the kind-defined score used by C06, C07, C13, C14.

import (
	"fmt"
	"math"
	"sort"
	"strings"
)

type vVecCfg struct {
	Kind   string
	Metric DistanceKind
	Dim    int
	M      int // hnsw M / pq M
	Ef     int // hnsw efConstruction = efSearch
	NList  int
	NBits  int
	Train  int // training set index
}

func (c vVecCfg) String() string {
	return fmt.Sprintf("kind=%s metric=%s dim=%d M=%d ef=%d nlist=%d nbits=%d train=%d", c.Kind, c.Metric, c.Dim, c.M, c.Ef, c.NList, c.NBits, c.Train)
}

func vParseVecCfg(s string) vVecCfg {
	var c vVecCfg
	var metric string
	fmt.Sscanf(s, "kind=%s metric=%s dim=%d M=%d ef=%d nlist=%d nbits=%d train=%d", &c.Kind, &metric, &c.Dim, &c.M, &c.Ef, &c.NList, &c.NBits, &c.Train)
	c.Metric = DistanceKind(metric)
	return c
}

// vTrainSet returns a fixed training set: 0 = 20 spread points, 1 = 20 points with
// heavy duplication (forces empty clusters / identical centroids), 2 = 40 points.
func vTrainSet(dim, which int) [][]float32 {
	base2 := [][]float32{{1, 0}, {0, 1}, {1, 1}, {3, 4}, {-1, 0}, {2, 2}, {5, 5}, {-3, 1}, {4, -2}, {0, -1},
		{6, 1}, {1, 6}, {-2, -2}, {7, 7}, {-5, 3}, {2, -4}, {3, 3}, {-1, 5}, {8, 0}, {0, 8}}
	dup2 := [][]float32{{1, 0}, {1, 0}, {1, 0}, {1, 0}, {1, 0}, {1, 0}, {0, 1}, {0, 1}, {0, 1}, {0, 1},
		{1, 0}, {1, 0}, {0, 1}, {0, 1}, {3, 4}, {3, 4}, {3, 4}, {1, 0}, {0, 1}, {3, 4}}
	var src [][]float32
	switch which {
	case 0:
		src = base2
	case 1:
		src = dup2
	default:
		src = append(append([][]float32{}, base2...), base2...)
		for i := 20; i < 40; i++ {
			src[i] = []float32{src[i][0] + 0.5, src[i][1] - 0.5}
		}
	}
	out := make([][]float32, len(src))
	for i, b := range src {
		v := make([]float32, dim)
		for j := 0; j < dim; j++ {
			v[j] = b[j%2]
			if j >= 2 {
				v[j] = b[j%2] * float32(1+j/2) // break the block symmetry a little
			}
		}
		out[i] = v
	}
	return out
}

// New constructs (and trains) an index of the configured kind.
func (c vVecCfg) New() (VectorIndex, error) { return c.NewWith(nil) }

// NewWith is New with an explicit training set (nil = the configured fixed set).
func (c vVecCfg) NewWith(train [][]float32) (VectorIndex, error) {
	var idx VectorIndex
	var err error
	switch c.Kind {
	case "flat":
		idx, err = NewFlatIndex(c.Dim, c.Metric)
	case "hnsw":
		idx, err = NewHNSWIndex(c.Dim, c.Metric, c.M, c.Ef, c.Ef)
	case "ivf":
		idx, err = NewIVFIndex(c.Dim, c.NList, c.Metric)
	case "pq":
		idx, err = NewPQIndex(c.Dim, c.Metric, c.M, c.NBits)
	case "ivfpq":
		idx, err = NewIVFPQIndex(c.Dim, c.Metric, c.NList, c.M, c.NBits)
	default:
		return nil, fmt.Errorf("kind %q", c.Kind)
	}
	if err != nil {
		return nil, err
	}
	if c.Kind == "ivf" || c.Kind == "pq" || c.Kind == "ivfpq" {
		ts := train
		if ts == nil && c.Train == -4 {
			ts = vXFVecs(vLattice(c.Dim, 4*c.NList)) // many clusters: a lattice of 4*nlist points
		}
		if ts == nil {
			ts = vXFVecs(vTrainSet(c.Dim, c.Train))
		}
		nodes := make([]VectorNode, len(ts))
		for i, v := range ts {
			if vTrainNoCopy {
				nodes[i] = *NewVectorNodeWithID(uint32(1000+i), v) // the caller's own slice
			} else {
				nodes[i] = *NewVectorNodeWithID(uint32(1000+i), vCopyVec(v))
			}
		}
		if err := idx.Train(nodes); err != nil {
			return nil, err
		}
	}
	return idx, nil
}

// newUntrained constructs the index without training it.
func (c vVecCfg) newUntrained() (VectorIndex, error) {
	switch c.Kind {
	case "ivf":
		return NewIVFIndex(c.Dim, c.NList, c.Metric)
	case "pq":
		return NewPQIndex(c.Dim, c.Metric, c.M, c.NBits)
	case "ivfpq":
		return NewIVFPQIndex(c.Dim, c.Metric, c.NList, c.M, c.NBits)
	}
	return nil, fmt.Errorf("kind %q is not trainable", c.Kind)
}

// vProbeTrainSet: n training vectors far away from every data alphabet (offset 37), so
// that a Train call that takes effect visibly moves centroids and codebooks. bad = index
// of a vector of the wrong dimension (-1: none).
func vProbeTrainSet(dim, n, bad int) []VectorNode {
	out := make([]VectorNode, n)
	for i := range out {
		d := dim
		if i == bad {
			d = dim + 1
		}
		v := make([]float32, d)
		for j := range v {
			v[j] = 37 + float32((i*(j+2)+j)%9)
		}
		out[i] = *NewVectorNodeWithID(uint32(5000+i), v)
	}
	return out
}

// vTryTrain calls Train and reports a panic instead of propagating it (IVFIndex.Train does
// not validate dimensions: a wrong-dimension training vector panics inside k-means, which
// no listed property speaks about; such sets are simply not used as probes).
func vTryTrain(idx VectorIndex, set []VectorNode) (err error, panicked bool) {
	defer func() {
		if r := recover(); r != nil {
			panicked = true
		}
	}()
	return idx.Train(set), false
}

var vRejectedTrainCache = map[string][][]VectorNode{}

// rejectedTrainSets: training sets that a FRESH index of this configuration rejects
// (too few vectors for either precondition, or one vector of the wrong dimension first /
// last in an otherwise sufficient set); found empirically, cached per configuration.
func (c vVecCfg) rejectedTrainSets() [][]VectorNode {
	key := fmt.Sprintf("%s/%s/%d/%d/%d/%d", c.Kind, c.Metric, c.Dim, c.NList, c.M, c.NBits)
	if sets, ok := vRejectedTrainCache[key]; ok {
		return sets
	}
	ksub := 0
	if c.NBits > 0 {
		ksub = 1 << c.NBits
	}
	cand := []int{0, 1, 2, c.NList - 1, c.NList, 2 * c.NList, 10*c.NList - 1, 10 * c.NList, ksub - 1, ksub / 2, (10*c.NList + ksub) / 2}
	sort.Ints(cand)
	var sets [][]VectorNode
	seen := map[int]bool{}
	big := 10*c.NList + ksub + 2
	for _, n := range cand {
		if n < 0 || seen[n] || n > 1100 {
			continue
		}
		seen[n] = true
		idx, err := c.newUntrained()
		if err != nil {
			break
		}
		if err, p := vTryTrain(idx, vProbeTrainSet(c.Dim, n, -1)); err != nil && !p {
			sets = append(sets, vProbeTrainSet(c.Dim, n, -1))
		}
	}
	if big <= 1100 {
		for _, bad := range []int{0, big - 1} {
			if idx, err := c.newUntrained(); err == nil {
				if err, p := vTryTrain(idx, vProbeTrainSet(c.Dim, big, bad)); err != nil && !p {
					sets = append(sets, vProbeTrainSet(c.Dim, big, bad))
				}
			}
		}
	}
	vRejectedTrainCache[key] = sets
	return sets
}

// rejectedTrain: a Train call that is refused must leave a trained, populated index as it
// was. The refused calls are made BEFORE the state is observed, so the whole oracle
// (answers against the model, the kind's structural invariants in the hook) judges the
// state they leave behind. Returns the history line to show, "" if nothing was probed.
func (s *vKindSys) rejectedTrain(h []string) string {
	if s.polluted || (s.cfg.Kind != "ivf" && s.cfg.Kind != "pq" && s.cfg.Kind != "ivfpq") {
		return ""
	}
	sets := s.cfg.rejectedTrainSets()
	if len(sets) == 0 {
		return ""
	}
	sizes := []int{}
	for _, set := range sets {
		s.c.Evaluations++
		err, p := vTryTrain(s.idx, set)
		if p {
			s.c.Violation("rejected-train-changed-index", "panic", s.cfgS, h, fmt.Sprintf("Train with %d vectors is refused with an error by a fresh index but panics on this one", len(set)))
			s.polluted = true
			return ""
		}
		if err == nil {
			// accepted here although a fresh index refuses it: the index has been
			// retrained, which is outside the judged histories
			s.polluted = true
			s.c.Extra["rejected_train_probe_accepted"]++
			return ""
		}
		sizes = append(sizes, len(set))
	}
	if len(s.m.live) > 0 {
		s.c.Nontrivial(s.cfgS + "|rejtrain|" + s.m.key())
	}
	return fmt.Sprintf("Train(refused: sets of sizes %v)", sizes)
}

// vTrainNoCopy: hand the training slices themselves to Train (aliasing mode: a caller
// that trains on its data and then adds the very same slices).
var vTrainNoCopy bool

func (c vVecCfg) exhaustive() bool {
	return c.Kind == "flat" || c.Kind == "pq" || c.Kind == "ivf" || c.Kind == "ivfpq"
}

// vPreprocess64 is the reference preprocessing (unit normalisation for cosine).
func vPreprocess64(metric DistanceKind, v []float32) []float64 {
	out := make([]float64, len(v))
	n := 1.0
	if metric == Cosine {
		s := 0.0
		for _, x := range v {
			s += float64(x) * float64(x)
		}
		n = math.Sqrt(s)
	}
	for i, x := range v {
		out[i] = float64(x) / n
	}
	return out
}

// vKindScore returns the score the kind defines for (query, stored id): the true
// metric distance for flat/ivf/hnsw, and for pq/ivfpq the Euclidean distance between
// the preprocessed query and the vector's reconstruction, recomputed from the private
// codebooks / centroids / codes. ok=false if the id is not stored.
func vKindScore(idx VectorIndex, metric DistanceKind, q []float32, id uint32, raw []float32) (float64, bool) {
	switch x := idx.(type) {
	case *PQIndex:
		qp := vPreprocess64(metric, q)
		// the *last* stored entry with this id is the current one
		for i := len(x.vectorNodes) - 1; i >= 0; i-- {
			if x.vectorNodes[i].ID() == id {
				return vADC(qp, nil, x.codebooks, x.codes[i], x.dsub), true
			}
		}
		return 0, false
	case *IVFPQIndex:
		qp := vPreprocess64(metric, q)
		for li := range x.lists {
			for j := len(x.lists[li]) - 1; j >= 0; j-- {
				if x.lists[li][j].Node.ID() == id {
					return vADC(qp, x.centroids[li], x.codebooks, x.lists[li][j].Code, x.dsub), true
				}
			}
		}
		return 0, false
	}
	return vRefDist(metric, q, raw), true
}

func vADC(qp []float64, centroid []float32, codebooks [][]float32, code []uint8, dsub int) float64 {
	s := 0.0
	for m := range code {
		cw := codebooks[m][int(code[m])*dsub : (int(code[m])+1)*dsub]
		for j := 0; j < dsub; j++ {
			r := float64(cw[j])
			if centroid != nil {
				r += float64(centroid[m*dsub+j])
			}
			d := qp[m*dsub+j] - r
			s += d * d
		}
	}
	return math.Sqrt(s)
}

// vStoredVector returns the stored (preprocessed) vector of a live id, if the kind keeps it.
func vStoredVector(idx VectorIndex, id uint32) []float32 {
	switch x := idx.(type) {
	case *FlatIndex:
		for i := len(x.vectors) - 1; i >= 0; i-- {
			if x.vectors[i].ID() == id {
				return x.vectors[i].Vector()
			}
		}
	case *HNSWIndex:
		if n, ok := x.nodes[id]; ok {
			return n.Vector()
		}
	case *IVFIndex:
		for _, l := range x.lists {
			for i := len(l) - 1; i >= 0; i-- {
				if l[i].ID() == id {
					return l[i].Vector()
				}
			}
		}
	case *PQIndex:
		for i := len(x.vectorNodes) - 1; i >= 0; i-- {
			if x.vectorNodes[i].ID() == id {
				return x.vectorNodes[i].Vector()
			}
		}
	case *IVFPQIndex:
		for _, l := range x.lists {
			for i := len(l) - 1; i >= 0; i-- {
				if l[i].Node.ID() == id {
					return l[i].Node.Vector()
				}
			}
		}
	}
	return nil
}

// ---------------------------------------------------------------------------

type vKindSys struct {
	train      [][]float32                   // explicit training set (nil = cfg.Train)
	hook       func(s *vKindSys, h []string) // extra per-state checks (C13, C14)
	noMulti    bool
	derived    bool // sweeps / large instances: state-derived thresholds and long restriction lists
	noPrepared bool // lean mode (C13): no prepared-search reuse, no Remove-with-carried-vector variants (C02 has both)
	polluted   bool // a probe retrained the index: nothing is judged on this instance any more
	inRecheck  bool
	aliasTrain bool        // Add operations add the training slices themselves
	owned      [][]float32 // the caller-owned slices of the current instance
	c          *vCtx
	cfg        vVecCfg
	cfgS       string
	ids        []uint32
	vals       [][]float32
	qs         []vVecQuery
	idx        VectorIndex
	m          *vVecModel
	lvls       int         // number of non-zero hnsw levels used so far
	qa         [][]float32 // query vectors (offset applied)
}

// vIDBase shifts every document id used by a vKindSys (ids, restrictions, node ids) by a
// constant: the "bigids" shards run the same small spaces with ids around 2^16 (roaring
// container boundary), 2^31 (sign bit) and 2^32-1.
var vIDBase uint32

func newKindSys(c *vCtx, cfg vVecCfg, nids int) *vKindSys {
	s := &vKindSys{c: c, cfg: cfg, cfgS: cfg.String()}
	b := vIDBase
	if b != 0 {
		s.cfgS += fmt.Sprintf(" idbase=%d", b)
	}
	for i := 1; i <= nids; i++ {
		s.ids = append(s.ids, b+uint32(i))
	}
	s.vals = vVecAlphabet(cfg.Dim)
	s.vals = s.vals[:len(s.vals)-2]                   // drop the duplicate and the zero vector (covered by C01/C06)
	s.vals = append(s.vals, vVecAlphabet(cfg.Dim)[0]) // keep one duplicate
	off := float32(0)
	if cfg.Train == -3 {
		// data with a large common offset (spread 1, offset 1000): cancellation in
		// expanded-norm distance formulas
		off = 1000
		for i, v := range s.vals {
			w := vCopyVec(v)
			for j := range w {
				w[j] += off
			}
			s.vals[i] = w
		}
	}
	thr := []float32{0, 1.5}
	if cfg.Metric == Cosine {
		thr = []float32{0, 0.35}
	}
	if cfg.Metric == L2Squared {
		thr = []float32{0, 2.5}
	}
	probes := []int{0}
	switch cfg.Kind {
	case "ivf", "ivfpq":
		probes = []int{0, -1, 1, cfg.NList + 1}
	}
	efs := []int{0}
	if cfg.Kind == "hnsw" {
		efs = []int{0, 1, 2 * cfg.M}
	}
	qa := vQueryAlphabet(cfg.Dim)
	qa = qa[:len(qa)-1] // zero query is C01's business
	if off != 0 {
		for i, q := range qa {
			w := vCopyVec(q)
			for j := range w {
				w[j] += off
			}
			qa[i] = w
		}
	}
	if vXF.active() {
		s.cfgS += vXFTag()
		s.vals = vXFVecs(s.vals)
		qa = vXFVecs(qa)
		for i := range thr {
			thr[i] = vXFScalar(thr[i], cfg.Metric)
		}
	}
	s.qa = qa
	// (a negative threshold is no threshold - for every kind, as for the exact index)
	thr = append(thr, -thr[1])
	for _, q := range qa {
		for _, k := range []int{-1, 1, 2} {
			for _, t := range thr {
				// restrictions: absent ids, and an id named twice (a restriction is a set)
				for _, r := range [][]uint32{nil, {b + 1}, {b + 2, b + 9}, {b + 1, b + 1, b + 2}} {
					for _, p := range probes {
						for _, ef := range efs {
							if t < 0 && (r != nil || ef != efs[0]) {
								continue
							}
							s.qs = append(s.qs, vVecQuery{Q: q, K: k, Thr: t, IDs: r, NProb: p, Ef: ef})
						}
					}
				}
			}
		}
	}
	return s
}

func (s *vKindSys) Reset() {
	vResetGlobals()
	train := s.train
	if s.aliasTrain {
		// fresh caller-owned slices for this instance; they are given to Train as they
		// are and the Add operations below add the very same slices
		s.owned = make([][]float32, len(s.train))
		for i, v := range s.train {
			s.owned[i] = vCopyVec(v)
		}
		train = s.owned
		vTrainNoCopy = true
	}
	idx, err := s.cfg.NewWith(train)
	vTrainNoCopy = false
	if err != nil {
		panic(fmt.Sprintf("%s: %v", s.cfgS, err))
	}
	s.idx = idx
	s.polluted = false
	s.m = newVecModel()
	s.lvls = 0
	documentFilterPool.Reset()
	minHeapPool.Reset()
	maxHeapPool.Reset()
}

func (s *vKindSys) Enabled() []vOp {
	var ops []vOp
	for _, id := range s.ids {
		if _, live := s.m.live[id]; !live && s.m.ever[id] {
			// update: a removed id is added again, with one (other) value
			ops = append(ops, vOp{K: "Add", A: int(id), B: (int(id) + 1) % len(s.vals)})
		}
	}
	for _, id := range s.ids {
		if s.m.ever[id] {
			continue
		}
		for vi := range s.vals {
			ops = append(ops, vOp{K: "Add", A: int(id), B: vi})
			if s.cfg.Kind == "hnsw" && s.lvls < 1 {
				ops = append(ops, vOp{K: "Add", A: int(id), B: vi, C: 1})
			}
		}
		break // ids are added in ascending order (the restrictions name fixed ids; C01 covers any order)
	}
	for _, id := range s.ids {
		// B=1: the node handed to Remove carries some (other) vector; only its id counts
		ops = append(ops, vOp{K: "Remove", A: int(id)})
		if !s.noPrepared {
			ops = append(ops, vOp{K: "Remove", A: int(id), B: 1})
		}
	}
	ops = append(ops, vOp{K: "Flush"})
	if !s.noPrepared {
		// adds that must be refused, on every id whatever its status (see C01)
		for _, id := range s.ids {
			for b := 0; b < 3; b++ {
				if b == 0 && s.cfg.Metric != Cosine {
					continue
				}
				ops = append(ops, vOp{K: "BadAdd", A: int(id), B: b})
			}
		}
	}
	return ops
}

func (s *vKindSys) Apply(op vOp, hist []vOp, check bool) {
	if s.polluted {
		check = false
	}
	var before []string
	if check && op.K == "Flush" && s.cfg.exhaustive() {
		before = s.snapshot()
	}
	// prepared search objects: built and executed once BEFORE the operation, executed
	// again after it; a search object is a description of a query, so re-executing it
	// must answer from the index's current contents exactly as a freshly built one does
	var prepQ []vVecQuery
	var prep []VectorSearch
	if check && !s.noPrepared {
		for _, id := range s.ids {
			prepQ = append(prepQ, vVecQuery{Node: id, K: -1})
		}
		if len(s.qa) > 1 {
			prepQ = append(prepQ, vVecQuery{Q: s.qa[0], K: 2}, vVecQuery{Q: s.qa[1], K: -1, IDs: []uint32{vIDBase + 1, vIDBase + 2}})
		}
		for _, q := range prepQ {
			ps := vBuildVecSearch(s.idx, q)
			ps.Execute()
			prep = append(prep, ps)
		}
	}
	switch op.K {
	case "BadAdd":
		err := s.idx.Add(*NewVectorNodeWithID(uint32(op.A), vBadVector(s.cfg.Dim, op.B)))
		if check && err == nil {
			s.c.Violation("add-result", "invalid-vector-accepted", s.cfgS, vHistStrings(append(hist, op)), fmt.Sprintf("Add(%d, invalid vector kind %d) returned nil", op.A, op.B))
		}
	case "Add":
		raw := s.vals[op.B]
		arg := vCopyVec(raw)
		if s.aliasTrain && op.B < len(s.owned) {
			arg = s.owned[op.B] // the slice that was given to Train
			raw = vCopyVec(s.train[op.B])
		}
		var err error
		vWithLevel(op.C, func() { err = s.idx.Add(*NewVectorNodeWithID(uint32(op.A), arg)) })
		if err != nil {
			if check {
				s.c.Violation("add-failed", "", s.cfgS, vHistStrings(append(hist, op)), err.Error())
			}
		} else {
			s.m.live[uint32(op.A)] = vCopyVec(raw)
			s.m.ever[uint32(op.A)] = true
			delete(s.m.removed, uint32(op.A))
			if op.C > 0 {
				s.lvls++
			}
		}
	case "Remove":
		id := uint32(op.A)
		var carried []float32
		if op.B == 1 {
			carried = vCopyVec(s.vals[(int(id)+1)%len(s.vals)])
		}
		if err := s.idx.Remove(*NewVectorNodeWithID(id, carried)); err == nil {
			delete(s.m.live, id)
			s.m.removed[id] = true
		}
	case "Flush":
		if err := s.idx.Flush(); err != nil && check {
			s.c.Violation("flush-error", "", s.cfgS, vHistStrings(append(hist, op)), err.Error())
		}
	}
	if !check {
		return
	}
	h := vHistStrings(append(hist, op))
	for i, ps := range prep {
		s.c.Evaluations++
		r1, e1 := ps.Execute()
		r2, e2 := vRunVecQuery(s.idx, prepQ[i])
		if (e1 != nil) != (e2 != nil) {
			s.c.Violation("prepared-search-stale", "error-differs", s.cfgS, h, fmt.Sprintf("%s: a search object built before the last operation returned err=%v, a fresh one err=%v", prepQ[i].String(), e1, e2))
		} else if e1 == nil {
			if msg := vSameResults(r1, r2); msg != "" {
				s.c.Violation("prepared-search-stale", "result-differs", s.cfgS, h, fmt.Sprintf("%s: a search object built before the last operation returned [%s], a fresh one [%s]: %s", prepQ[i].String(), vResStr(r1), vResStr(r2), msg))
			}
		}
	}
	if before != nil {
		after := s.snapshot()
		for i := range before {
			if before[i] != after[i] {
				s.c.Violation("flush-changed-result", "", s.cfgS, h, fmt.Sprintf("%s: before [%s] after [%s]", s.qs[i].String(), before[i], after[i]))
				break
			}
		}
	}
	if line := s.rejectedTrain(h); line != "" {
		h = append(h, line)
	}
	if s.polluted {
		return
	}
	s.observe(h)
}

// snapshot returns, per query, the sorted score list (tie-insensitive observation).
func (s *vKindSys) snapshot() []string {
	out := make([]string, len(s.qs))
	for i, q := range s.qs {
		res, err := vRunVecQuery(s.idx, q)
		if err != nil {
			out[i] = "err"
			continue
		}
		sc := make([]float64, len(res))
		for j, r := range res {
			sc[j] = float64(r.Score)
		}
		sort.Float64s(sc)
		out[i] = fmt.Sprint(sc)
	}
	return out
}

func (s *vKindSys) fullProbe(q vVecQuery) bool {
	switch s.cfg.Kind {
	case "ivf", "ivfpq":
		if q.NProb == 0 {
			return int(math.Sqrt(float64(s.cfg.NList))) >= s.cfg.NList
		}
		return q.NProb < 0 || q.NProb >= s.cfg.NList
	}
	return true
}

func (s *vKindSys) scoreOf(q []float32) func(id uint32, v []float32) float64 {
	return func(id uint32, v []float32) float64 {
		d, _ := vKindScore(s.idx, s.cfg.Metric, q, id, v)
		return d
	}
}

func (s *vKindSys) observe(h []string) {
	defer s.recheck(h)
	mkey := ""
	for qi, q := range s.qs {
		s.c.Evaluations++
		res, err := vRunVecQuery(s.idx, q)
		if err != nil {
			s.c.Violation("search-error", "", s.cfgS, h, q.String()+": "+err.Error())
			continue
		}
		cands, boundary := vEligible(s.cfg.Metric, s.m.live, q, s.cfg.Kind == "flat" || s.cfg.Kind == "ivf" || s.cfg.Kind == "hnsw", s.scoreOf(q.Q))
		if boundary {
			s.c.Extra["queries_skipped_boundary"]++
			continue
		}
		msg := ""
		exact := s.cfg.Kind != "hnsw" && s.fullProbe(q)
		if exact {
			msg = vAcceptExact(res, cands, q.K)
		} else {
			msg = vAcceptSound(res, cands, q.K, true)
		}
		if msg == "" && q.Thr > 0 {
			for _, r := range res {
				if r.Score > q.Thr {
					msg = fmt.Sprintf("id %d reported at %v above threshold %v", r.Node.ID(), r.Score, q.Thr)
				}
			}
		}
		if msg != "" {
			s.c.Violation("wrong-answer", vCauseVec(s.m, res), s.cfgS, h, fmt.Sprintf("%s: %s; got [%s]", q.String(), msg, vResStr(res)))
		}
		if len(cands) > 0 && (len(cands) < len(s.m.live) || len(s.m.removed) > 0 || (q.K > 0 && q.K < len(cands))) {
			if mkey == "" {
				mkey = s.m.key()
			}
			s.c.Nontrivial(fmt.Sprintf("%s|%s|%d", s.cfgS, mkey, qi))
		}
		s.c.Outcome(fmt.Sprint(vResIDs(res)))
	}
	if !s.noMulti {
		s.observeNodes(h)
		s.observeNodePairs(h)
		s.observeMulti(h)
	}
	if s.hook != nil {
		s.hook(s, h)
	}
	if s.derived && !s.inRecheck {
		s.observeDerived(h)
	}
}

// observeDerived (sweeps and large instances): two input dimensions whose interesting
// values depend on the state, enumerated from the state itself.
//   - thresholds: for a query next to a stored vector (fractional offsets, so that squared
//     and plain distances below 1 occur) and for an alphabet query, one threshold inside
//     every one of the first gaps between consecutive candidate scores (and below the
//     first, in the middle, above the last): every way a threshold can cut this ranking;
//   - id restrictions: long lists (8 .. 1000 entries) with gaps AND duplicates, built so
//     that max-min+1 == len(list), forwards and backwards.
func (s *vKindSys) observeDerived(h []string) {
	if len(s.m.live) < 2 {
		return
	}
	ids := make([]uint32, 0, len(s.m.live))
	for id := range s.m.live {
		ids = append(ids, id)
	}
	sort.Slice(ids, func(i, j int) bool { return ids[i] < ids[j] })
	exactKind := s.cfg.Kind != "hnsw"
	full := 0
	if s.cfg.Kind == "ivf" || s.cfg.Kind == "ivfpq" {
		full = -1
	}
	judge := func(vq vVecQuery, cands []vCand, what string) {
		s.c.Evaluations++
		res, err := vRunVecQuery(s.idx, vq)
		if err != nil {
			s.c.Violation("search-error", what, s.cfgS, h, vq.String()+": "+err.Error())
			return
		}
		msg := ""
		if exactKind {
			msg = vAcceptExact(res, cands, vq.K)
		} else {
			msg = vAcceptSound(res, cands, vq.K, true)
		}
		if msg != "" {
			s.c.Violation("wrong-answer", what, s.cfgS, h, fmt.Sprintf("%s: %s; got [%s]", vq.String(), msg, vResStr(res)))
		}
		if len(cands) > 0 && len(cands) < len(s.m.live) {
			s.c.Nontrivial(fmt.Sprintf("%s|%s|%s|%v|%d|%d", s.cfgS, what, s.m.key(), vq.Thr, len(vq.IDs), vq.K))
		}
	}
	// --- thresholds
	near := vCopyVec(s.m.live[ids[len(ids)/2]])
	for j := range near {
		if j < 4 {
			near[j] += float32(math.Ldexp(0.3, vXF.Exp))
		}
	}
	if len(near) < 4 {
		near[0] += float32(math.Ldexp(0.3, vXF.Exp))
	}
	for _, q := range [][]float32{near, s.qa[1]} {
		if s.cfg.Metric == Cosine && vIsZero(q) {
			continue
		}
		all, _ := vEligible(s.cfg.Metric, s.m.live, vVecQuery{Q: q, K: -1}, false, s.scoreOf(q))
		var thrs []float64
		gaps := []int{0, 1, 2, 3, len(all) / 2, len(all) - 2}
		if len(all) > 0 && all[0].dist > 1e-3 {
			thrs = append(thrs, all[0].dist/2)
		}
		for _, g := range gaps {
			if g < 0 || g+1 >= len(all) {
				continue
			}
			lo, hi := all[g].dist, all[g+1].dist
			if hi-lo > 1e-3*math.Max(1, hi) {
				thrs = append(thrs, (lo+hi)/2)
			}
		}
		if len(all) > 0 {
			thrs = append(thrs, all[len(all)-1].dist*1.5+1)
		}
		for _, t := range thrs {
			var cut []vCand
			for _, cnd := range all {
				if cnd.dist <= t {
					cut = append(cut, cnd)
				}
			}
			for _, k := range []int{-1, 2} {
				judge(vVecQuery{Q: q, K: k, Thr: float32(t), NProb: full}, cut, "derived-threshold")
			}
		}
	}
	// --- long restriction lists with gaps and duplicates
	q := s.qa[1]
	if s.cfg.Metric == Cosine && vIsZero(q) {
		q = s.qa[0]
	}
	all, _ := vEligible(s.cfg.Metric, s.m.live, vVecQuery{Q: q, K: -1}, false, s.scoreOf(q))
	maxID := int(ids[len(ids)-1] - vIDBase)
	for _, L := range []int{8, 16, 31, 32, 33, 40, 64, 100, 256, 1000} {
		if L > maxID {
			break
		}
		var list []uint32
		for i := 1; i <= L; i++ {
			if i%4 != 3 {
				list = append(list, vIDBase+uint32(i))
			}
		}
		for i := 0; len(list) < L; i++ {
			list = append(list, list[i]) // duplicates: as many as there are gaps
		}
		in := map[uint32]bool{}
		for _, id := range list {
			in[id] = true
		}
		var cut []vCand
		for _, cnd := range all {
			if in[cnd.id] {
				cut = append(cut, cnd)
			}
		}
		rev := make([]uint32, len(list))
		for i, id := range list {
			rev[len(list)-1-i] = id
		}
		for _, l := range [][]uint32{list, rev} {
			for _, k := range []int{-1, 3} {
				judge(vVecQuery{Q: q, K: k, IDs: l, NProb: full}, cut, "long-restriction")
			}
		}
	}
}

// recheck: searching must not change later answers (see vFlatSys.recheck).
func (s *vKindSys) recheck(h []string) {
	if s.inRecheck {
		return
	}
	s.inRecheck = true
	defer func() { s.inRecheck = false }()
	all, nm, hk := s.qs, s.noMulti, s.hook
	if len(all) > 48 {
		s.qs = all[:48]
	}
	s.noMulti, s.hook = true, nil
	s.observe(h)
	s.qs, s.noMulti, s.hook = all, nm, hk
}

func vCauseVec(m *vVecModel, res []VectorResult) string {
	for _, r := range res {
		if m.removed[r.Node.ID()] {
			return "returned-removed"
		}
		if !m.ever[r.Node.ID()] {
			return "returned-never-added"
		}
	}
	return ""
}

// node search == query search with the stored vector; unknown / removed node => error
func (s *vKindSys) observeNodes(h []string) {
	for _, id := range append(append([]uint32{}, s.ids...), vIDBase+9) {
		for _, k := range []int{-1, 2} {
			s.c.Evaluations++
			resN, errN := vRunVecQuery(s.idx, vVecQuery{Node: id, K: k})
			_, live := s.m.live[id]
			if !live {
				if errN == nil {
					s.c.Violation("node-search-accepted-dead-id", fmt.Sprintf("removed=%v", s.m.removed[id]), s.cfgS, h, fmt.Sprintf("WithNode(%d) k=%d returned [%s]", id, k, vResStr(resN)))
				}
				continue
			}
			if errN != nil {
				s.c.Violation("node-search-error", "", s.cfgS, h, fmt.Sprintf("WithNode(%d): %v", id, errN))
				continue
			}
			sv := vStoredVector(s.idx, id)
			if sv == nil {
				continue
			}
			resQ, errQ := vRunVecQuery(s.idx, vVecQuery{Q: sv, K: k})
			if errQ != nil {
				s.c.Violation("node-search-mismatch", "", s.cfgS, h, fmt.Sprintf("WithQuery(stored %d): %v", id, errQ))
				continue
			}
			if msg := vSameResults(resN, resQ); msg != "" {
				s.c.Violation("node-search-mismatch", "", s.cfgS, h, fmt.Sprintf("WithNode(%d) k=%d [%s] vs WithQuery(stored) [%s]: %s", id, k, vResStr(resN), vResStr(resQ), msg))
			}
			s.c.Nontrivial(fmt.Sprintf("%s|%s|node%d/%d", s.cfgS, s.m.key(), id, k))
		}
	}
}

// several node ids at once: == several stored vectors as queries; any dead id => error
func (s *vKindSys) observeNodePairs(h []string) {
	ids := append(append([]uint32{}, s.ids...), vIDBase+9)
	for _, a := range ids {
		for _, b := range ids {
			if a == b {
				continue
			}
			s.c.Evaluations++
			resN, errN := s.idx.NewSearch().WithNode(a, b).WithK(-1).WithNProbes(-1).Execute()
			_, la := s.m.live[a]
			_, lb := s.m.live[b]
			if !la || !lb {
				if errN == nil {
					s.c.Violation("node-search-accepted-dead-id", "several-nodes", s.cfgS, h, fmt.Sprintf("WithNode(%d,%d) returned [%s] although one of the ids is not live", a, b, vResStr(resN)))
				}
				continue
			}
			if errN != nil {
				s.c.Violation("node-search-error", "several-nodes", s.cfgS, h, fmt.Sprintf("WithNode(%d,%d): %v", a, b, errN))
				continue
			}
			va, vb := vStoredVector(s.idx, a), vStoredVector(s.idx, b)
			if va == nil || vb == nil {
				continue
			}
			resQ, errQ := s.idx.NewSearch().WithQuery(vCopyVec(va), vCopyVec(vb)).WithK(-1).WithNProbes(-1).Execute()
			if errQ != nil {
				continue
			}
			if msg := vSameResults(resN, resQ); msg != "" {
				s.c.Violation("node-search-mismatch", "several-nodes", s.cfgS, h, fmt.Sprintf("WithNode(%d,%d) [%s] vs WithQuery(stored vectors) [%s]: %s", a, b, vResStr(resN), vResStr(resQ), msg))
			}
			s.c.Nontrivial(fmt.Sprintf("%s|%s|nodes%d,%d", s.cfgS, s.m.key(), a, b))
		}
	}
}

func vSameResults(a, b []VectorResult) string {
	if len(a) != len(b) {
		return fmt.Sprintf("lengths %d vs %d", len(a), len(b))
	}
	if len(a) == 0 {
		return ""
	}
	for i := range a {
		if !vApprox(float64(a[i].Score), float64(b[i].Score)) {
			return fmt.Sprintf("rank %d scores %v vs %v", i, a[i].Score, b[i].Score)
		}
	}
	last := float64(a[len(a)-1].Score)
	inB := map[uint32]bool{}
	for _, r := range b {
		inB[r.Node.ID()] = true
	}
	for _, r := range a {
		if !inB[r.Node.ID()] && !vApprox(float64(r.Score), last) {
			return fmt.Sprintf("id %d only in one of the results and not tied at the cut", r.Node.ID())
		}
	}
	return ""
}

// multi-query: result == aggregation of the per-query lists obtained from the same
// instance one query at a time, then best-k.
func (s *vKindSys) observeMulti(h []string) {
	qa := vQueryAlphabet(s.cfg.Dim)
	// (a near query before a far one, a far one before a near one, a query twice)
	combos := [][]int{{0, 1}, {0, 0}, {1, 2}, {2, 0}}
	// probing: everything, and - for the kinds with inverted lists - one list per query
	// (every query of a batch probes ITS OWN nearest lists)
	probes := []int{-1}
	if (s.cfg.Kind == "ivf" || s.cfg.Kind == "ivfpq") && s.cfg.NList >= 2 {
		probes = append(probes, 1)
	}
	var live []uint32
	for id := range s.m.live {
		live = append(live, id)
	}
	sort.Slice(live, func(i, j int) bool { return live[i] < live[j] })
	for _, agg := range []ScoreAggregationKind{SumAggregation, MaxAggregation, MeanAggregation} {
		for ci, combo := range combos {
			for _, k := range []int{-1, 2} {
				for pi, withNode := range []bool{false, true, false} {
					np := -1
					if pi == 2 {
						if len(probes) < 2 || agg != SumAggregation {
							continue
						}
						np = probes[1]
					}
					if withNode && len(live) == 0 {
						continue
					}
					s.c.Evaluations++
					var lists [][]VectorResult
					srch := s.idx.NewSearch().WithK(k).WithScoreAggregation(agg)
					var qs [][]float32
					fail := false
					for _, qi := range combo {
						qs = append(qs, vCopyVec(qa[qi]))
						r, err := vRunVecQuery(s.idx, vVecQuery{Q: qa[qi], K: k, NProb: np})
						if err != nil {
							fail = true
						}
						lists = append(lists, r)
					}
					srch = srch.WithQuery(qs...).WithNProbes(np)
					if withNode {
						srch = srch.WithNode(live[0])
						r, err := vRunVecQuery(s.idx, vVecQuery{Node: live[0], K: k, NProb: -1})
						if err != nil {
							fail = true
						}
						lists = append(lists, r)
					}
					if fail {
						continue
					}
					got, err := srch.Execute()
					if err != nil {
						s.c.Violation("multi-query-error", "", s.cfgS, h, err.Error())
						continue
					}
					// expected aggregation
					per := map[uint32][]float64{}
					for _, l := range lists {
						for _, r := range l {
							per[r.Node.ID()] = append(per[r.Node.ID()], float64(r.Score))
						}
					}
					var cands []vCand
					for id, sc := range per {
						v := 0.0
						switch agg {
						case SumAggregation:
							for _, x := range sc {
								v += x
							}
						case MaxAggregation:
							v = sc[0]
							for _, x := range sc {
								if x > v {
									v = x
								}
							}
						case MeanAggregation:
							for _, x := range sc {
								v += x
							}
							v /= float64(len(sc))
						}
						cands = append(cands, vCand{id, v})
					}
					sort.Slice(cands, func(i, j int) bool {
						if cands[i].dist != cands[j].dist {
							return cands[i].dist < cands[j].dist
						}
						return cands[i].id < cands[j].id
					})
					if msg := vAcceptExact(got, cands, k); msg != "" {
						s.c.Violation("multi-query-aggregation", string(agg), s.cfgS, h, fmt.Sprintf("agg=%s combo=%v node=%v k=%d nprobes=%d: %s; got [%s]", agg, combo, withNode, k, np, msg, vResStr(got)))
					}
					if len(per) > 0 {
						s.c.Nontrivial(fmt.Sprintf("%s|%s|multi%s/%d/%d/%v/%d", s.cfgS, s.m.key(), agg, ci, k, withNode, np))
					}
				}
			}
		}
	}
}

func (s *vKindSys) Key() string { return s.keyCanon() + "#deep" + vDeepHash(s.idx) }

func (s *vKindSys) keyCanon() string {
	return vCanonVec(s.idx) + "#" + s.m.key()
}

// vKindSweep: for EVERY n in 1..maxN a structured instance with n vectors (every third
// removed, then flushed) is built on a fresh index and judged with the full query
// alphabet before and after the flush: capacity / growth effects (counts crossing 8, 16,
// 32, 64 ...) that the small-scope BFS cannot reach. Enumerated over n, not sampled.
func vKindSweep(c *vCtx, cfg vVecCfg, maxN int, hook func(s *vKindSys, h []string)) {
	ib := int(vIDBase)
	for n := 1; n <= maxN; n++ {
		for pattern := 0; pattern < 5; pattern++ {
			// tails after the n adds:
			//  0 = every third removed, flush, one more add
			//  1 = all but every fifth removed (mass delete), flush, one more add
			//  2 = all but the last one removed, flush, one more add
			//  3 = ONE vector removed and re-added with new content (an update in a large,
			//      almost tombstone-free index), then flush
			//  4 = everything removed, one new vector added (no flush in between), then
			//      flush, then the first id re-added
			if (pattern == 1 || pattern == 2) && (n < 4 || n%3 != 1) {
				continue
			}
			if pattern >= 3 && n > 24 && n%3 != 1 {
				continue
			}
			if c.Expired() {
				c.Bound = fmt.Sprintf("sweep sizes 1..%d", n-1)
				return
			}
			s := newKindSys(c, cfg, 3)
			s.cfgS += fmt.Sprintf(" sweep n=%d", n)
			if pattern > 0 {
				s.cfgS += fmt.Sprintf(" pattern=%d", pattern)
			}
			s.vals = vXFVecs(vStructuredVecs(cfg.Dim, n+2))
			s.hook = hook
			s.derived = true
			s.noMulti = n > 12
			s.Reset()
			var hist []vOp
			ap := func(op vOp, check bool) {
				s.Apply(op, hist, check)
				hist = append(hist, op)
				c.Transitions++
			}
			for i := 0; i < n; i++ {
				lvl := 0
				if cfg.Kind == "hnsw" && i%5 == 4 {
					lvl = 1
				}
				ap(vOp{K: "Add", A: ib + i + 1, B: i, C: lvl}, i == n-1)
			}
			switch pattern {
			case 0:
				for i := 2; i < n; i += 3 {
					ap(vOp{K: "Remove", A: ib + i + 1, B: (i / 3) % 2}, i+3 >= n)
				}
			case 1:
				for i := 0; i < n; i++ {
					if i%5 != 0 {
						ap(vOp{K: "Remove", A: ib + i + 1, B: i % 2}, i == n-1)
					}
				}
			case 2:
				for i := 0; i < n-1; i++ {
					ap(vOp{K: "Remove", A: ib + i + 1}, i == n-2)
				}
			case 3:
				mid := n/2 + 1
				ap(vOp{K: "Remove", A: ib + mid}, false)
				ap(vOp{K: "Add", A: ib + mid, B: n + 1}, true)
			case 4:
				for i := 0; i < n; i++ {
					ap(vOp{K: "Remove", A: ib + i + 1}, false)
				}
				ap(vOp{K: "Add", A: ib + n + 1, B: n}, true)
			}
			ap(vOp{K: "Flush"}, true)
			switch {
			case pattern == 4:
				ap(vOp{K: "Add", A: ib + 1, B: n + 1}, true)
			case pattern == 3:
			case n < maxN:
				// continue after the flush: one more add
				ap(vOp{K: "Add", A: ib + n + 1, B: n}, true)
			}
			c.Traces++
			c.NewState(s.cfgS)
		}
	}
	c.Sample(fmt.Sprintf("%s: n structured vectors, then one of five tails (every third / all but every fifth / all but one removed, flush, one more add; one vector updated, flush; all removed, one added, flush, first id re-added); for every n in 1..%d", cfg.String(), maxN))
	c.Bound = fmt.Sprintf("sweep sizes 1..%d", maxN)
}

// vKindLarge: a few LARGE instances (hundreds to thousands of vectors) judged with a k
// alphabet that scales with n (1, 2, 3, 5, 10, 25, n/8, n/4, n/3, n/2, n-1, n, all):
// selection strategies that switch on candidate count or on k relative to it (bounded
// heaps, partial sorts, parallel splits) are only exercised here. n structured vectors,
// every 7th removed, flush; judged after each phase.
func vKindLarge(c *vCtx, cfg vVecCfg, sizes []int, hook func(s *vKindSys, h []string)) {
	for _, n := range sizes {
		if c.Expired() {
			c.Bound += fmt.Sprintf(" (deadline before large n=%d)", n)
			return
		}
		s := newKindSys(c, cfg, 3)
		s.cfgS += fmt.Sprintf(" large n=%d", n)
		s.vals = vXFVecs(vStructuredVecs(cfg.Dim, n+1))
		s.hook = hook
		s.derived = true
		s.noMulti = true
		s.noPrepared = true
		thr := float32(0)
		switch cfg.Metric {
		case Euclidean:
			thr = 12.5
		case L2Squared:
			thr = 150.5
		case Cosine:
			thr = 0.35
		}
		thr = vXFScalar(thr, cfg.Metric)
		probes := []int{0}
		if cfg.Kind == "ivf" || cfg.Kind == "ivfpq" {
			probes = []int{0, -1, 1, 2}
		}
		s.qs = nil
		qv := [][]float32{s.qa[0], s.qa[len(s.qa)/2], s.vals[n/3]}
		for _, q := range qv {
			for _, k := range []int{1, 2, 3, 5, 10, 25, n / 8, n / 4, n / 3, n / 2, n - 1, n, -1, math.MaxInt64} {
				if k == 0 {
					continue
				}
				for _, t := range []float32{0, thr} {
					for _, p := range probes {
						s.qs = append(s.qs, vVecQuery{Q: q, K: k, Thr: t, NProb: p})
					}
				}
			}
		}
		s.Reset()
		var hist []vOp
		ap := func(op vOp, check bool) {
			s.Apply(op, hist, check)
			hist = append(hist, op)
			c.Transitions++
		}
		for i := 0; i < n; i++ {
			lvl := 0
			if cfg.Kind == "hnsw" && i%5 == 4 {
				lvl = 1
			}
			ap(vOp{K: "Add", A: i + 1, B: i, C: lvl}, i == n-1)
		}
		for i := 3; i < n; i += 7 {
			ap(vOp{K: "Remove", A: i + 1}, i+7 >= n)
		}
		ap(vOp{K: "Flush"}, true)
		if n >= 1030 {
			// mass purge: three quarters of what is left removed at once (one flush purges
			// several hundred / more than 1024 vectors), then purged ids are re-added
			last := 0
			for i := 0; i < n; i++ {
				if _, live := s.m.live[vIDBase+uint32(i+1)]; live && i%4 != 0 {
					last = i
				}
			}
			for i := 0; i < n; i++ {
				if _, live := s.m.live[vIDBase+uint32(i+1)]; live && i%4 != 0 {
					ap(vOp{K: "Remove", A: int(vIDBase) + i + 1}, i == last)
				}
			}
			ap(vOp{K: "Flush"}, true)
			ap(vOp{K: "Add", A: int(vIDBase) + 2, B: n}, true)
			ap(vOp{K: "Add", A: int(vIDBase) + last + 1, B: 1}, true)
		}
		c.Traces++
		c.NewState(s.cfgS)
	}
	c.Sample(fmt.Sprintf("%s: large instances n in %v, k up to n, every 7th removed, flush", cfg.String(), sizes))
}

// id bases of the "bigids" shards: ids 0, 1, 2 (base 2^32-1 wraps around: id 0 is an id like
// any other), ids that straddle 2^16, 2^31 and end at 2^32-1
var vIDBases = []uint32{math.MaxUint32, 65533, 1<<31 - 3, math.MaxUint32 - 14}

func vIDBaseTag() string {
	if vIDBase == 0 {
		return ""
	}
	return fmt.Sprintf(" idbase=%d", vIDBase)
}

// vKindEndurance: ONE long-lived index. n searches in a row (three alternating queries;
// every answer must equal the first, which the oracle has judged), then n add / remove
// cycles with a flush every 48 cycles (the index never holds more than ~56 vectors, so
// HNSW with M >= 32 stays in its exactness regime), judged with the whole oracle every
// 997 cycles and at the end. n = 70 000 passes every 16-bit counter, generation stamp or
// pool high-water mark an implementation might keep per index.
func vKindEndurance(c *vCtx, cfg vVecCfg, n int, hook func(s *vKindSys, h []string)) {
	s := newKindSys(c, cfg, 3)
	s.cfgS += fmt.Sprintf(" endurance n=%d", n)
	s.vals = vStructuredVecs(cfg.Dim, 64)
	s.hook = hook
	s.noMulti = true
	s.noPrepared = true
	s.Reset()
	var hist []vOp
	ap := func(op vOp, check bool) {
		s.Apply(op, hist, check)
		if len(hist) < 64 {
			hist = append(hist, op)
		}
		c.Transitions++
	}
	for i := 0; i < 6; i++ {
		ap(vOp{K: "Add", A: i + 1, B: i}, false)
	}
	ap(vOp{K: "Remove", A: 1}, true)
	qs := []vVecQuery{{Q: s.qa[0], K: -1, NProb: -1}, {Q: s.qa[1], K: 2, NProb: -1}, {Q: s.vals[3], K: 1, NProb: -1}}
	var first [3]string
	for i := 0; i < n; i++ {
		if i%4096 == 0 && c.Expired() {
			c.Bound = fmt.Sprintf("endurance: deadline after %d searches", i)
			return
		}
		res, err := vRunVecQuery(s.idx, qs[i%3])
		// compared tie-insensitively: the score list (order among equal scores and the
		// choice among ties at the k-th place are unspecified)
		sc := make([]float64, len(res))
		for j, r := range res {
			sc[j] = float64(r.Score)
		}
		sort.Float64s(sc)
		got := fmt.Sprintf("%v|%v", err, sc)
		c.Evaluations++
		if i < 3 {
			first[i] = got
			continue
		}
		if got != first[i%3] {
			s.c.Violation("answer-changed-after-many-searches", "", s.cfgS, vHistStrings(hist), fmt.Sprintf("search number %d of %s returned [%s], the first one [%s]", i+1, qs[i%3].String(), got, first[i%3]))
			break
		}
	}
	s.observe(append(vHistStrings(hist), fmt.Sprintf("(%d searches)", n)))
	live := []int{2, 3, 4, 5, 6}
	for i := 0; i < n; i++ {
		if i%4096 == 0 && c.Expired() {
			c.Bound = fmt.Sprintf("endurance: deadline after %d add/remove cycles", i)
			return
		}
		id := 100 + i
		ap(vOp{K: "Add", A: id, B: i % 64}, false)
		live = append(live, id)
		ap(vOp{K: "Remove", A: live[0]}, i%997 == 0)
		live = live[1:]
		if i%48 == 47 {
			ap(vOp{K: "Flush"}, i%997 < 48)
		}
	}
	ap(vOp{K: "Flush"}, true)
	c.Traces++
	c.NewState(s.cfgS)
	c.Nontrivial(s.cfgS)
	c.Sample(fmt.Sprintf("%s: %d searches then %d add/remove cycles on one index", cfg.String(), n, n))
}

func vLargeSizes(tier string) []int {
	if tier == "thorough" {
		return []int{260, 300, 520, 700, 1030, 2050, 4100}
	}
	return []int{260, 300, 700, 1030}
}

func vSweepCfgs() []vVecCfg {
	return []vVecCfg{
		{Kind: "flat", Metric: Euclidean, Dim: 2},
		{Kind: "flat", Metric: Cosine, Dim: 3},
		{Kind: "hnsw", Metric: Euclidean, Dim: 2, M: 4, Ef: 16},
		{Kind: "ivf", Metric: Euclidean, Dim: 2, NList: 3, Train: 2},
		{Kind: "ivf", Metric: L2Squared, Dim: 3, NList: 5, Train: 2},
		{Kind: "pq", Metric: Euclidean, Dim: 4, M: 2, NBits: 3, Train: 2},
		{Kind: "ivfpq", Metric: Euclidean, Dim: 4, NList: 3, M: 2, NBits: 3, Train: 2},
		// larger dimensions (odd, and around SIMD / unrolling widths)
		{Kind: "flat", Metric: L2Squared, Dim: 33},
		{Kind: "hnsw", Metric: Cosine, Dim: 17, M: 3, Ef: 12},
		{Kind: "ivf", Metric: Cosine, Dim: 16, NList: 3, Train: 2},
		{Kind: "pq", Metric: Euclidean, Dim: 32, M: 8, NBits: 3, Train: 2},
		{Kind: "ivfpq", Metric: L2Squared, Dim: 24, NList: 2, M: 3, NBits: 2, Train: 2},
	}
}

func vC02Configs(tier string) []vVecCfg {
	var out []vVecCfg
	dims := []int{2}
	if tier == "thorough" {
		dims = []int{2, 4}
	}
	for _, metric := range []DistanceKind{Euclidean, L2Squared, Cosine} {
		for _, d := range dims {
			out = append(out, vVecCfg{Kind: "flat", Metric: metric, Dim: d})
			for _, m := range []int{2, 3} {
				efl := []int{4}
				if tier == "thorough" {
					efl = []int{4, 8}
				}
				for _, ef := range efl {
					out = append(out, vVecCfg{Kind: "hnsw", Metric: metric, Dim: d, M: m, Ef: ef})
				}
			}
			trains := []int{0, 1}
			for _, tr := range trains {
				for _, nl := range []int{1, 2, 3} {
					if tier != "thorough" && nl == 3 && tr == 0 {
						continue
					}
					out = append(out, vVecCfg{Kind: "ivf", Metric: metric, Dim: d, NList: nl, Train: tr})
				}
				for _, m := range []int{1, 2} {
					for _, nb := range []int{1, 2} {
						if tier != "thorough" && m == 1 && nb == 2 {
							continue
						}
						out = append(out, vVecCfg{Kind: "pq", Metric: metric, Dim: d, M: m, NBits: nb, Train: tr})
						for _, nl := range []int{1, 2} {
							if tier != "thorough" && (tr == 1 && nl == 1) {
								continue
							}
							out = append(out, vVecCfg{Kind: "ivfpq", Metric: metric, Dim: d, NList: nl, M: m, NBits: nb, Train: tr})
						}
					}
				}
			}
		}
	}
	return out
}

func init() {
	vRegister(&vCheck{
		ID: "C02", Level: "model_checking", Engine: "histmc",
		Rule:        "BFS over Add/Remove/Flush histories for each (kind, metric, construction parameters, training set); in every reached state every query of the alphabet (query x k x threshold x restriction x nprobes/efSearch), every node-id search and every multi-query/aggregation combination is checked: hits live+eligible+distinct, score = the kind's defined score (true distance, or ADC recomputed from private codebooks), ascending, <= k; exact top-k for exhaustive kinds at full probe; node search == query with stored vector; multi-query == aggregation of per-query lists; Flush leaves every observation unchanged for exhaustive kinds. Non-trivial = distinct (config, model state, query) where a candidate was actually excluded and the expected answer is non-empty, plus node / multi-query cases on non-empty states.",
		Assumptions: []string{"approximate kinds (hnsw, partial-probe ivf/ivfpq) are judged for soundness only here; completeness is C12/C13/C14", "ties unspecified; float tolerance 1e-5 relative", "hnsw level of each insert enumerated in {0,1} with at most one non-zero level per history"},
		Shards: func(tier string) []vShard {
			var sh []vShard
			depth, nids := 4, 3
			if tier == "thorough" {
				depth = 5
			}
			for _, cfg := range vC02Configs(tier) {
				cfg := cfg
				sh = append(sh, vShard{Name: strings.ReplaceAll(cfg.String(), " ", ","), Run: func(c *vCtx) {
					vBFS(c, newKindSys(c, cfg, nids), depth)
				}})
			}
			maxN := 70
			if tier == "thorough" {
				maxN = 300
			}
			// observation gaps (zz_verif_obsgap.go): two values, two ids, Observe in the alphabet
			for _, cfg := range vSweepCfgs()[:7] {
				cfg := cfg
				sh = append(sh, vShard{Name: "obsgap/" + strings.ReplaceAll(cfg.String(), " ", ","), Run: func(c *vCtx) {
					in := newKindSys(c, cfg, 2)
					in.vals = in.vals[:2]
					in.noPrepared = true
					in.cfgS += " obsgap"
					vBFS(c, &vObsGapSys{inner: in}, 6)
				}})
			}
			bdepth := 3
			if tier == "thorough" {
				bdepth = 4
			}
			for _, cfg := range vSweepCfgs()[:7] {
				cfg := cfg
				sh = append(sh, vShard{Name: "builders/" + strings.ReplaceAll(cfg.String(), " ", ","), Run: func(c *vCtx) { vVecBuilderShard(c, cfg, bdepth) }})
			}
			// very large flat instances (beyond 2^15 and, thorough, 2^16 stored vectors)
			huge := []int{33000}
			if tier == "thorough" {
				huge = []int{33000, 70000}
			}
			for _, n := range huge {
				n := n
				hcfg := vVecCfg{Kind: "flat", Metric: Euclidean, Dim: 2}
				sh = append(sh, vShard{Name: fmt.Sprintf("large/huge/%d/%s", n, strings.ReplaceAll(hcfg.String(), " ", ",")), Run: func(c *vCtx) { vKindLarge(c, hcfg, []int{n}, nil) }})
			}
			for _, cfg := range vSweepCfgs() {
				cfg := cfg
				sh = append(sh, vShard{Name: "sweep/" + strings.ReplaceAll(cfg.String(), " ", ","), Run: func(c *vCtx) { vKindSweep(c, cfg, maxN, nil) }})
				sh = append(sh, vShard{Name: "large/" + strings.ReplaceAll(cfg.String(), " ", ","), Run: func(c *vCtx) { vKindLarge(c, cfg, vLargeSizes(tier), nil) }})
				sh = append(sh, vShard{Name: "endurance/" + strings.ReplaceAll(cfg.String(), " ", ","), Run: func(c *vCtx) { vKindEndurance(c, cfg, 70000, nil) }})
				if cfg.Dim <= 4 || cfg.Kind == "pq" {
					for _, x := range vXFs {
						x := x
						if cfg.Metric == Cosine && x.Off != 0 {
							continue // a common offset makes all directions alike: nothing to judge
						}
						sh = append(sh, vShard{Name: fmt.Sprintf("xf/%g:%d/%s", x.Off, x.Exp, strings.ReplaceAll(cfg.String(), " ", ",")), Run: func(c *vCtx) {
							defer vXFSet(x, cfg.Metric)()
							vBFS(c, newKindSys(c, cfg, 3), 3)
							vKindSweep(c, cfg, 24, nil)
						}})
					}
				}
				for _, base := range vIDBases {
					base := base
					if base == math.MaxUint32 && cfg.Kind == "hnsw" {
						continue // for an HNSW Add id 0 means "assign an id": not an explicit id
					}
					sh = append(sh, vShard{Name: fmt.Sprintf("bigids/%d/%s", base, strings.ReplaceAll(cfg.String(), " ", ",")), Run: func(c *vCtx) {
						vIDBase = base
						defer func() { vIDBase = 0 }()
						vBFS(c, newKindSys(c, cfg, 3), 3)
						vKindSweep(c, cfg, 12, nil)
					}})
				}
			}
			return sh
		},
		Replay: func(c *vCtx, v *vViolation) bool {
			defer vXFParse(v.Config, vParseVecCfg(v.Config).Metric)()
			v.Config = vXFStrip(v.Config)
			if i := strings.Index(v.Config, " idbase="); i >= 0 {
				var b uint32
				fmt.Sscanf(v.Config[i:], " idbase=%d", &b)
				vIDBase = b
				defer func() { vIDBase = 0 }()
			}
			if strings.HasSuffix(v.Config, " obsgap") {
				in := newKindSys(c, vParseVecCfg(v.Config), 2)
				in.vals = in.vals[:2]
				in.noPrepared = true
				in.cfgS = v.Config
				vReplayHist(&vObsGapSys{inner: in}, v.History)
				_, ok := c.viol[v.Sig()]
				return ok
			}
			if i := strings.Index(v.Config, " endurance n="); i >= 0 {
				var n int
				fmt.Sscanf(v.Config[i:], " endurance n=%d", &n)
				vKindEndurance(c, vParseVecCfg(v.Config[:i]), n, nil)
				_, ok := c.viol[v.Sig()]
				return ok
			}
			if i := strings.Index(v.Config, " large n="); i >= 0 {
				var n int
				fmt.Sscanf(v.Config[i:], " large n=%d", &n)
				vKindLarge(c, vParseVecCfg(v.Config[:i]), []int{n}, nil)
				_, ok := c.viol[v.Sig()]
				return ok
			}
			if i := strings.Index(v.Config, " sweep n="); i >= 0 {
				var n int
				fmt.Sscanf(v.Config[i:], " sweep n=%d", &n)
				vKindSweep(c, vParseVecCfg(v.Config[:i]), n+1, nil)
				_, ok := c.viol[v.Sig()]
				return ok
			}
			vReplayHist(newKindSys(c, vParseVecCfg(v.Config), 3), v.History)
			_, ok := c.viol[v.Sig()]
			return ok
		},
	})
}
