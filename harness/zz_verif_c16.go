//go:build verif

package comet

// C16 — truncated or mismatched serialised data is rejected, never half-loaded.
// (1) every strict prefix of every reached state's serialisation (machinery shared
// with C07), (2) the kind / parameter / version mismatch matrix, (3) store segments
// with a truncated / empty / missing component file (registered by the store harness).

import (
	"bytes"
	"encoding/binary"
	"fmt"
	"io"
)

type vMismatch struct {
	name   string
	writer func() (any, *vSerKind)
	recv   func() (any, func(any, io.Reader) (int64, error))
}

func vVecRecv(cfg vVecCfg) func() (any, func(any, io.Reader) (int64, error)) {
	return func() (any, func(any, io.Reader) (int64, error)) {
		k := vSerVecKind(cfg)
		return k.fresh(), k.read
	}
}

// populated source of a kind: fresh + a few adds + one remove (not flushed)
func vSerPopulated(k *vSerKind) any {
	src := k.source()
	for i := 0; i < 3; i++ {
		k.add(src, uint32(i+1), i%k.nvals)
	}
	k.remove(src, 2)
	return src
}

func vC16Mismatch(c *vCtx) {
	vFixLevels()
	base := map[string]vVecCfg{
		"flat":  {Kind: "flat", Metric: Euclidean, Dim: 2},
		"hnsw":  {Kind: "hnsw", Metric: Euclidean, Dim: 2, M: 2, Ef: 8},
		"ivf":   {Kind: "ivf", Metric: Euclidean, Dim: 2, NList: 2, Train: 0},
		"pq":    {Kind: "pq", Metric: Euclidean, Dim: 2, M: 2, NBits: 2, Train: 0},
		"ivfpq": {Kind: "ivfpq", Metric: Euclidean, Dim: 2, NList: 2, M: 2, NBits: 2, Train: 0},
	}
	type variant struct {
		what string
		cfg  vVecCfg
	}
	variants := map[string][]variant{}
	for kind, b := range base {
		add := func(what string, f func(c *vVecCfg)) {
			v := b
			f(&v)
			variants[kind] = append(variants[kind], variant{what, v})
		}
		add("dimension", func(c *vVecCfg) { c.Dim = 4 })
		add("metric", func(c *vVecCfg) { c.Metric = Cosine })
		add("metric2", func(c *vVecCfg) { c.Metric = L2Squared })
		switch kind {
		case "hnsw":
			add("M", func(c *vVecCfg) { c.M = 3 })
			add("ef", func(c *vVecCfg) { c.Ef = 9 })
		case "ivf":
			add("nlist", func(c *vVecCfg) { c.NList = 3 })
		case "pq":
			add("M", func(c *vVecCfg) { c.M = 1 })
			add("nbits", func(c *vVecCfg) { c.NBits = 3 })
		case "ivfpq":
			add("nlist", func(c *vVecCfg) { c.NList = 1 })
			add("M", func(c *vVecCfg) { c.M = 1 })
			add("nbits", func(c *vVecCfg) { c.NBits = 3 })
		}
	}
	// all kinds as writers
	var kinds []*vSerKind
	for _, name := range []string{"flat", "hnsw", "ivf", "pq", "ivfpq"} {
		kinds = append(kinds, vSerVecKind(base[name]))
	}
	kinds = append(kinds, vSerTextKind(), vSerMetaKind(), vSerHybridKind(true, true, true), vSerHybridKind(false, true, false))
	streams := make([][]byte, len(kinds))
	empties := make([][]byte, len(kinds))
	untrained := make([][]byte, len(kinds))
	for i, k := range kinds {
		var b bytes.Buffer
		if _, err := k.write(vSerPopulated(k), &b); err != nil {
			c.Violation("write-error", "", k.name, nil, err.Error())
		}
		streams[i] = b.Bytes()
		var e bytes.Buffer
		k.write(k.source(), &e)
		empties[i] = e.Bytes()
		var u bytes.Buffer
		k.write(k.fresh(), &u)
		untrained[i] = u.Bytes()
	}
	try := func(what, cfgS string, recv any, read func(any, io.Reader) (int64, error), data []byte) {
		c.Evaluations++
		c.Transitions++
		c.Traces++
		var err error
		func() {
			defer func() {
				if r := recover(); r != nil {
					c.Violation("mismatch-panic", what, cfgS, nil, fmt.Sprint(r))
					err = fmt.Errorf("panic")
				}
			}()
			_, err = read(recv, bytes.NewReader(data))
		}()
		if err == nil {
			c.Violation("mismatch-accepted", what, cfgS, nil, "ReadFrom returned nil")
		}
		c.Nontrivial(what + "|" + cfgS + fmt.Sprint(len(data)))
		c.NewState(what + "|" + cfgS + fmt.Sprint(len(data)))
	}
	// receiver STATES: the receiver need not be fresh from its constructor. It may have been
	// trained, used (adds, a removal), tuned (SetEfSearch, to the very value it was built
	// with), or have read something before: a prefix of a valid stream of its own (refused)
	// or a whole one (accepted). A mismatched stream is refused by every one of them.
	recvStates := func(k *vSerKind) []struct {
		name string
		mk   func() any
	} {
		own := func() []byte {
			var b bytes.Buffer
			k.write(vSerPopulated(k), &b)
			return b.Bytes()
		}
		return []struct {
			name string
			mk   func() any
		}{
			{"used", func() any { return vSerPopulated(k) }},
			{"tuned", func() any {
				r := k.fresh()
				if h, ok := r.(*HNSWIndex); ok {
					h.SetEfSearch(h.efSearch)
				}
				return r
			}},
			{"that refused a truncated stream before", func() any {
				r := k.fresh()
				o := own()
				k.read(r, bytes.NewReader(o[:len(o)*2/3]))
				return r
			}},
			{"that read a valid stream before", func() any {
				r := k.fresh()
				k.read(r, bytes.NewReader(own()))
				if h, ok := r.(*HNSWIndex); ok {
					h.SetEfSearch(h.efSearch)
				}
				return r
			}},
		}
	}
	// (a) stream of kind A into receiver of kind B != A (populated and empty streams)
	for i, a := range kinds {
		for j, b := range kinds {
			if i == j || (i >= 7 && j >= 7) {
				continue
			}
			try("other-kind", fmt.Sprintf("stream of %s -> receiver %s", a.name, b.name), b.fresh(), b.read, streams[i])
			try("other-kind", fmt.Sprintf("empty stream of %s -> receiver %s", a.name, b.name), b.fresh(), b.read, empties[i])
			try("other-kind", fmt.Sprintf("untrained stream of %s -> receiver %s", a.name, b.name), b.fresh(), b.read, untrained[i])
			if j < 7 {
				for _, rs := range recvStates(b) {
					try("other-kind", fmt.Sprintf("stream of %s -> receiver %s %s", a.name, b.name, rs.name), rs.mk(), b.read, streams[i])
				}
			}
		}
	}
	// (b) receiver differing from the writer in exactly one construction parameter
	for i, name := range []string{"flat", "hnsw", "ivf", "pq", "ivfpq"} {
		for _, v := range variants[name] {
			k := vSerVecKind(v.cfg)
			for _, rs := range recvStates(k) {
				try("parameter:"+v.what, fmt.Sprintf("stream of %s -> receiver %s %s", kinds[i].name, k.name, rs.name), rs.mk(), k.read, streams[i])
				try("parameter:"+v.what, fmt.Sprintf("empty stream of %s -> receiver %s %s", kinds[i].name, k.name, rs.name), rs.mk(), k.read, empties[i])
			}
			try("parameter:"+v.what, fmt.Sprintf("stream of %s -> receiver %s", kinds[i].name, k.name), k.fresh(), k.read, streams[i])
			try("parameter:"+v.what, fmt.Sprintf("empty stream of %s -> receiver %s", kinds[i].name, k.name), k.fresh(), k.read, empties[i])
			try("parameter:"+v.what, fmt.Sprintf("untrained stream of %s -> receiver %s", kinds[i].name, k.name), k.fresh(), k.read, untrained[i])
			// and a trained receiver (ReadFrom replaces the state of a used index too)
			try("parameter:"+v.what, fmt.Sprintf("stream of %s -> trained receiver %s", kinds[i].name, k.name), k.source(), k.read, streams[i])
		}
	}
	// hnsw: efSearch alone (the constructor takes efConstruction and efSearch separately);
	// fresh, and tuned with SetEfSearch to the value it was built with
	for _, tuned := range []bool{false, true} {
		h, err := NewHNSWIndex(2, Euclidean, 2, 8, 9)
		if err != nil {
			continue
		}
		name := "fresh"
		if tuned {
			h.SetEfSearch(9)
			name = "tuned"
		}
		hk := kinds[1]
		try("parameter:efSearch", fmt.Sprintf("stream of %s -> receiver built with efSearch=9, %s", hk.name, name), h, hk.read, streams[1])
		h2, _ := NewHNSWIndex(2, Euclidean, 2, 8, 9)
		if tuned {
			h2.SetEfSearch(9)
		}
		try("parameter:efSearch", fmt.Sprintf("empty stream of %s -> receiver built with efSearch=9, %s", hk.name, name), h2, hk.read, empties[1])
	}
	// hybrid presence bits
	pres := [][3]bool{{true, true, true}, {false, true, true}, {true, false, true}, {true, true, false}, {false, false, false}}
	for _, w := range pres {
		wk := vSerHybridKind(w[0], w[1], w[2])
		var b bytes.Buffer
		wk.write(vSerPopulated(wk), &b)
		for _, r := range pres {
			diff := 0
			for x := 0; x < 3; x++ {
				if w[x] != r[x] {
					diff++
				}
			}
			if diff != 1 {
				continue
			}
			rk := vSerHybridKind(r[0], r[1], r[2])
			try("parameter:sub-index-presence", fmt.Sprintf("stream of %s -> receiver %s", wk.name, rk.name), rk.fresh(), rk.read, b.Bytes())
		}
	}
	// (c) other format version patched into a valid stream
	for i, k := range kinds {
		// every version that differs from 1 in exactly one bit (0, 3, 5, 9, ... 0x10001, ...,
		// 0x80000001), plus 2, the byte-swapped 1, each half set and all ones
		vers := []uint32{2, 0x01000000, 0xFFFF, 0x10000, 0x101, 0xFFFF0001, 0xFFFFFFFF}
		for b := 0; b < 32; b++ {
			vers = append(vers, 1^(1<<uint(b)))
		}
		for _, ver := range vers {
			d := append([]byte(nil), streams[i]...)
			if len(d) < 8 {
				continue
			}
			binary.LittleEndian.PutUint32(d[4:8], ver)
			try(fmt.Sprintf("version:%d", ver), k.name, k.fresh(), k.read, d)
		}
		// corrupted magic: all bits of the first byte, and every single bit of the four bytes
		d := append([]byte(nil), streams[i]...)
		d[0] ^= 0xFF
		try("magic", k.name, k.fresh(), k.read, d)
		for b := 0; b < 32 && len(streams[i]) >= 4; b++ {
			d := append([]byte(nil), streams[i]...)
			d[b/8] ^= 1 << uint(b%8)
			try("magic", k.name, k.fresh(), k.read, d)
		}
	}
	c.Sample("stream of kind=flat -> receiver kind=hnsw; receiver differing in one parameter; version 0/2 patched")
	c.Bound = "mismatch matrix complete"
}

func init() {
	vRegister(&vCheck{
		ID: "C16", Level: "fault_enumeration", Engine: "domainmc",
		Rule:        "(1) for each of the eight kinds (several parameterisations) and EVERY state reached by a BFS over Add/Remove/Flush histories (plus untrained/empty): every prefix length 0..len-1 of the serialisation is fed to a fresh receiver with matching parameters and must be rejected with an error (no panic, no success); (2) mismatch matrix: every (stream of kind A, receiver of kind B != A) pair for populated, trained-empty and untrained streams, every receiver differing from the writer in exactly one construction parameter (dimension, metric, M, ef, nlist, nbits, each hybrid sub-index presence bit), version field patched to 0 / 2 / 0xFFFFFFFF, corrupted magic; (3) store: every prefix (incl. empty and missing) of each component file of a segment (see store shard). Non-trivial = distinct (kind, stream, prefix length) and distinct mismatch cases; all are fault cases by construction.",
		Assumptions: []string{"all prefixes are enumerated (streams here are < 8 KB)", "allocation driven by a corrupt count cannot occur for prefixes of valid streams"},
		Shards: func(tier string) []vShard {
			sh := vSerShards("c16", tier)
			sh = append(sh, vShard{Name: "mismatch-matrix", Run: vC16Mismatch})
			sh = append(sh, vC16StoreShards(tier)...)
			return sh
		},
		Replay: func(c *vCtx, v *vViolation) bool {
			if v.Shard == "mismatch-matrix" {
				vC16Mismatch(c)
				_, ok := c.viol[v.Sig()]
				return ok
			}
			if len(v.Shard) >= 5 && v.Shard[:5] == "store" {
				return vC16StoreReplay(c, v)
			}
			return vSerReplay("c16")(c, v)
		},
	})
}
