# sourced by the bin/ scripts: offline Go environment that works in this sandbox.
# (GOSUMDB=off / GOTOOLCHAIN=local must NOT be set: they break the offline switch to
# the cached go1.24.2 toolchain that /repo's go.mod asks for.)
export GOFLAGS=-mod=mod
export GOPROXY=off
unset GOSUMDB GOTOOLCHAIN GONOSUMDB GONOSUMCHECK GOFLAGS_EXTRA 2>/dev/null || true
export VERIF_DIR="${VERIF_DIR:-$(cd "$(dirname "${BASH_SOURCE[0]}")/.." && pwd)}"
export REPO_DIR="${REPO_DIR:-/repo}"
export VERIF_BUILD="${VERIF_BUILD:-$VERIF_DIR/.build}"
