// Package ioutil is the verification shim for io/ioutil (deprecated but still usable by an
// edit to comet): file-system functions go through vos.
package ioutil

import (
	"io"
	"io/fs"
	rio "io/ioutil"

	vos "github.com/wizenheimer/comet/internal/vrt/vos"
)

var Discard = io.Discard

func NopCloser(r io.Reader) io.ReadCloser  { return io.NopCloser(r) }
func ReadAll(r io.Reader) ([]byte, error)  { return io.ReadAll(r) }
func ReadFile(name string) ([]byte, error) { return vos.ReadFile(name) }
func WriteFile(name string, data []byte, perm fs.FileMode) error {
	return vos.WriteFile(name, data, perm)
}
func TempDir(dir, pattern string) (string, error)     { return vos.MkdirTemp(dir, pattern) }
func TempFile(dir, pattern string) (*vos.File, error) { return vos.CreateTemp(dir, pattern) }
func ReadDir(name string) ([]fs.FileInfo, error) {
	if vos.FS == nil {
		return rio.ReadDir(name)
	}
	ents, err := vos.ReadDir(name)
	if err != nil {
		return nil, err
	}
	out := make([]fs.FileInfo, 0, len(ents))
	for _, e := range ents {
		i, err := e.Info()
		if err != nil {
			return nil, err
		}
		out = append(out, i)
	}
	return out, nil
}
