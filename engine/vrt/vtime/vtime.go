//go:build verif

// Package time is the instrumented stand-in for package time, used only by the files
// that receive the channel rewrite (a Ticker's C must then be a shim channel).
package time

import (
	rtime "time"

	"github.com/wizenheimer/comet/internal/vrt"
)

type Duration = rtime.Duration
type Time = rtime.Time
type Month = rtime.Month

const (
	Nanosecond  = rtime.Nanosecond
	Microsecond = rtime.Microsecond
	Millisecond = rtime.Millisecond
	Second      = rtime.Second
	Minute      = rtime.Minute
	Hour        = rtime.Hour
)

// The clock is the real one plus an offset that only the harness moves: Advance lets an
// execution contain "a long idle period" (hours pass between two operations) without
// waiting for it. Nothing in the explored executions depends on the real part.
var offset Duration

func Advance(d Duration) { offset += d }

func Now() Time             { return rtime.Now().Add(offset) }
func Since(t Time) Duration { return Now().Sub(t) }
func Until(t Time) Duration { return t.Sub(Now()) }
func Sleep(d Duration) {
	if vrt.Active() {
		// the time passes on the harness-owned part of the clock (a loop that polls until a
		// deadline ends after deadline/d rounds, without waiting in real time), and the
		// sleeper offers the processor to the other threads
		offset += d
		vrt.Step("time.sleep")
		return
	}
	rtime.Sleep(d)
}

// Ticker delivers ticks on a shim channel. Under the scheduler a tick is an
// environment decision: vrt.TickAll() makes every live ticker fire once.
type Ticker struct {
	C    *vrt.Chan[Time]
	real *rtime.Ticker
	stop chan struct{}
	dead bool
}

var tickers []*Ticker

func NewTicker(d Duration) *Ticker {
	t := &Ticker{C: vrt.MakeChan[Time](1)}
	if vrt.Active() {
		tickers = append(tickers, t)
		return t
	}
	t.real = rtime.NewTicker(d)
	t.stop = make(chan struct{})
	go func() {
		for {
			select {
			case v := <-t.real.C:
				t.C.TrySendEnv(v)
			case <-t.stop:
				return
			}
		}
	}()
	return t
}

func (t *Ticker) Stop() {
	if t.real != nil {
		t.real.Stop()
		select {
		case <-t.stop:
		default:
			close(t.stop)
		}
		return
	}
	t.dead = true
}

func (t *Ticker) Reset(d Duration) {
	if t.real != nil {
		t.real.Reset(d)
	}
}

// FireAll makes every live controlled ticker deliver one tick (harness "Tick" op).
func FireAll() int {
	n := 0
	for _, t := range tickers {
		if !t.dead && t.C.TrySendEnv(Time{}) {
			n++
		}
	}
	return n
}

// ResetTickers forgets controlled tickers (between executions).
func ResetTickers() { tickers = nil; offset = 0 }

// After returns a shim channel: in pass-through mode it receives the real timer's
// value; under the scheduler it fires with the next FireAll.
func After(d Duration) *vrt.Chan[Time] {
	c := vrt.MakeChan[Time](1)
	if vrt.Active() {
		tickers = append(tickers, &Ticker{C: c})
		return c
	}
	go func() { c.TrySendEnv(<-rtime.After(d)) }()
	return c
}

// ---------------------------------------------------------------------------
// further pass-throughs so that edits that use more of package time still build

type (
	Weekday    = rtime.Weekday
	Location   = rtime.Location
	ParseError = rtime.ParseError
)

const (
	RFC3339     = rtime.RFC3339
	RFC3339Nano = rtime.RFC3339Nano
	RFC1123     = rtime.RFC1123
	Kitchen     = rtime.Kitchen
	DateTime    = rtime.DateTime
	DateOnly    = rtime.DateOnly
	TimeOnly    = rtime.TimeOnly
	Layout      = rtime.Layout
)

var (
	UTC   = rtime.UTC
	Local = rtime.Local
)

func Unix(s, ns int64) Time                    { return rtime.Unix(s, ns) }
func UnixMilli(ms int64) Time                  { return rtime.UnixMilli(ms) }
func UnixMicro(us int64) Time                  { return rtime.UnixMicro(us) }
func Parse(l, v string) (Time, error)          { return rtime.Parse(l, v) }
func ParseDuration(s string) (Duration, error) { return rtime.ParseDuration(s) }
func Date(y int, m Month, d, h, mi, s, ns int, loc *Location) Time {
	return rtime.Date(y, m, d, h, mi, s, ns, loc)
}

// Timer mirrors time.Timer with a shim channel.
type Timer struct {
	C    *vrt.Chan[Time]
	real *rtime.Timer
	t    *Ticker
	f    func()
}

func NewTimer(d Duration) *Timer {
	c := vrt.MakeChan[Time](1)
	if vrt.Active() {
		tk := &Ticker{C: c}
		tickers = append(tickers, tk)
		return &Timer{C: c, t: tk}
	}
	tm := &Timer{C: c}
	tm.real = rtime.AfterFunc(d, func() { c.TrySendEnv(rtime.Now()) })
	return tm
}

// AfterFunc runs f in its own goroutine / scheduler thread when the timer fires
// (under the scheduler: with the next FireAll).
func AfterFunc(d Duration, f func()) *Timer {
	if vrt.Active() {
		c := vrt.MakeChan[Time](1)
		tk := &Ticker{C: c}
		tickers = append(tickers, tk)
		vrt.GoNamed("afterfunc", true, func() {
			if _, ok := c.Recv2(); ok && !tk.dead {
				f()
			}
		})
		return &Timer{C: c, t: tk}
	}
	return &Timer{real: rtime.AfterFunc(d, f)}
}

func (t *Timer) Stop() bool {
	if t.real != nil {
		return t.real.Stop()
	}
	if t.t != nil {
		was := !t.t.dead
		t.t.dead = true
		return was
	}
	return false
}

func (t *Timer) Reset(d Duration) bool {
	if t.real != nil {
		return t.real.Reset(d)
	}
	if t.t != nil {
		was := !t.t.dead
		t.t.dead = false
		return was
	}
	return false
}

// Tick mirrors time.Tick.
func Tick(d Duration) *vrt.Chan[Time] { return NewTicker(d).C }
