//go:build verif

// Package time is the instrumented stand-in for package time, used only by the files
// that receive the channel rewrite (a Ticker's C must then be a shim channel).
package time

import (
	rtime "time"

	"github.com/wizenheimer/comet/internal/vrt"
)

type Duration = rtime.Duration
type Time = rtime.Time
type Month = rtime.Month

const (
	Nanosecond  = rtime.Nanosecond
	Microsecond = rtime.Microsecond
	Millisecond = rtime.Millisecond
	Second      = rtime.Second
	Minute      = rtime.Minute
	Hour        = rtime.Hour
)

func Now() Time             { return rtime.Now() }
func Since(t Time) Duration { return rtime.Since(t) }
func Until(t Time) Duration { return rtime.Until(t) }
func Sleep(d Duration) {
	if vrt.Active() {
		vrt.Step("time.sleep")
		return
	}
	rtime.Sleep(d)
}

// Ticker delivers ticks on a shim channel. Under the scheduler a tick is an
// environment decision: vrt.TickAll() makes every live ticker fire once.
type Ticker struct {
	C    *vrt.Chan[Time]
	real *rtime.Ticker
	stop chan struct{}
	dead bool
}

var tickers []*Ticker

func NewTicker(d Duration) *Ticker {
	t := &Ticker{C: vrt.MakeChan[Time](1)}
	if vrt.Active() {
		tickers = append(tickers, t)
		return t
	}
	t.real = rtime.NewTicker(d)
	t.stop = make(chan struct{})
	go func() {
		for {
			select {
			case v := <-t.real.C:
				t.C.TrySendEnv(v)
			case <-t.stop:
				return
			}
		}
	}()
	return t
}

func (t *Ticker) Stop() {
	if t.real != nil {
		t.real.Stop()
		select {
		case <-t.stop:
		default:
			close(t.stop)
		}
		return
	}
	t.dead = true
}

func (t *Ticker) Reset(d Duration) {
	if t.real != nil {
		t.real.Reset(d)
	}
}

// FireAll makes every live controlled ticker deliver one tick (harness "Tick" op).
func FireAll() int {
	n := 0
	for _, t := range tickers {
		if !t.dead && t.C.TrySendEnv(Time{}) {
			n++
		}
	}
	return n
}

// ResetTickers forgets controlled tickers (between executions).
func ResetTickers() { tickers = nil }

// After returns a shim channel: in pass-through mode it receives the real timer's
// value; under the scheduler it fires with the next FireAll.
func After(d Duration) *vrt.Chan[Time] {
	c := vrt.MakeChan[Time](1)
	if vrt.Active() {
		tickers = append(tickers, &Ticker{C: c})
		return c
	}
	go func() { c.TrySendEnv(<-rtime.After(d)) }()
	return c
}
