//go:build verif

// Package rand is the instrumented stand-in for math/rand/v2. Float64 becomes an
// explorer-owned decision: 0 ("below any probability") or 0.999 ("above"); the
// default is 0.999, i.e. HNSW level 0.
package rand

import (
	rrand "math/rand/v2"

	"github.com/wizenheimer/comet/internal/vrt"
)

func Float64() float64 {
	if vrt.RandHook != nil {
		return vrt.RandHook()
	}
	if vrt.Active() {
		if vrt.Choose("rand", 2) == 1 {
			return 0
		}
		return 0.999
	}
	return rrand.Float64()
}

func Float32() float32                { return float32(Float64()) }
func IntN(n int) int                  { return rrand.IntN(n) }
func Int() int                        { return rrand.Int() }
func Int64() int64                    { return rrand.Int64() }
func Int64N(n int64) int64            { return rrand.Int64N(n) }
func Uint32() uint32                  { return rrand.Uint32() }
func Uint64() uint64                  { return rrand.Uint64() }
func Perm(n int) []int                { return rrand.Perm(n) }
func Shuffle(n int, f func(i, j int)) { rrand.Shuffle(n, f) }
func NormFloat64() float64            { return rrand.NormFloat64() }

type Rand = rrand.Rand
type Source = rrand.Source

func New(src Source) *Rand          { return rrand.New(src) }
func NewPCG(a, b uint64) *rrand.PCG { return rrand.NewPCG(a, b) }

func Int32() int32            { return rrand.Int32() }
func Int32N(n int32) int32    { return rrand.Int32N(n) }
func Uint32N(n uint32) uint32 { return rrand.Uint32N(n) }
func Uint64N(n uint64) uint64 { return rrand.Uint64N(n) }
func UintN(n uint) uint       { return rrand.UintN(n) }
func Uint() uint              { return rrand.Uint() }
func ExpFloat64() float64     { return rrand.ExpFloat64() }
func N[T ~int | ~int8 | ~int16 | ~int32 | ~int64 | ~uint | ~uint8 | ~uint16 | ~uint32 | ~uint64 | ~uintptr](n T) T {
	return rrand.N(n)
}

type PCG = rrand.PCG
type ChaCha8 = rrand.ChaCha8
type Zipf = rrand.Zipf

func NewChaCha8(seed [32]byte) *ChaCha8                { return rrand.NewChaCha8(seed) }
func NewZipf(r *Rand, s, v float64, imax uint64) *Zipf { return rrand.NewZipf(r, s, v, imax) }
