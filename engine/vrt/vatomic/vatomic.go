//go:build verif

// Package atomic is the instrumented stand-in for sync/atomic: every operation is a
// scheduling point (sequentially consistent), then the real operation.
package atomic

import (
	ratomic "sync/atomic"

	"github.com/wizenheimer/comet/internal/vrt"
)

func pt(d string) {
	if vrt.Active() {
		vrt.Step(d)
	}
}

func AddUint32(addr *uint32, delta uint32) uint32 {
	pt("atomic.add")
	return ratomic.AddUint32(addr, delta)
}
func AddUint64(addr *uint64, delta uint64) uint64 {
	pt("atomic.add")
	return ratomic.AddUint64(addr, delta)
}
func AddInt32(addr *int32, delta int32) int32 { pt("atomic.add"); return ratomic.AddInt32(addr, delta) }
func AddInt64(addr *int64, delta int64) int64 { pt("atomic.add"); return ratomic.AddInt64(addr, delta) }
func LoadUint32(addr *uint32) uint32          { pt("atomic.load"); return ratomic.LoadUint32(addr) }
func LoadUint64(addr *uint64) uint64          { pt("atomic.load"); return ratomic.LoadUint64(addr) }
func LoadInt32(addr *int32) int32             { pt("atomic.load"); return ratomic.LoadInt32(addr) }
func LoadInt64(addr *int64) int64             { pt("atomic.load"); return ratomic.LoadInt64(addr) }
func StoreUint32(addr *uint32, v uint32)      { pt("atomic.store"); ratomic.StoreUint32(addr, v) }
func StoreUint64(addr *uint64, v uint64)      { pt("atomic.store"); ratomic.StoreUint64(addr, v) }
func StoreInt32(addr *int32, v int32)         { pt("atomic.store"); ratomic.StoreInt32(addr, v) }
func StoreInt64(addr *int64, v int64)         { pt("atomic.store"); ratomic.StoreInt64(addr, v) }
func CompareAndSwapUint32(addr *uint32, o, n uint32) bool {
	pt("atomic.cas")
	return ratomic.CompareAndSwapUint32(addr, o, n)
}
func CompareAndSwapUint64(addr *uint64, o, n uint64) bool {
	pt("atomic.cas")
	return ratomic.CompareAndSwapUint64(addr, o, n)
}
func CompareAndSwapInt32(addr *int32, o, n int32) bool {
	pt("atomic.cas")
	return ratomic.CompareAndSwapInt32(addr, o, n)
}
func CompareAndSwapInt64(addr *int64, o, n int64) bool {
	pt("atomic.cas")
	return ratomic.CompareAndSwapInt64(addr, o, n)
}

type Uint32 struct{ v ratomic.Uint32 }

func (x *Uint32) Load() uint32         { pt("atomic.load"); return x.v.Load() }
func (x *Uint32) Store(v uint32)       { pt("atomic.store"); x.v.Store(v) }
func (x *Uint32) Add(d uint32) uint32  { pt("atomic.add"); return x.v.Add(d) }
func (x *Uint32) Swap(v uint32) uint32 { pt("atomic.swap"); return x.v.Swap(v) }
func (x *Uint32) CompareAndSwap(o, n uint32) bool {
	pt("atomic.cas")
	return x.v.CompareAndSwap(o, n)
}

type Uint64 struct{ v ratomic.Uint64 }

func (x *Uint64) Load() uint64         { pt("atomic.load"); return x.v.Load() }
func (x *Uint64) Store(v uint64)       { pt("atomic.store"); x.v.Store(v) }
func (x *Uint64) Add(d uint64) uint64  { pt("atomic.add"); return x.v.Add(d) }
func (x *Uint64) Swap(v uint64) uint64 { pt("atomic.swap"); return x.v.Swap(v) }
func (x *Uint64) CompareAndSwap(o, n uint64) bool {
	pt("atomic.cas")
	return x.v.CompareAndSwap(o, n)
}

type Int32 struct{ v ratomic.Int32 }

func (x *Int32) Load() int32        { pt("atomic.load"); return x.v.Load() }
func (x *Int32) Store(v int32)      { pt("atomic.store"); x.v.Store(v) }
func (x *Int32) Add(d int32) int32  { pt("atomic.add"); return x.v.Add(d) }
func (x *Int32) Swap(v int32) int32 { pt("atomic.swap"); return x.v.Swap(v) }
func (x *Int32) CompareAndSwap(o, n int32) bool {
	pt("atomic.cas")
	return x.v.CompareAndSwap(o, n)
}

type Int64 struct{ v ratomic.Int64 }

func (x *Int64) Load() int64        { pt("atomic.load"); return x.v.Load() }
func (x *Int64) Store(v int64)      { pt("atomic.store"); x.v.Store(v) }
func (x *Int64) Add(d int64) int64  { pt("atomic.add"); return x.v.Add(d) }
func (x *Int64) Swap(v int64) int64 { pt("atomic.swap"); return x.v.Swap(v) }
func (x *Int64) CompareAndSwap(o, n int64) bool {
	pt("atomic.cas")
	return x.v.CompareAndSwap(o, n)
}

type Bool struct{ v ratomic.Bool }

func (x *Bool) Load() bool       { pt("atomic.load"); return x.v.Load() }
func (x *Bool) Store(v bool)     { pt("atomic.store"); x.v.Store(v) }
func (x *Bool) Swap(v bool) bool { pt("atomic.swap"); return x.v.Swap(v) }
func (x *Bool) CompareAndSwap(o, n bool) bool {
	pt("atomic.cas")
	return x.v.CompareAndSwap(o, n)
}

type Value = ratomic.Value
type Pointer[T any] struct{ v ratomic.Pointer[T] }

func (x *Pointer[T]) Load() *T     { pt("atomic.load"); return x.v.Load() }
func (x *Pointer[T]) Store(v *T)   { pt("atomic.store"); x.v.Store(v) }
func (x *Pointer[T]) Swap(v *T) *T { pt("atomic.swap"); return x.v.Swap(v) }
func (x *Pointer[T]) CompareAndSwap(o, n *T) bool {
	pt("atomic.cas")
	return x.v.CompareAndSwap(o, n)
}

type Uintptr struct{ v ratomic.Uintptr }

func (x *Uintptr) Load() uintptr          { pt("atomic.load"); return x.v.Load() }
func (x *Uintptr) Store(v uintptr)        { pt("atomic.store"); x.v.Store(v) }
func (x *Uintptr) Add(d uintptr) uintptr  { pt("atomic.add"); return x.v.Add(d) }
func (x *Uintptr) Swap(v uintptr) uintptr { pt("atomic.swap"); return x.v.Swap(v) }
func (x *Uintptr) CompareAndSwap(o, n uintptr) bool {
	pt("atomic.cas")
	return x.v.CompareAndSwap(o, n)
}

func (x *Uint32) And(m uint32) uint32 { pt("atomic.and"); return x.v.And(m) }
func (x *Uint32) Or(m uint32) uint32  { pt("atomic.or"); return x.v.Or(m) }
func (x *Uint64) And(m uint64) uint64 { pt("atomic.and"); return x.v.And(m) }
func (x *Uint64) Or(m uint64) uint64  { pt("atomic.or"); return x.v.Or(m) }

func SwapUint32(addr *uint32, n uint32) uint32 { pt("atomic.swap"); return ratomic.SwapUint32(addr, n) }
func SwapUint64(addr *uint64, n uint64) uint64 { pt("atomic.swap"); return ratomic.SwapUint64(addr, n) }
func SwapInt32(addr *int32, n int32) int32     { pt("atomic.swap"); return ratomic.SwapInt32(addr, n) }
func SwapInt64(addr *int64, n int64) int64     { pt("atomic.swap"); return ratomic.SwapInt64(addr, n) }
