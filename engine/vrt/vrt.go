//go:build verif

// Package vrt is the verification runtime that the instrumented copy of comet is
// linked against. It owns every source of nondeterminism the explorers enumerate:
// thread scheduling (cooperative, one baton), select choice, random numbers, ticks,
// injected faults. When no scheduler is attached (S == nil) every shim degrades to
// the real primitive ("pass-through mode"), which is what the repository's own test
// suite is run against to show that the rewrite preserves behaviour.
package vrt

import (
	"fmt"
	"reflect"
	"runtime/debug"
	"strings"
	"sync"
	"time"
)

// ---------------------------------------------------------------------------
// choices

// Point records one nondeterministic decision of an execution.
type Point struct {
	Kind    string // "sched", "select", "rand", "tick", "fault", "env"
	N       int    // number of alternatives
	Chosen  int
	Cur     bool   // sched: the running thread was still enabled (alt != 0 is a preemption)
	Enabled []int  // sched: thread ids in canonical order
	Desc    string // what the chosen thread is about to do
	Key     uint64 // global state key at this point (0 when no StateHook is installed)
}

// Scheduler runs one execution under a given choice prefix. The goroutine that calls
// Begin becomes thread 0 ("main"); every other thread is created by Go / GoNamed.
type Scheduler struct {
	threads []*Thread
	cur     *Thread
	main    *Thread
	prefix  []int
	Trace   []Point
	// results
	Deadlock   bool
	DeadlockAt string
	Panics     []string
	Diverged   string
	Horizon    bool // step budget exhausted
	aborting   bool
	steps      int
	MaxSteps   int
	clock      int64
	Log        []string // optional event log (op descriptions)
	KeepLog    bool
	wg         sync.WaitGroup
	Leaked     bool // a thread did not unwind at teardown (harness error)
	quiet      int  // >0: shim operations are not scheduling points (state inspection)
}

// Thread is one cooperative thread.
type Thread struct {
	ID       int
	Name     string
	Daemon   bool
	wake     chan struct{}
	enabled  func() bool
	desc     string
	finished bool
	started  bool
	body     func()
	hist     uint64 // hash of everything this thread has observed (state at each grant)
	nsteps   int
}

// S is the scheduler of the execution in progress (nil = pass-through).
var S *Scheduler

// Active reports whether a controlled execution is in progress and not tearing down.
func Active() bool { return S != nil && !S.aborting }

// Env hooks usable without a scheduler (sequential explorers).
var (
	// RandHook, when set, supplies rand.Float64 values in pass-through mode.
	RandHook func() float64
	// DeterministicPools makes vsync.Pool a LIFO stack that never drops objects.
	DeterministicPools bool
)

// StateHook, when set, returns a hash of the canonical shared state. It is evaluated
// at every scheduling point: folded into the history hash of the thread that is
// granted (its local state is a function of what it has observed) and, at choice
// points, combined with all thread histories into Point.Key for state-key pruning.
var StateHook func() uint64

func mix(h uint64, xs ...uint64) uint64 {
	for _, x := range xs {
		h ^= x + 0x9e3779b97f4a7c15 + (h << 6) + (h >> 2)
		h *= 0xff51afd7ed558ccd
		h ^= h >> 33
	}
	return h
}

func strHash(s string) uint64 {
	var h uint64 = 14695981039346656037
	for i := 0; i < len(s); i++ {
		h ^= uint64(s[i])
		h *= 1099511628211
	}
	return h
}

// Abort is the panic value with which a thread (including main) is unwound when the
// execution ends abnormally (deadlock, step horizon, panic in another thread) or at
// teardown. Harness code calling into comet under a scheduler must recover it.
type Abort struct{}

// Begin attaches a scheduler; the calling goroutine becomes thread 0.
func Begin(prefix []int, maxSteps int) *Scheduler {
	if S != nil {
		panic("vrt: nested Begin")
	}
	s := &Scheduler{prefix: prefix, MaxSteps: maxSteps}
	t := s.newThread("main", nil)
	t.started = true
	s.cur = t
	s.main = t
	S = s
	return s
}

// End tears the execution down: every parked thread is released so that it unwinds
// (deferred calls run in pass-through mode because Active() is false while aborting).
func (s *Scheduler) End() {
	s.aborting = true
	for _, th := range s.threads {
		if th != s.main && th.started && !th.finished {
			th.finished = true
			th.wake <- struct{}{}
		}
	}
	exited := make(chan struct{})
	go func() { s.wg.Wait(); close(exited) }()
	select {
	case <-exited:
	case <-time.After(10 * time.Second):
		s.Leaked = true
	}
	S = nil
}

// Run executes body as thread 0 under the given choice prefix on the calling goroutine.
func Run(prefix []int, maxSteps int, body func()) *Scheduler {
	s := Begin(prefix, maxSteps)
	func() {
		defer func() {
			if r := recover(); r != nil {
				if _, ok := r.(Abort); ok {
					return
				}
				s.Panics = append(s.Panics, fmt.Sprintf("thread 0 (main): %v\n%s", r, trimStack(debug.Stack())))
			}
		}()
		body()
	}()
	s.End()
	return s
}

// Failed reports whether the execution ended abnormally.
func (s *Scheduler) Failed() bool { return s.Deadlock || s.Horizon || len(s.Panics) > 0 }

func (s *Scheduler) newThread(name string, body func()) *Thread {
	t := &Thread{ID: len(s.threads), Name: name, wake: make(chan struct{}, 1), body: body}
	t.enabled = alwaysEnabled
	t.desc = "start"
	s.threads = append(s.threads, t)
	return t
}

func (s *Scheduler) threadMain(t *Thread) {
	defer s.wg.Done()
	defer func() {
		if r := recover(); r != nil {
			if _, ok := r.(Abort); ok {
				return
			}
			if s.aborting {
				return
			}
			s.Panics = append(s.Panics, fmt.Sprintf("thread %d (%s): %v\n%s", t.ID, t.Name, r, trimStack(debug.Stack())))
			// a panic poisons the instance: end the execution here.
			t.finished = true
			s.abort(t, true)
			return
		}
	}()
	t.body()
	if s.aborting {
		return
	}
	t.finished = true
	s.pickNext(true)
}

func trimStack(b []byte) string {
	lines := strings.Split(string(b), "\n")
	out := make([]string, 0, 24)
	for _, l := range lines {
		if strings.Contains(l, "internal/vrt") || strings.Contains(l, "runtime/") {
			continue
		}
		out = append(out, l)
		if len(out) >= 24 {
			break
		}
	}
	return strings.Join(out, "\n")
}

// abort ends the execution abnormally. Called by the running thread cur.
func (s *Scheduler) abort(cur *Thread, exiting bool) {
	s.aborting = true
	if cur == s.main {
		panic(Abort{})
	}
	// hand control back to main, which unwinds with Abort; this thread parks until End
	s.cur = s.main
	s.main.wake <- struct{}{}
	if exiting {
		return
	}
	<-cur.wake
	panic(Abort{})
}

// Go starts f as a new thread (pass-through: a real goroutine).
func Go(f func()) { GoNamed("go", false, f) }

// GoNamed is Go with a name and daemon flag.
func GoNamed(name string, daemon bool, f func()) {
	s := S
	if s == nil || s.aborting {
		go f()
		return
	}
	t := s.newThread(name, f)
	t.Daemon = daemon
}

// MarkDaemons flags every thread created since `from` as daemon (store workers).
func MarkDaemons(from int) {
	if S == nil {
		return
	}
	for _, t := range S.threads[from:] {
		t.Daemon = true
	}
}

// NumThreads returns the number of threads created so far.
func NumThreads() int {
	if S == nil {
		return 0
	}
	return len(S.threads)
}

// CurID returns the running thread's id (0 in pass-through).
func CurID() int {
	if S == nil || S.cur == nil {
		return 0
	}
	return S.cur.ID
}

// Now returns a logical time stamp (strictly increasing).
func Now() int64 {
	if S == nil {
		return 0
	}
	S.clock++
	return S.clock
}

// Yield is a scheduling point: the calling thread announces an operation that can
// proceed once enabled() holds. It returns when the scheduler has granted it.
func Yield(desc string, enabled func() bool) {
	s := S
	if s == nil || s.aborting || s.quiet > 0 {
		return
	}
	t := s.cur
	t.enabled = enabled
	t.desc = desc
	s.pickNext(false)
	t.enabled = alwaysEnabled
}

var alwaysEnabled = func() bool { return true }

// Step is a scheduling point for an operation that never blocks.
func Step(desc string) { Yield(desc, alwaysEnabled) }

// Quiet runs f with scheduling points disabled (harness inspection of private state
// through shim types must not perturb the schedule).
func Quiet(f func()) {
	if S == nil {
		f()
		return
	}
	S.quiet++
	defer func() { S.quiet-- }()
	f()
}

// JoinAll blocks the caller until every other non-daemon thread has finished.
func JoinAll() {
	s := S
	if s == nil || s.aborting {
		return
	}
	me := s.cur
	Yield("join", func() bool {
		for _, t := range s.threads {
			if t != me && !t.Daemon && !t.finished {
				return false
			}
		}
		return true
	})
}

// Quiesce blocks the caller until no other thread is enabled (background work drained).
func Quiesce() {
	s := S
	if s == nil || s.aborting {
		return
	}
	me := s.cur
	Yield("quiesce", func() bool {
		for _, t := range s.threads {
			if t != me && !t.finished && t.enabled() {
				return false
			}
		}
		return true
	})
}

// pickNext chooses the thread that runs next. Called by the running thread either at
// a scheduling point (exiting=false) or when it has finished (exiting=true).
func (s *Scheduler) pickNext(exiting bool) {
	cur := s.cur
	s.steps++
	if s.MaxSteps > 0 && s.steps > s.MaxSteps {
		s.Horizon = true
		s.abort(cur, exiting)
		return
	}
	// canonical order: running thread first if enabled, then ascending ids
	var en []*Thread
	curEnabled := false
	if !exiting && cur.enabled() {
		curEnabled = true
		en = append(en, cur)
	}
	for _, t := range s.threads {
		if t == cur || t.finished {
			continue
		}
		if t.enabled() {
			en = append(en, t)
		}
	}
	if len(en) == 0 {
		// nothing can run while main has not ended the execution: deadlock
		s.Deadlock = true
		for _, t := range s.threads {
			if !t.finished {
				s.DeadlockAt += fmt.Sprintf("[t%d %s blocked at %s]", t.ID, t.Name, t.desc)
			}
		}
		s.abort(cur, exiting)
		return
	}
	var sh uint64
	if StateHook != nil {
		s.quiet++
		sh = StateHook()
		s.quiet--
	}
	choice := 0
	if len(en) > 1 {
		var key uint64
		if StateHook != nil {
			key = mix(sh, uint64(cur.ID), boolU(exiting))
			for _, t := range s.threads {
				key = mix(key, uint64(t.ID), t.hist, boolU(t.finished), boolU(t.started), strHash(t.desc), uint64(t.nsteps))
			}
		}
		choice = s.chooseKey("sched", len(en), curEnabled, en, key)
	} else if s.KeepLog {
		s.Log = append(s.Log, fmt.Sprintf("t%d:%s", en[0].ID, en[0].desc))
	}
	next := en[choice]
	next.nsteps++
	if StateHook != nil {
		next.hist = mix(next.hist, sh, strHash(next.desc))
	}
	if next == cur {
		return
	}
	s.cur = next
	if !next.started {
		next.started = true
		s.wg.Add(1)
		go s.threadMain(next)
	} else {
		next.wake <- struct{}{}
	}
	if exiting {
		return
	}
	<-cur.wake
	if s.aborting {
		panic(Abort{})
	}
}

func boolU(b bool) uint64 {
	if b {
		return 1
	}
	return 0
}

func (s *Scheduler) choose(kind string, n int, curEnabled bool, en []*Thread) int {
	return s.chooseKey(kind, n, curEnabled, en, 0)
}

func (s *Scheduler) chooseKey(kind string, n int, curEnabled bool, en []*Thread, key uint64) int {
	i := len(s.Trace)
	c := 0
	if i < len(s.prefix) {
		c = s.prefix[i]
		if c < 0 || c >= n {
			s.Diverged = fmt.Sprintf("choice %d out of range at point %d (kind %s, n=%d)", c, i, kind, n)
			c = 0
		}
	}
	p := Point{Kind: kind, N: n, Chosen: c, Cur: curEnabled, Key: key}
	if en != nil {
		p.Enabled = make([]int, len(en))
		for j, t := range en {
			p.Enabled[j] = t.ID
		}
		p.Desc = fmt.Sprintf("t%d:%s", en[c].ID, en[c].desc)
		if s.KeepLog {
			s.Log = append(s.Log, p.Desc)
		}
	}
	s.Trace = append(s.Trace, p)
	return c
}

// Choose asks the explorer for an environment decision with n alternatives; 0 is the
// default. Without a scheduler the answer is always 0 unless EnvHook is set.
func Choose(kind string, n int) int {
	if n <= 1 {
		return 0
	}
	s := S
	if s == nil || s.aborting || s.quiet > 0 {
		if EnvHook != nil {
			return EnvHook(kind, n)
		}
		return 0
	}
	c := s.choose(kind, n, false, nil)
	if s.cur != nil {
		s.cur.hist = mix(s.cur.hist, strHash(kind), uint64(c))
	}
	return c
}

// EnvHook supplies environment decisions in pass-through mode (sequential explorers).
var EnvHook func(kind string, n int) int

// Cost counts the cost of the first upto points of a trace: preemptive context
// switches (switching away from a still-enabled thread), non-default environment
// choices, and non-default choices at blocking switches (the running thread blocked
// or finished and a thread other than the lowest-numbered enabled one was chosen).
func Cost(tr []Point, upto int) (preempt, dev, free int) {
	for i := 0; i < upto && i < len(tr); i++ {
		p := tr[i]
		if p.Chosen == 0 {
			continue
		}
		if p.Kind == "sched" {
			if p.Cur {
				preempt++
			} else {
				free++
			}
		} else {
			dev++
		}
	}
	return
}

// ---------------------------------------------------------------------------
// channels

// Chan is the instrumented replacement of a Go channel.
type Chan[T any] struct {
	real   chan T
	buf    []T
	capn   int
	closed bool
	// rendezvous bookkeeping for unbuffered channels
	recvWaiting int
	sendQ       []T
}

// MakeChan replaces make(chan T, n).
func MakeChan[T any](n int) *Chan[T] {
	return &Chan[T]{real: make(chan T, n), capn: n}
}

func (c *Chan[T]) canSend() bool {
	if c.closed {
		return true // will panic, like Go
	}
	if c.capn > 0 {
		return len(c.buf) < c.capn
	}
	return c.recvWaiting > 0 && len(c.sendQ) == 0
}

func (c *Chan[T]) canRecv() bool {
	return len(c.buf) > 0 || len(c.sendQ) > 0 || c.closed
}

// Send replaces `c <- v`.
func (c *Chan[T]) Send(v T) {
	if !Active() {
		c.real <- v
		return
	}
	Yield("chan.send", c.canSend)
	if c.closed {
		panic("send on closed channel")
	}
	if c.capn > 0 {
		c.buf = append(c.buf, v)
		return
	}
	c.sendQ = append(c.sendQ, v)
}

// Recv2 replaces `v, ok := <-c`.
func (c *Chan[T]) Recv2() (T, bool) {
	if !Active() {
		v, ok := <-c.real
		return v, ok
	}
	c.recvWaiting++
	Yield("chan.recv", c.canRecv)
	c.recvWaiting--
	return c.take()
}

func (c *Chan[T]) take() (T, bool) {
	var zero T
	if len(c.buf) > 0 {
		v := c.buf[0]
		c.buf = c.buf[1:]
		return v, true
	}
	if len(c.sendQ) > 0 {
		v := c.sendQ[0]
		c.sendQ = c.sendQ[1:]
		return v, true
	}
	return zero, false
}

// Recv replaces `<-c`.
func (c *Chan[T]) Recv() T {
	v, _ := c.Recv2()
	return v
}

// Close replaces close(c).
func (c *Chan[T]) Close() {
	if !Active() {
		close(c.real)
		return
	}
	Step("chan.close")
	if c.closed {
		panic("close of closed channel")
	}
	c.closed = true
}

// Len / Cap replace len(c) / cap(c).
func (c *Chan[T]) Len() int {
	if !Active() {
		return len(c.real)
	}
	return len(c.buf)
}
func (c *Chan[T]) Cap() int { return c.capn }

// IsClosed reports whether the channel was closed (canonical state).
func (c *Chan[T]) IsClosed() bool { return c.closed }

// Pending reports buffered items (canonical state).
func (c *Chan[T]) Pending() int { return len(c.buf) + len(c.sendQ) }

// TrySendEnv lets the environment (ticker) place a value without blocking.
func (c *Chan[T]) TrySendEnv(v T) bool {
	if !Active() {
		select {
		case c.real <- v:
			return true
		default:
			return false
		}
	}
	if c.capn > 0 && len(c.buf) < c.capn {
		c.buf = append(c.buf, v)
		return true
	}
	return false
}

// SelCase is one case of a select statement.
type SelCase interface {
	ready() bool
	fire()
	realCase() (dir int, ch any, val any)
	deliver(v any, ok bool)
	begin()
	end()
}

type recvCase[T any] struct {
	c   *Chan[T]
	dst *T
	ok  *bool
}

// RecvCase builds `case <-c:`; RecvCaseTo builds `case v, ok = <-c:`.
func RecvCase[T any](c *Chan[T]) SelCase { return &recvCase[T]{c: c} }
func RecvCaseTo[T any](c *Chan[T], dst *T, ok *bool) SelCase {
	return &recvCase[T]{c: c, dst: dst, ok: ok}
}
func (r *recvCase[T]) ready() bool { return r.c.canRecv() }
func (r *recvCase[T]) begin()      { r.c.recvWaiting++ }
func (r *recvCase[T]) end()        { r.c.recvWaiting-- }
func (r *recvCase[T]) fire() {
	v, ok := r.c.take()
	if r.dst != nil {
		*r.dst = v
	}
	if r.ok != nil {
		*r.ok = ok
	}
}
func (r *recvCase[T]) realCase() (int, any, any) { return 1, r.c.real, nil }
func (r *recvCase[T]) deliver(v any, ok bool) {
	if r.dst != nil && ok {
		*r.dst = v.(T)
	}
	if r.ok != nil {
		*r.ok = ok
	}
}

type sendCase[T any] struct {
	c *Chan[T]
	v T
}

// SendCase builds `case c <- v:`.
func SendCase[T any](c *Chan[T], v T) SelCase { return &sendCase[T]{c: c, v: v} }
func (s *sendCase[T]) ready() bool            { return s.c.canSend() }
func (s *sendCase[T]) begin()                 {}
func (s *sendCase[T]) end()                   {}
func (s *sendCase[T]) fire() {
	if s.c.closed {
		panic("send on closed channel")
	}
	if s.c.capn > 0 {
		s.c.buf = append(s.c.buf, s.v)
	} else {
		s.c.sendQ = append(s.c.sendQ, s.v)
	}
}
func (s *sendCase[T]) realCase() (int, any, any) { return 2, s.c.real, s.v }
func (s *sendCase[T]) deliver(any, bool)         {}

// Select replaces a select statement; it returns the index of the chosen case, or -1
// for default. With several ready cases the explorer chooses.
func Select(hasDefault bool, cases ...SelCase) int {
	if !Active() {
		return realSelect(hasDefault, cases)
	}
	for _, c := range cases {
		c.begin()
	}
	Yield("select", func() bool {
		if hasDefault {
			return true
		}
		for _, c := range cases {
			if c.ready() {
				return true
			}
		}
		return false
	})
	for _, c := range cases {
		c.end()
	}
	var ready []int
	for i, c := range cases {
		if c.ready() {
			ready = append(ready, i)
		}
	}
	if len(ready) == 0 {
		return -1
	}
	k := 0
	if len(ready) > 1 {
		k = Choose("select", len(ready))
	}
	cases[ready[k]].fire()
	return ready[k]
}

// ---------------------------------------------------------------------------

func realSelect(hasDefault bool, cases []SelCase) int {
	rc := make([]reflect.SelectCase, 0, len(cases)+1)
	for _, c := range cases {
		dir, ch, val := c.realCase()
		sc := reflect.SelectCase{Chan: reflect.ValueOf(ch)}
		if dir == 1 {
			sc.Dir = reflect.SelectRecv
		} else {
			sc.Dir = reflect.SelectSend
			sc.Send = reflect.ValueOf(val)
		}
		rc = append(rc, sc)
	}
	if hasDefault {
		rc = append(rc, reflect.SelectCase{Dir: reflect.SelectDefault})
	}
	i, v, ok := reflect.Select(rc)
	if hasDefault && i == len(cases) {
		return -1
	}
	if rc[i].Dir == reflect.SelectRecv {
		var iv any
		if ok {
			iv = v.Interface()
		}
		cases[i].deliver(iv, ok)
	}
	return i
}

// ZeroOf returns the zero value of a channel's element type (select rewriting).
func ZeroOf[T any](c *Chan[T]) T { var z T; return z }
