// Package filepath is the verification shim for path/filepath: the pure path functions
// are passed through; the functions that look at the file system (Glob, Walk, WalkDir,
// EvalSymlinks, Abs) act on the in-memory file system of vos when one is active, so that
// code under test which lists a directory through them sees the same image as through os.
package filepath

import (
	"io/fs"
	rfp "path/filepath"
	"sort"
	"strings"

	vos "github.com/wizenheimer/comet/internal/vrt/vos"
)

const (
	Separator     = rfp.Separator
	ListSeparator = rfp.ListSeparator
)

var (
	ErrBadPattern = rfp.ErrBadPattern
	SkipDir       = rfp.SkipDir
	SkipAll       = rfp.SkipAll
)

type WalkFunc = rfp.WalkFunc

func Base(p string) string                     { return rfp.Base(p) }
func Clean(p string) string                    { return rfp.Clean(p) }
func Dir(p string) string                      { return rfp.Dir(p) }
func Ext(p string) string                      { return rfp.Ext(p) }
func FromSlash(p string) string                { return rfp.FromSlash(p) }
func ToSlash(p string) string                  { return rfp.ToSlash(p) }
func HasPrefix(p, prefix string) bool          { return strings.HasPrefix(p, prefix) }
func IsAbs(p string) bool                      { return rfp.IsAbs(p) }
func IsLocal(p string) bool                    { return rfp.IsLocal(p) }
func Join(elem ...string) string               { return rfp.Join(elem...) }
func Match(pattern, name string) (bool, error) { return rfp.Match(pattern, name) }
func Rel(base, targ string) (string, error)    { return rfp.Rel(base, targ) }
func Split(p string) (string, string)          { return rfp.Split(p) }
func SplitList(p string) []string              { return rfp.SplitList(p) }
func VolumeName(p string) string               { return rfp.VolumeName(p) }

func Abs(p string) (string, error) {
	if vos.FS == nil {
		return rfp.Abs(p)
	}
	if rfp.IsAbs(p) {
		return rfp.Clean(p), nil
	}
	return rfp.Join("/", p), nil
}

func EvalSymlinks(p string) (string, error) {
	if vos.FS == nil {
		return rfp.EvalSymlinks(p)
	}
	if _, err := vos.Stat(p); err != nil {
		return "", err
	}
	return vos.Canon(p), nil
}

func hasMeta(p string) bool { return strings.ContainsAny(p, `*?[\`) }

// Glob follows the algorithm of path/filepath.Glob (the directory part of the pattern is
// a pattern too), reading directories through vos.
func Glob(pattern string) ([]string, error) {
	if vos.FS == nil {
		return rfp.Glob(pattern)
	}
	if _, err := rfp.Match(pattern, ""); err != nil {
		return nil, err
	}
	if !hasMeta(pattern) {
		if _, err := vos.Lstat(pattern); err != nil {
			return nil, nil
		}
		return []string{pattern}, nil
	}
	dir, file := rfp.Split(pattern)
	dir = cleanGlobPath(dir)
	if !hasMeta(dir) {
		return globDir(dir, file, nil)
	}
	if dir == pattern {
		return nil, ErrBadPattern
	}
	m, err := Glob(dir)
	if err != nil {
		return nil, err
	}
	var matches []string
	for _, d := range m {
		matches, err = globDir(d, file, matches)
		if err != nil {
			return nil, err
		}
	}
	return matches, nil
}

func cleanGlobPath(p string) string {
	switch p {
	case "":
		return "."
	case string(Separator):
		return p
	default:
		return p[:len(p)-1]
	}
}

func globDir(dir, pattern string, matches []string) ([]string, error) {
	fi, err := vos.Stat(dir)
	if err != nil || !fi.IsDir() {
		return matches, nil
	}
	ents, err := vos.ReadDir(dir)
	if err != nil {
		return matches, nil
	}
	var names []string
	for _, e := range ents {
		names = append(names, e.Name())
	}
	sort.Strings(names)
	for _, n := range names {
		ok, err := rfp.Match(pattern, n)
		if err != nil {
			return matches, err
		}
		if ok {
			matches = append(matches, rfp.Join(dir, n))
		}
	}
	return matches, nil
}

func WalkDir(root string, fn fs.WalkDirFunc) error {
	if vos.FS == nil {
		return rfp.WalkDir(root, fn)
	}
	info, err := vos.Lstat(root)
	if err != nil {
		err = fn(root, nil, err)
	} else {
		err = walkDir(root, fs.FileInfoToDirEntry(info), fn)
	}
	if err == SkipDir || err == SkipAll {
		return nil
	}
	return err
}

func walkDir(path string, d fs.DirEntry, fn fs.WalkDirFunc) error {
	if err := fn(path, d, nil); err != nil || !d.IsDir() {
		if err == SkipDir && d.IsDir() {
			err = nil
		}
		return err
	}
	ents, err := vos.ReadDir(path)
	if err != nil {
		err = fn(path, d, err)
		if err != nil {
			if err == SkipDir && d.IsDir() {
				err = nil
			}
			return err
		}
	}
	for _, e := range ents {
		if err := walkDir(rfp.Join(path, e.Name()), e, fn); err != nil {
			if err == SkipDir {
				break
			}
			return err
		}
	}
	return nil
}

func Walk(root string, fn WalkFunc) error {
	if vos.FS == nil {
		return rfp.Walk(root, fn)
	}
	return WalkDir(root, func(p string, d fs.DirEntry, err error) error {
		if err != nil {
			return fn(p, nil, err)
		}
		info, ierr := d.Info()
		return fn(p, info, ierr)
	})
}
