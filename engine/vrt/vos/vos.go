//go:build verif

// Package os is the instrumented stand-in for package os: the file-system seam.
// With FS == nil every call goes to the real file system (pass-through); with an
// in-memory MemFS every mutating operation is logged with its payload so that crash
// images (every log prefix x every byte prefix of the in-flight write) can be
// materialised, and faults can be injected by (kind, n-th call).
package os

import (
	"errors"
	"io"
	"io/fs"
	ros "os"
	"path/filepath"
	"sort"
	"strconv"
	"strings"
	rsync "sync"
	"syscall"
	"time"

	"github.com/wizenheimer/comet/internal/vrt"
)

const (
	O_RDONLY = ros.O_RDONLY
	O_WRONLY = ros.O_WRONLY
	O_RDWR   = ros.O_RDWR
	O_APPEND = ros.O_APPEND
	O_CREATE = ros.O_CREATE
	O_EXCL   = ros.O_EXCL
	O_SYNC   = ros.O_SYNC
	O_TRUNC  = ros.O_TRUNC

	ModePerm = ros.ModePerm
	ModeDir  = ros.ModeDir
)

var (
	ErrNotExist = ros.ErrNotExist
	ErrExist    = ros.ErrExist
	ErrClosed   = ros.ErrClosed
	Stderr      = ros.Stderr
	Stdout      = ros.Stdout
	Args        = ros.Args
)

type (
	FileInfo  = fs.FileInfo
	DirEntry  = fs.DirEntry
	FileMode  = fs.FileMode
	PathError = fs.PathError
)

func IsExist(err error) bool    { return ros.IsExist(err) }
func IsNotExist(err error) bool { return ros.IsNotExist(err) }
func Getpid() int               { return ros.Getpid() }
func Getenv(k string) string    { return ros.Getenv(k) }
func TempDir() string           { return ros.TempDir() }
func Exit(c int)                { ros.Exit(c) }

// FS is the active in-memory file system (nil = real file system).
var FS *MemFS

// Op is one logged mutating operation.
type Op struct {
	Kind string // mkdir, create, write, close, remove, rename
	Path string
	Data []byte // write payload
	To   string // rename target
}

type node struct {
	data []byte
}

// MemFS is a minimal POSIX-like in-memory file system.
type MemFS struct {
	mu     rsync.Mutex
	files  map[string]*node
	dirs   map[string]bool
	Log    []Op
	counts map[string]int
	faults map[string]map[int]bool
	// FinePoints makes File.Write/Read/Close scheduling points too.
	FinePoints bool
	hashed     int
	logHash    uint64
	fdLimit    int // -1: no descriptor exhaustion
	fdCalls    int
}

// Aliases: directory aliases of the in-memory file system (alias path -> target directory),
// the equivalent of a symbolic link to a directory: every path below an alias names the
// file below its target. Set by the harness (Alias); resolved by every entry point.
var aliases = map[string]string{}

// Alias makes the directory path alias another name of target ("" removes it).
func Alias(alias, target string) {
	alias = filepath.Clean(alias)
	if target == "" {
		delete(aliases, alias)
		return
	}
	aliases[alias] = filepath.Clean(target)
}

// ResetAliases forgets every alias (between executions).
func ResetAliases() { aliases = map[string]string{} }

// Canon cleans a path and replaces a leading alias by its target.
func Canon(p string) string {
	p = filepath.Clean(p)
	if FS == nil || len(aliases) == 0 {
		return p
	}
	for a, t := range aliases {
		if p == a {
			return t
		}
		if strings.HasPrefix(p, a+"/") {
			return t + p[len(a):]
		}
	}
	return p
}

func NewMemFS() *MemFS {
	return &MemFS{files: map[string]*node{}, dirs: map[string]bool{"/": true}, counts: map[string]int{}, faults: map[string]map[int]bool{}, fdLimit: -1}
}

// FailOn makes the n-th (1-based, counted from now on per kind) call of kind fail.
func (m *MemFS) FailOn(kind string, nth int) {
	m.mu.Lock()
	defer m.mu.Unlock()
	if m.faults[kind] == nil {
		m.faults[kind] = map[int]bool{}
	}
	m.faults[kind][m.counts[kind]+nth] = true
}

// Count reports how many calls of kind have been made.
func (m *MemFS) Count(kind string) int {
	m.mu.Lock()
	defer m.mu.Unlock()
	return m.counts[kind]
}

var errInjected = &fs.PathError{Op: "injected", Path: "", Err: syscall.EIO}

func (m *MemFS) enter(kind, path string) error {
	if vrt.Active() {
		vrt.Step("os." + kind)
	}
	m.mu.Lock()
	defer m.mu.Unlock()
	m.counts[kind]++
	b := filepath.Base(path)
	if i := strings.IndexByte(b, '_'); i > 0 {
		m.counts[kind+":"+b[:i]]++
	}
	if m.faults[kind][m.counts[kind]] {
		return &fs.PathError{Op: kind, Path: path, Err: syscall.EIO}
	}
	switch kind {
	case "create", "open", "openfile", "readdir":
		// calls that need a new file descriptor: once the process has run out of them
		// (ExhaustDescriptorsAfter) every such call fails until the faults are cleared
		if m.fdLimit >= 0 {
			m.fdCalls++
			if m.fdCalls > m.fdLimit {
				return &fs.PathError{Op: kind, Path: path, Err: syscall.EMFILE}
			}
		}
	}
	return nil
}

// ExhaustDescriptorsAfter: the next n calls that need a file descriptor (create, open,
// openfile, readdir - ReadFile and WriteFile open their file too) succeed, every later one
// fails with EMFILE, until ClearFaults. A persistent fault, unlike FailOn.
func (m *MemFS) ExhaustDescriptorsAfter(n int) {
	m.mu.Lock()
	defer m.mu.Unlock()
	m.fdLimit, m.fdCalls = n, 0
}

// LogHash summarises the append-only operation log (length + kinds + paths + payload sizes).
func (m *MemFS) LogHash() string {
	m.mu.Lock()
	defer m.mu.Unlock()
	for ; m.hashed < len(m.Log); m.hashed++ {
		op := m.Log[m.hashed]
		for _, s := range []string{op.Kind, op.Path, op.To} {
			for i := 0; i < len(s); i++ {
				m.logHash = (m.logHash ^ uint64(s[i])) * 1099511628211
			}
		}
		m.logHash = (m.logHash ^ uint64(len(op.Data))) * 1099511628211
	}
	return strconv.FormatUint(m.logHash, 16) + "/" + strconv.Itoa(len(m.Log))
}

// ClearFaults forgets every pending fault.
func (m *MemFS) ClearFaults() {
	m.mu.Lock()
	defer m.mu.Unlock()
	m.faults = map[string]map[int]bool{}
	m.fdLimit = -1
}

// Exists reports whether a file exists.
func (m *MemFS) Exists(path string) bool {
	m.mu.Lock()
	defer m.mu.Unlock()
	_, ok := m.files[Canon(path)]
	return ok
}

// Snapshot returns a deep copy of the file contents and directories.
func (m *MemFS) Snapshot() *MemFS {
	m.mu.Lock()
	defer m.mu.Unlock()
	c := NewMemFS()
	copies := map[*node]*node{} // hard links stay links in the copy
	for p, n := range m.files {
		if copies[n] == nil {
			copies[n] = &node{data: append([]byte(nil), n.data...)}
		}
		c.files[p] = copies[n]
	}
	for d := range m.dirs {
		c.dirs[d] = true
	}
	return c
}

// Files returns path -> content (copy), sorted access via Paths.
func (m *MemFS) Files() map[string][]byte {
	m.mu.Lock()
	defer m.mu.Unlock()
	out := map[string][]byte{}
	for p, n := range m.files {
		out[p] = append([]byte(nil), n.data...)
	}
	return out
}

func (m *MemFS) Paths() []string {
	m.mu.Lock()
	defer m.mu.Unlock()
	out := make([]string, 0, len(m.files))
	for p := range m.files {
		out = append(out, p)
	}
	sort.Strings(out)
	return out
}

// ApplyOp applies a logged operation to a file system image (crash image building).
// A write is applied to the file currently at the path (comet never writes through a
// handle whose path was removed or renamed).
func (m *MemFS) ApplyOp(op Op, tornBytes int) {
	m.mu.Lock()
	defer m.mu.Unlock()
	switch op.Kind {
	case "mkdir":
		m.dirs[op.Path] = true
	case "create":
		if n := m.files[op.Path]; n != nil {
			n.data = nil // truncation of an existing file (seen through every hard link)
		} else {
			m.files[op.Path] = &node{}
		}
	case "write":
		n := m.files[op.Path]
		if n == nil {
			return
		}
		d := op.Data
		if tornBytes >= 0 && tornBytes < len(d) {
			d = d[:tornBytes]
		}
		n.data = append(n.data, d...)
	case "remove":
		delete(m.files, op.Path)
	case "rename":
		if n := m.files[op.Path]; n != nil {
			delete(m.files, op.Path)
			m.files[op.To] = n
		}
	case "link":
		if n := m.files[op.Path]; n != nil && m.files[op.To] == nil {
			m.files[op.To] = n
		}
	}
}

// WriteFileRaw / RemoveRaw manipulate the image without logging (harness use).
func (m *MemFS) WriteFileRaw(path string, data []byte) {
	m.mu.Lock()
	defer m.mu.Unlock()
	path = Canon(path)
	m.mkdirAllLocked(filepath.Dir(path))
	m.files[path] = &node{data: append([]byte(nil), data...)}
}
func (m *MemFS) RemoveRaw(path string) {
	m.mu.Lock()
	defer m.mu.Unlock()
	delete(m.files, Canon(path))
}

func (m *MemFS) mkdirAllLocked(p string) {
	for p != "/" && p != "." && p != "" {
		m.dirs[p] = true
		p = filepath.Dir(p)
	}
}

// ---------------------------------------------------------------------------

// File is the shim file handle.
type File struct {
	real   *ros.File
	fs     *MemFS
	path   string
	n      *node
	pos    int
	wr, rd bool
	app    bool
	closed bool
}

func (f *File) Name() string {
	if f.real != nil {
		return f.real.Name()
	}
	return f.path
}

func (f *File) Write(b []byte) (int, error) {
	if f.real != nil {
		return f.real.Write(b)
	}
	if f.fs.FinePoints {
		if err := f.fs.enter("write", f.path); err != nil {
			return 0, err
		}
	} else {
		f.fs.mu.Lock()
		f.fs.counts["write"]++
		fail := f.fs.faults["write"][f.fs.counts["write"]]
		f.fs.mu.Unlock()
		if fail {
			return 0, &fs.PathError{Op: "write", Path: f.path, Err: syscall.EIO}
		}
	}
	f.fs.mu.Lock()
	defer f.fs.mu.Unlock()
	if f.closed {
		return 0, &fs.PathError{Op: "write", Path: f.path, Err: fs.ErrClosed}
	}
	if !f.wr {
		return 0, &fs.PathError{Op: "write", Path: f.path, Err: syscall.EBADF}
	}
	// comet only appends; positional overwrite is supported for completeness
	if f.app || f.pos >= len(f.n.data) {
		f.n.data = append(f.n.data, b...)
		f.pos = len(f.n.data)
	} else {
		end := f.pos + len(b)
		if end > len(f.n.data) {
			f.n.data = append(f.n.data[:f.pos], b...)
		} else {
			copy(f.n.data[f.pos:], b)
		}
		f.pos = end
	}
	f.fs.Log = append(f.fs.Log, Op{Kind: "write", Path: f.path, Data: append([]byte(nil), b...)})
	return len(b), nil
}

func (f *File) WriteString(s string) (int, error) {
	if f.real != nil {
		return f.real.WriteString(s)
	}
	if err := f.fs.enter("writestring", f.path); err != nil {
		return 0, err
	}
	return f.Write([]byte(s))
}

func (f *File) Read(b []byte) (int, error) {
	if f.real != nil {
		return f.real.Read(b)
	}
	f.fs.mu.Lock()
	defer f.fs.mu.Unlock()
	if f.closed {
		return 0, &fs.PathError{Op: "read", Path: f.path, Err: fs.ErrClosed}
	}
	if f.pos >= len(f.n.data) {
		return 0, io.EOF
	}
	n := copy(b, f.n.data[f.pos:])
	f.pos += n
	return n, nil
}

func (f *File) Close() error {
	if f.real != nil {
		return f.real.Close()
	}
	f.fs.mu.Lock()
	f.fs.counts["close"]++
	fail := f.fs.faults["close"][f.fs.counts["close"]]
	if f.closed {
		f.fs.mu.Unlock()
		return &fs.PathError{Op: "close", Path: f.path, Err: fs.ErrClosed}
	}
	f.closed = true
	if f.wr {
		f.fs.Log = append(f.fs.Log, Op{Kind: "close", Path: f.path})
	}
	f.fs.mu.Unlock()
	if fail {
		return &fs.PathError{Op: "close", Path: f.path, Err: syscall.EIO}
	}
	return nil
}

func (f *File) Sync() error {
	if f.real != nil {
		return f.real.Sync()
	}
	return nil
}

func (f *File) Stat() (FileInfo, error) {
	if f.real != nil {
		return f.real.Stat()
	}
	return memInfo{name: filepath.Base(f.path), size: int64(len(f.n.data)), n: f.n}, nil
}

func (f *File) Seek(off int64, whence int) (int64, error) {
	if f.real != nil {
		return f.real.Seek(off, whence)
	}
	switch whence {
	case io.SeekStart:
		f.pos = int(off)
	case io.SeekCurrent:
		f.pos += int(off)
	case io.SeekEnd:
		f.pos = len(f.n.data) + int(off)
	}
	return int64(f.pos), nil
}

type memInfo struct {
	name string
	size int64
	dir  bool
	n    *node // identity of the file (hard links share it); nil for directories
}

func (i memInfo) Name() string { return i.name }
func (i memInfo) Size() int64  { return i.size }
func (i memInfo) Mode() fs.FileMode {
	if i.dir {
		return fs.ModeDir | 0755
	}
	return 0644
}
func (i memInfo) ModTime() time.Time         { return time.Time{} }
func (i memInfo) IsDir() bool                { return i.dir }
func (i memInfo) Sys() any                   { return nil }
func (i memInfo) Type() fs.FileMode          { return i.Mode().Type() }
func (i memInfo) Info() (fs.FileInfo, error) { return i, nil }

// ---------------------------------------------------------------------------

func MkdirAll(path string, perm FileMode) error {
	m := FS
	if m == nil {
		return ros.MkdirAll(path, perm)
	}
	path = Canon(path)
	if err := m.enter("mkdirall", path); err != nil {
		return err
	}
	m.mu.Lock()
	defer m.mu.Unlock()
	if _, isFile := m.files[path]; isFile {
		return &fs.PathError{Op: "mkdir", Path: path, Err: syscall.ENOTDIR}
	}
	if !m.dirs[path] {
		m.mkdirAllLocked(path)
		m.Log = append(m.Log, Op{Kind: "mkdir", Path: path})
	}
	return nil
}

func Mkdir(path string, perm FileMode) error { return MkdirAll(path, perm) }

func OpenFile(name string, flag int, perm FileMode) (*File, error) {
	m := FS
	if m == nil {
		f, err := ros.OpenFile(name, flag, perm)
		if err != nil {
			return nil, err
		}
		return &File{real: f}, nil
	}
	name = Canon(name)
	if err := m.enter("openfile", name); err != nil {
		return nil, err
	}
	return m.open(name, flag)
}

func (m *MemFS) open(name string, flag int) (*File, error) {
	m.mu.Lock()
	defer m.mu.Unlock()
	n, exists := m.files[name]
	if m.dirs[name] {
		if flag&(O_WRONLY|O_RDWR|O_CREATE) != 0 {
			return nil, &fs.PathError{Op: "open", Path: name, Err: syscall.EISDIR}
		}
		return &File{fs: m, path: name, n: &node{}, rd: true}, nil
	}
	if flag&O_CREATE != 0 {
		if exists && flag&O_EXCL != 0 {
			return nil, &fs.PathError{Op: "open", Path: name, Err: fs.ErrExist}
		}
		if !m.dirs[filepath.Dir(name)] {
			return nil, &fs.PathError{Op: "open", Path: name, Err: fs.ErrNotExist}
		}
		if !exists {
			n = &node{}
			m.files[name] = n
			m.Log = append(m.Log, Op{Kind: "create", Path: name})
		} else if flag&O_TRUNC != 0 {
			// truncate = replace content: logged as create of an empty file
			n.data = nil
			m.Log = append(m.Log, Op{Kind: "create", Path: name})
		}
	} else if !exists {
		return nil, &fs.PathError{Op: "open", Path: name, Err: fs.ErrNotExist}
	} else if flag&O_TRUNC != 0 {
		n.data = nil
		m.Log = append(m.Log, Op{Kind: "create", Path: name})
	}
	acc := flag & (O_RDONLY | O_WRONLY | O_RDWR)
	f := &File{fs: m, path: name, n: n, wr: acc == O_WRONLY || acc == O_RDWR, rd: acc == O_RDONLY || acc == O_RDWR, app: flag&O_APPEND != 0}
	return f, nil
}

func Create(name string) (*File, error) {
	m := FS
	if m == nil {
		f, err := ros.Create(name)
		if err != nil {
			return nil, err
		}
		return &File{real: f}, nil
	}
	name = Canon(name)
	if err := m.enter("create", name); err != nil {
		return nil, err
	}
	return m.open(name, O_RDWR|O_CREATE|O_TRUNC)
}

func Open(name string) (*File, error) {
	m := FS
	if m == nil {
		f, err := ros.Open(name)
		if err != nil {
			return nil, err
		}
		return &File{real: f}, nil
	}
	name = Canon(name)
	if err := m.enter("open", name); err != nil {
		return nil, err
	}
	return m.open(name, O_RDONLY)
}

func Remove(name string) error {
	m := FS
	if m == nil {
		return ros.Remove(name)
	}
	name = Canon(name)
	if err := m.enter("remove", name); err != nil {
		return err
	}
	m.mu.Lock()
	defer m.mu.Unlock()
	if _, ok := m.files[name]; ok {
		delete(m.files, name)
		m.Log = append(m.Log, Op{Kind: "remove", Path: name})
		return nil
	}
	if m.dirs[name] {
		delete(m.dirs, name)
		return nil
	}
	return &fs.PathError{Op: "remove", Path: name, Err: fs.ErrNotExist}
}

func RemoveAll(name string) error {
	m := FS
	if m == nil {
		return ros.RemoveAll(name)
	}
	name = Canon(name)
	if err := m.enter("removeall", name); err != nil {
		return err
	}
	m.mu.Lock()
	defer m.mu.Unlock()
	for p := range m.files {
		if p == name || strings.HasPrefix(p, name+"/") {
			delete(m.files, p)
			m.Log = append(m.Log, Op{Kind: "remove", Path: p})
		}
	}
	for d := range m.dirs {
		if d == name || strings.HasPrefix(d, name+"/") {
			delete(m.dirs, d)
		}
	}
	return nil
}

func Rename(from, to string) error {
	m := FS
	if m == nil {
		return ros.Rename(from, to)
	}
	from, to = Canon(from), Canon(to)
	if err := m.enter("rename", from); err != nil {
		return err
	}
	m.mu.Lock()
	defer m.mu.Unlock()
	n, ok := m.files[from]
	if !ok {
		return &fs.PathError{Op: "rename", Path: from, Err: fs.ErrNotExist}
	}
	delete(m.files, from)
	m.files[to] = n
	m.Log = append(m.Log, Op{Kind: "rename", Path: from, To: to})
	return nil
}

func Stat(name string) (FileInfo, error) {
	m := FS
	if m == nil {
		return ros.Stat(name)
	}
	name = Canon(name)
	if err := m.enter("stat", name); err != nil {
		return nil, err
	}
	m.mu.Lock()
	defer m.mu.Unlock()
	if n, ok := m.files[name]; ok {
		return memInfo{name: filepath.Base(name), size: int64(len(n.data)), n: n}, nil
	}
	if m.dirs[name] {
		return memInfo{name: filepath.Base(name), dir: true}, nil
	}
	return nil, &fs.PathError{Op: "stat", Path: name, Err: fs.ErrNotExist}
}

func Lstat(name string) (FileInfo, error) { return Stat(name) }

func ReadDir(name string) ([]DirEntry, error) {
	m := FS
	if m == nil {
		return ros.ReadDir(name)
	}
	name = Canon(name)
	if err := m.enter("readdir", name); err != nil {
		return nil, err
	}
	m.mu.Lock()
	defer m.mu.Unlock()
	if !m.dirs[name] {
		return nil, &fs.PathError{Op: "readdir", Path: name, Err: fs.ErrNotExist}
	}
	var out []DirEntry
	for p, n := range m.files {
		if filepath.Dir(p) == name {
			out = append(out, memInfo{name: filepath.Base(p), size: int64(len(n.data)), n: n})
		}
	}
	for d := range m.dirs {
		if d != name && filepath.Dir(d) == name {
			out = append(out, memInfo{name: filepath.Base(d), dir: true})
		}
	}
	sort.Slice(out, func(i, j int) bool { return out[i].Name() < out[j].Name() })
	return out, nil
}

func ReadFile(name string) ([]byte, error) {
	m := FS
	if m == nil {
		return ros.ReadFile(name)
	}
	f, err := Open(name)
	if err != nil {
		return nil, err
	}
	defer f.Close()
	return io.ReadAll(f)
}

func WriteFile(name string, data []byte, perm FileMode) error {
	m := FS
	if m == nil {
		return ros.WriteFile(name, data, perm)
	}
	f, err := OpenFile(name, O_WRONLY|O_CREATE|O_TRUNC, perm)
	if err != nil {
		return err
	}
	_, err = f.Write(data)
	if cerr := f.Close(); err == nil {
		err = cerr
	}
	return err
}

func MkdirTemp(dir, pattern string) (string, error) {
	if FS == nil {
		return ros.MkdirTemp(dir, pattern)
	}
	return "", errors.New("vos: MkdirTemp unsupported in memory mode")
}

// ---------------------------------------------------------------------------
// further pass-throughs so that edits to comet that use more of package os still
// build; in memory mode they act on the in-memory image where that is meaningful.

var (
	ErrPermission       = ros.ErrPermission
	ErrInvalid          = ros.ErrInvalid
	ErrDeadlineExceeded = ros.ErrDeadlineExceeded
	Stdin               = ros.Stdin
)

type (
	Signal       = ros.Signal
	ProcAttr     = ros.ProcAttr
	Process      = ros.Process
	LinkError    = ros.LinkError
	SyscallError = ros.SyscallError
)

func IsPermission(err error) bool             { return ros.IsPermission(err) }
func IsTimeout(err error) bool                { return ros.IsTimeout(err) }
func LookupEnv(k string) (string, bool)       { return ros.LookupEnv(k) }
func Setenv(k, v string) error                { return ros.Setenv(k, v) }
func Unsetenv(k string) error                 { return ros.Unsetenv(k) }
func Environ() []string                       { return ros.Environ() }
func ExpandEnv(s string) string               { return ros.ExpandEnv(s) }
func Hostname() (string, error)               { return ros.Hostname() }
func Getwd() (string, error)                  { return ros.Getwd() }
func Getuid() int                             { return ros.Getuid() }
func Getppid() int                            { return ros.Getppid() }
func UserHomeDir() (string, error)            { return ros.UserHomeDir() }
func UserCacheDir() (string, error)           { return ros.UserCacheDir() }
func Executable() (string, error)             { return ros.Executable() }
func Getpagesize() int                        { return ros.Getpagesize() }
func SameFile(a, b FileInfo) bool {
	if x, ok := a.(memInfo); ok {
		y, ok := b.(memInfo)
		return ok && x.n != nil && x.n == y.n
	}
	return ros.SameFile(a, b)
}
func NewSyscallError(s string, e error) error { return ros.NewSyscallError(s, e) }

func Chmod(name string, mode FileMode) error {
	if FS == nil {
		return ros.Chmod(name, mode)
	}
	if !FS.Exists(name) {
		return &fs.PathError{Op: "chmod", Path: name, Err: fs.ErrNotExist}
	}
	return nil
}

func Chtimes(name string, a, m time.Time) error {
	if FS == nil {
		return ros.Chtimes(name, a, m)
	}
	return nil
}

func Truncate(name string, size int64) error {
	m := FS
	if m == nil {
		return ros.Truncate(name, size)
	}
	name = Canon(name)
	if err := m.enter("truncate", name); err != nil {
		return err
	}
	m.mu.Lock()
	defer m.mu.Unlock()
	n, ok := m.files[name]
	if !ok {
		return &fs.PathError{Op: "truncate", Path: name, Err: fs.ErrNotExist}
	}
	old := n.data
	if int(size) <= len(old) {
		n.data = append([]byte(nil), old[:size]...)
	} else {
		n.data = append(append([]byte(nil), old...), make([]byte, int(size)-len(old))...)
	}
	// logged as re-creation with the new content (crash images stay exact)
	m.Log = append(m.Log, Op{Kind: "create", Path: name}, Op{Kind: "write", Path: name, Data: append([]byte(nil), n.data...)})
	return nil
}

func CreateTemp(dir, pattern string) (*File, error) {
	if FS == nil {
		f, err := ros.CreateTemp(dir, pattern)
		if err != nil {
			return nil, err
		}
		return &File{real: f}, nil
	}
	if dir == "" {
		dir = "/tmp"
		FS.mu.Lock()
		FS.mkdirAllLocked(dir)
		FS.mu.Unlock()
	}
	FS.mu.Lock()
	FS.counts["createtemp"]++
	n := FS.counts["createtemp"]
	FS.mu.Unlock()
	name := strings.Replace(pattern, "*", "", 1)
	if i := strings.LastIndex(pattern, "*"); i >= 0 {
		name = pattern[:i] + "tmp" + strconv.Itoa(n) + pattern[i+1:]
	} else {
		name = pattern + "tmp" + strconv.Itoa(n)
	}
	return OpenFile(filepath.Join(dir, name), O_RDWR|O_CREATE|O_EXCL, 0600)
}

func Symlink(o, n string) error {
	if FS == nil {
		return ros.Symlink(o, n)
	}
	return errors.New("vos: Symlink unsupported in memory mode")
}

// Link makes a hard link: both names refer to the same node from now on (SameFile reports
// it), removing one name leaves the other, link(2) refuses an existing new name with EEXIST.
func Link(o, n string) error {
	m := FS
	if m == nil {
		return ros.Link(o, n)
	}
	o, n = Canon(o), Canon(n)
	if err := m.enter("link", o); err != nil {
		return &ros.LinkError{Op: "link", Old: o, New: n, Err: syscall.EIO}
	}
	m.mu.Lock()
	defer m.mu.Unlock()
	src, ok := m.files[o]
	if !ok {
		return &ros.LinkError{Op: "link", Old: o, New: n, Err: syscall.ENOENT}
	}
	if _, exists := m.files[n]; exists || m.dirs[n] {
		return &ros.LinkError{Op: "link", Old: o, New: n, Err: syscall.EEXIST}
	}
	if !m.dirs[filepath.Dir(n)] {
		return &ros.LinkError{Op: "link", Old: o, New: n, Err: syscall.ENOENT}
	}
	m.files[n] = src
	m.Log = append(m.Log, Op{Kind: "link", Path: o, To: n})
	return nil
}

func Readlink(n string) (string, error) {
	if FS == nil {
		return ros.Readlink(n)
	}
	return "", errors.New("vos: Readlink unsupported in memory mode")
}

func DirFS(dir string) fs.FS { return ros.DirFS(dir) }

func (f *File) ReadAt(b []byte, off int64) (int, error) {
	if f.real != nil {
		return f.real.ReadAt(b, off)
	}
	f.fs.mu.Lock()
	defer f.fs.mu.Unlock()
	if int(off) >= len(f.n.data) {
		return 0, io.EOF
	}
	n := copy(b, f.n.data[off:])
	if n < len(b) {
		return n, io.EOF
	}
	return n, nil
}

func (f *File) WriteAt(b []byte, off int64) (int, error) {
	if f.real != nil {
		return f.real.WriteAt(b, off)
	}
	f.pos = int(off)
	return f.Write(b)
}

func (f *File) Truncate(size int64) error {
	if f.real != nil {
		return f.real.Truncate(size)
	}
	return Truncate(f.path, size)
}

func (f *File) Fd() uintptr {
	if f.real != nil {
		return f.real.Fd()
	}
	return ^uintptr(0)
}

func (f *File) Chmod(mode FileMode) error {
	if f.real != nil {
		return f.real.Chmod(mode)
	}
	return nil
}

func (f *File) ReadDir(n int) ([]DirEntry, error) {
	if f.real != nil {
		return f.real.ReadDir(n)
	}
	return ReadDir(f.path)
}

func (f *File) Readdirnames(n int) ([]string, error) {
	if f.real != nil {
		return f.real.Readdirnames(n)
	}
	es, err := ReadDir(f.path)
	var out []string
	for _, e := range es {
		out = append(out, e.Name())
	}
	return out, err
}

func (f *File) ReadFrom(r io.Reader) (int64, error) {
	if f.real != nil {
		return f.real.ReadFrom(r)
	}
	b, err := io.ReadAll(r)
	if err != nil {
		return 0, err
	}
	n, err := f.Write(b)
	return int64(n), err
}
