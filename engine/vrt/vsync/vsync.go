//go:build verif

// Package sync is the instrumented stand-in for the standard sync package. Every
// type embeds the real primitive and performs the real operation once the scheduler
// has granted it, so that (a) the race detector sees exactly the program's own
// synchronisation and (b) threads unwinding at teardown find consistent lock state.
package sync

import (
	rsync "sync"

	"github.com/wizenheimer/comet/internal/vrt"
)

type Locker = rsync.Locker

// Mutex ------------------------------------------------------------------------

// PostAcquirePoints adds a scheduling point right AFTER every lock acquisition. With
// blocking locks only, points before the acquisitions are enough (a thread that wants a
// held lock simply waits); TryLock / TryRLock make the state of a lock observable without
// waiting, so another thread must be able to run while the lock is held. The instrumenter
// sets it (in an init of the generated file) iff the code under test calls TryLock or
// TryRLock anywhere, so that builds without them keep the smaller schedule space.
var PostAcquirePoints bool

type Mutex struct {
	real rsync.Mutex
	held bool
}

func (m *Mutex) Lock() {
	if vrt.Active() {
		vrt.Yield("mutex.lock", func() bool { return !m.held })
		m.held = true
		if PostAcquirePoints {
			vrt.Step("mutex.acquired")
		}
	}
	m.real.Lock()
}

func (m *Mutex) Unlock() {
	if vrt.Active() {
		m.held = false
	}
	m.real.Unlock()
}

func (m *Mutex) TryLock() bool {
	if vrt.Active() {
		vrt.Step("mutex.trylock")
		if m.held {
			return false
		}
		m.held = true
		m.real.Lock()
		return true
	}
	return m.real.TryLock()
}

// RWMutex ----------------------------------------------------------------------

type RWMutex struct {
	real    rsync.RWMutex
	writer  bool
	readers int
	waiting int // writers that have announced themselves (Go prefers writers)
}

func (m *RWMutex) Lock() {
	if vrt.Active() {
		// step 1: announce (from now on new readers are held back, as in Go)
		vrt.Step("rw.lock.announce")
		m.waiting++
		// step 2: acquire
		vrt.Yield("rw.lock", func() bool { return !m.writer && m.readers == 0 })
		m.waiting--
		m.writer = true
		if PostAcquirePoints {
			vrt.Step("rw.acquired")
		}
	}
	m.real.Lock()
}

func (m *RWMutex) Unlock() {
	if vrt.Active() {
		m.writer = false
	}
	m.real.Unlock()
}

func (m *RWMutex) RLock() {
	if vrt.Active() {
		vrt.Yield("rw.rlock", func() bool { return !m.writer && m.waiting == 0 })
		m.readers++
		if PostAcquirePoints {
			vrt.Step("rw.racquired")
		}
	}
	m.real.RLock()
}

func (m *RWMutex) RUnlock() {
	if vrt.Active() {
		m.readers--
	}
	m.real.RUnlock()
}

// TryLock / TryRLock: a scheduling point, then the answer the model state gives (Go's
// TryLock fails while readers or a writer hold the lock; TryRLock fails while a writer
// holds it or is waiting).
func (m *RWMutex) TryLock() bool {
	if vrt.Active() {
		vrt.Step("rw.trylock")
		if m.writer || m.readers > 0 {
			return false
		}
		m.writer = true
		m.real.Lock()
		return true
	}
	return m.real.TryLock()
}

func (m *RWMutex) TryRLock() bool {
	if vrt.Active() {
		vrt.Step("rw.tryrlock")
		if m.writer || m.waiting > 0 {
			return false
		}
		m.readers++
		m.real.RLock()
		return true
	}
	return m.real.TryRLock()
}

func (m *RWMutex) RLocker() Locker { return (*rlocker)(m) }

type rlocker RWMutex

func (r *rlocker) Lock()   { (*RWMutex)(r).RLock() }
func (r *rlocker) Unlock() { (*RWMutex)(r).RUnlock() }

// State exposes the model state for canonical dumps.
func (m *RWMutex) State() (writer bool, readers, waiting int) { return m.writer, m.readers, m.waiting }

// WaitGroup --------------------------------------------------------------------

type WaitGroup struct {
	real rsync.WaitGroup
	n    int
}

func (w *WaitGroup) Add(d int) {
	if vrt.Active() {
		w.n += d
		if w.n < 0 {
			panic("sync: negative WaitGroup counter")
		}
	}
	w.real.Add(d)
}

func (w *WaitGroup) Done() { w.Add(-1) }

func (w *WaitGroup) Wait() {
	if vrt.Active() {
		vrt.Yield("wg.wait", func() bool { return w.n == 0 })
	}
	w.real.Wait()
}

// Go mirrors WaitGroup.Go of newer Go versions.
func (w *WaitGroup) Go(f func()) {
	w.Add(1)
	vrt.Go(func() {
		defer w.Done()
		f()
	})
}

// Once -------------------------------------------------------------------------

type Once struct {
	m    Mutex
	done bool
}

func (o *Once) Do(f func()) {
	o.m.Lock()
	defer o.m.Unlock()
	if !o.done {
		o.done = true
		f()
	}
}

// Pool -------------------------------------------------------------------------

// Pool is a deterministic LIFO stack when vrt.DeterministicPools is set (it then
// always hands back the most recently returned object, which maximises the chance
// that a recycling bug is observed) and the real sync.Pool otherwise.
type Pool struct {
	New   func() any
	real  rsync.Pool
	mu    rsync.Mutex
	stack []any
}

func (p *Pool) Get() any {
	if vrt.DeterministicPools {
		if vrt.Active() {
			vrt.Step("pool.get")
		}
		p.mu.Lock()
		if n := len(p.stack); n > 0 {
			x := p.stack[n-1]
			p.stack = p.stack[:n-1]
			p.mu.Unlock()
			return x
		}
		p.mu.Unlock()
		if p.New != nil {
			return p.New()
		}
		return nil
	}
	if x := p.real.Get(); x != nil {
		return x
	}
	if p.New != nil {
		return p.New()
	}
	return nil
}

func (p *Pool) Put(x any) {
	if vrt.DeterministicPools {
		p.mu.Lock()
		p.stack = append(p.stack, x)
		p.mu.Unlock()
		return
	}
	p.real.Put(x)
}

// Contents returns the pooled objects (canonical dumps).
func (p *Pool) Contents() []any {
	p.mu.Lock()
	defer p.mu.Unlock()
	return append([]any(nil), p.stack...)
}

// Reset empties the deterministic stack (between executions).
func (p *Pool) Reset() {
	p.mu.Lock()
	p.stack = nil
	p.mu.Unlock()
}

// Map / Cond are not used by comet; provided as aliases so that new code compiles.
type Map = rsync.Map
type Cond = rsync.Cond

func NewCond(l Locker) *Cond { return rsync.NewCond(l) }

func OnceFunc(f func()) func() { return rsync.OnceFunc(f) }
