// Command instr produces the instrumented scratch copy of the comet package.
//
//	instr -src /repo -dst /scratch [-l2] [-tests]
//
// L1 (always): import-path redirection of sync, sync/atomic, math/rand/v2 and os to
// the same-named shim packages under internal/vrt.
// L2 (-l2): in every file that contains a go statement, a channel type, a channel
// operation or a select statement, these are rewritten to calls into internal/vrt and
// the file's import of time is redirected to the vtime shim.
//
// The rewrite is a list of non-overlapping text edits computed from the AST, so that
// every byte that is not part of a rewritten construct is copied verbatim.
package main

import (
	"flag"
	"fmt"
	"go/ast"
	"go/parser"
	"go/token"
	"os"
	"path/filepath"
	"sort"
	"strings"
)

const vrtPath = "github.com/wizenheimer/comet/internal/vrt"

var l1 = map[string]string{
	`"sync"`:         `"` + vrtPath + `/vsync"`,
	`"sync/atomic"`:  `"` + vrtPath + `/vatomic"`,
	`"math/rand/v2"`: `"` + vrtPath + `/vrand"`,
	`"os"`:           `"` + vrtPath + `/vos"`,
	// packages that reach the file system behind os's back
	`"path/filepath"`: `"` + vrtPath + `/vfilepath"`,
	`"io/ioutil"`:     `"` + vrtPath + `/vioutil"`,
}

type edit struct {
	start, end int
	text       string
}

func main() {
	src := flag.String("src", "/repo", "repository root")
	dst := flag.String("dst", "", "scratch directory")
	l2 := flag.Bool("l2", false, "rewrite goroutines / channels / select")
	tests := flag.Bool("tests", false, "also copy *_test.go (uninstrumented)")
	flag.Parse()
	if *dst == "" {
		fmt.Fprintln(os.Stderr, "instr: -dst required")
		os.Exit(2)
	}
	entries, err := os.ReadDir(*src)
	if err != nil {
		fail("%v", err)
	}
	var files []string
	for _, e := range entries {
		n := e.Name()
		if e.IsDir() || !strings.HasSuffix(n, ".go") {
			continue
		}
		if strings.HasSuffix(n, "_test.go") {
			if *tests {
				copyFile(filepath.Join(*src, n), filepath.Join(*dst, n))
			}
			continue
		}
		files = append(files, n)
	}
	for _, n := range []string{"go.mod", "go.sum"} {
		copyFile(filepath.Join(*src, n), filepath.Join(*dst, n))
	}
	fset := token.NewFileSet()
	parsed := map[string]*ast.File{}
	srcs := map[string][]byte{}
	for _, n := range files {
		b, err := os.ReadFile(filepath.Join(*src, n))
		if err != nil {
			fail("%v", err)
		}
		f, err := parser.ParseFile(fset, n, b, parser.ParseComments)
		if err != nil {
			fail("INSTRUMENTATION-PARSE %v", err)
		}
		parsed[n] = f
		srcs[n] = b
	}
	// channel-typed names across the package (struct fields, vars, params)
	chanNames := map[string]bool{}
	if *l2 {
		for _, f := range parsed {
			collectChanNames(f, chanNames)
		}
	}
	nL2 := 0
	for _, n := range files {
		f := parsed[n]
		b := srcs[n]
		var edits []edit
		doL2 := *l2 && needsL2(f)
		hasVrt := false
		for _, imp := range f.Imports {
			p := imp.Path.Value
			if to, ok := l1[p]; ok {
				edits = append(edits, edit{off(fset, imp.Path.Pos()), off(fset, imp.Path.End()), to})
			}
			if (doL2 || (*l2 && !usesTimers(f))) && p == `"time"` {
				// L2 files get the shim clock together with the channel rewrite; the other
				// files of an L2 build get it when they only read the clock (Now, Since,
				// durations), so that the whole store sees ONE clock that the harness can
				// advance. A file that creates timers or tickers without being channel-
				// rewritten keeps the real package (its channels are real ones).
				edits = append(edits, edit{off(fset, imp.Path.Pos()), off(fset, imp.Path.End()), `"` + vrtPath + `/vtime"`})
			}
			if p == `"`+vrtPath+`"` {
				hasVrt = true
			}
		}
		if doL2 {
			nL2++
			r := &rewriter{fset: fset, src: b, chanNames: chanNames, file: n}
			r.walk(f)
			edits = append(edits, r.edits...)
			if !hasVrt {
				// add the vrt import right after the package clause
				p := off(fset, f.Name.End())
				edits = append(edits, edit{p, p, "\n\nimport vrt \"" + vrtPath + "\"\n"})
			}
		}
		out := apply(b, edits, n)
		if err := os.WriteFile(filepath.Join(*dst, n), out, 0644); err != nil {
			fail("%v", err)
		}
	}
	fmt.Printf("instr: %d files, %d with L2 rewrite\n", len(files), nL2)
}

func fail(format string, a ...any) {
	fmt.Fprintf(os.Stderr, "instr: "+format+"\n", a...)
	os.Exit(3)
}

func copyFile(from, to string) {
	b, err := os.ReadFile(from)
	if err != nil {
		fail("%v", err)
	}
	if err := os.WriteFile(to, b, 0644); err != nil {
		fail("%v", err)
	}
}

func off(fset *token.FileSet, p token.Pos) int { return fset.Position(p).Offset }

func apply(src []byte, edits []edit, name string) []byte {
	sort.SliceStable(edits, func(i, j int) bool {
		if edits[i].start != edits[j].start {
			return edits[i].start < edits[j].start
		}
		return edits[i].end < edits[j].end
	})
	var out []byte
	pos := 0
	for _, e := range edits {
		if e.start < pos {
			fail("INSTRUMENTATION-UNSUPPORTED %s: overlapping rewrite at offset %d", name, e.start)
		}
		out = append(out, src[pos:e.start]...)
		out = append(out, e.text...)
		pos = e.end
	}
	out = append(out, src[pos:]...)
	return out
}

func needsL2(f *ast.File) bool {
	need := false
	ast.Inspect(f, func(n ast.Node) bool {
		switch x := n.(type) {
		case *ast.GoStmt, *ast.ChanType, *ast.SelectStmt, *ast.SendStmt:
			need = true
		case *ast.UnaryExpr:
			if x.Op == token.ARROW {
				need = true
			}
		}
		return !need
	})
	return need
}

func collectChanNames(f *ast.File, names map[string]bool) {
	ast.Inspect(f, func(n ast.Node) bool {
		switch x := n.(type) {
		case *ast.Field:
			if _, ok := x.Type.(*ast.ChanType); ok {
				for _, id := range x.Names {
					names[id.Name] = true
				}
			}
		case *ast.ValueSpec:
			if _, ok := x.Type.(*ast.ChanType); ok {
				for _, id := range x.Names {
					names[id.Name] = true
				}
			}
			for i, v := range x.Values {
				if isMakeChan(v) && i < len(x.Names) {
					names[x.Names[i].Name] = true
				}
			}
		case *ast.AssignStmt:
			for i, v := range x.Rhs {
				if isMakeChan(v) && i < len(x.Lhs) {
					switch l := x.Lhs[i].(type) {
					case *ast.Ident:
						names[l.Name] = true
					case *ast.SelectorExpr:
						names[l.Sel.Name] = true
					}
				}
			}
		case *ast.KeyValueExpr:
			if isMakeChan(x.Value) {
				if id, ok := x.Key.(*ast.Ident); ok {
					names[id.Name] = true
				}
			}
		}
		return true
	})
}

func isMakeChan(e ast.Expr) bool {
	c, ok := e.(*ast.CallExpr)
	if !ok || len(c.Args) == 0 {
		return false
	}
	id, ok := c.Fun.(*ast.Ident)
	if !ok || id.Name != "make" {
		return false
	}
	_, ok = c.Args[0].(*ast.ChanType)
	return ok
}

type rewriter struct {
	fset      *token.FileSet
	src       []byte
	edits     []edit
	chanNames map[string]bool
	file      string
	skip      map[ast.Node]bool
	selN      int
}

func (r *rewriter) o(p token.Pos) int { return off(r.fset, p) }
func (r *rewriter) text(n ast.Node) string {
	return string(r.src[r.o(n.Pos()):r.o(n.End())])
}
func (r *rewriter) add(s, e token.Pos, t string) {
	r.edits = append(r.edits, edit{r.o(s), r.o(e), t})
}
func (r *rewriter) unsupported(n ast.Node, what string) {
	fail("INSTRUMENTATION-UNSUPPORTED %s: %s", r.fset.Position(n.Pos()), what)
}

func (r *rewriter) isChanExpr(e ast.Expr) bool {
	switch x := e.(type) {
	case *ast.Ident:
		return r.chanNames[x.Name]
	case *ast.SelectorExpr:
		return r.chanNames[x.Sel.Name]
	case *ast.ParenExpr:
		return r.isChanExpr(x.X)
	}
	return false
}

func (r *rewriter) walk(f *ast.File) {
	r.skip = map[ast.Node]bool{}
	ast.Inspect(f, func(n ast.Node) bool {
		if n == nil || r.skip[n] {
			return !r.skip[n]
		}
		switch x := n.(type) {
		case *ast.GoStmt:
			// go CALL  ->  vrt.Go(func() { CALL })
			r.add(x.Pos(), x.Call.Pos(), "vrt.Go(func() { ")
			r.add(x.End(), x.End(), " })")
		case *ast.CallExpr:
			if id, ok := x.Fun.(*ast.Ident); ok {
				if id.Name == "make" && len(x.Args) > 0 {
					if ct, ok := x.Args[0].(*ast.ChanType); ok {
						r.skip[ct] = true
						r.add(x.Pos(), ct.Value.Pos(), "vrt.MakeChan[")
						if len(x.Args) > 1 {
							r.add(ct.Value.End(), x.Args[1].Pos(), "](")
						} else {
							r.add(ct.Value.End(), x.Rparen, "](0")
						}
						// the element type may itself contain channel types
						ast.Inspect(ct.Value, func(m ast.Node) bool { return r.visitNested(m) })
						for _, a := range x.Args[1:] {
							ast.Inspect(a, func(m ast.Node) bool { return r.visitNested(m) })
						}
						return false
					}
				}
				if id.Name == "close" && len(x.Args) == 1 {
					r.add(x.Pos(), x.Lparen, "")
					r.add(x.End(), x.End(), ".Close()")
				}
				if (id.Name == "len" || id.Name == "cap") && len(x.Args) == 1 && r.isChanExpr(x.Args[0]) {
					m := ".Len()"
					if id.Name == "cap" {
						m = ".Cap()"
					}
					r.add(x.Pos(), x.Lparen, "")
					r.add(x.End(), x.End(), m)
				}
			}
		case *ast.ChanType:
			r.add(x.Pos(), x.Value.Pos(), "*vrt.Chan[")
			r.add(x.Value.End(), x.Value.End(), "]")
		case *ast.SendStmt:
			r.add(x.Chan.End(), x.Value.Pos(), ".Send(")
			r.add(x.Value.End(), x.Value.End(), ")")
		case *ast.AssignStmt:
			if len(x.Rhs) == 1 && len(x.Lhs) == 2 {
				if u, ok := x.Rhs[0].(*ast.UnaryExpr); ok && u.Op == token.ARROW {
					r.skip[u] = true
					r.add(u.Pos(), u.X.Pos(), "")
					r.add(u.End(), u.End(), ".Recv2()")
					ast.Inspect(u.X, func(m ast.Node) bool { return r.visitNested(m) })
				}
			}
		case *ast.UnaryExpr:
			if x.Op == token.ARROW {
				r.add(x.Pos(), x.X.Pos(), "")
				r.add(x.End(), x.End(), ".Recv()")
			}
		case *ast.RangeStmt:
			if r.isChanExpr(x.X) {
				key := "_"
				if x.Key != nil {
					key = r.text(x.Key)
				}
				if x.Value != nil {
					r.unsupported(x, "range over channel with two variables")
				}
				r.selN++
				okv := fmt.Sprintf("__vrtok%d", r.selN)
				asg := ":="
				if x.Tok == token.ASSIGN {
					asg = "="
					r.add(x.Pos(), x.Body.Lbrace+1, fmt.Sprintf("for { var %s bool; %s, %s %s %s.Recv2(); if !%s { break }; ", okv, key, okv, asg, r.text(x.X), okv))
				} else {
					r.add(x.Pos(), x.Body.Lbrace+1, fmt.Sprintf("for { %s, %s %s %s.Recv2(); if !%s { break }; ", key, okv, asg, r.text(x.X), okv))
				}
				if x.Key != nil {
					r.skip[x.Key] = true
				}
				r.skip[x.X] = true
			}
		case *ast.SelectStmt:
			r.rewriteSelect(x)
		}
		return true
	})
}

// visitNested handles the constructs that may appear inside an expression whose
// enclosing node was rewritten by hand.
func (r *rewriter) visitNested(n ast.Node) bool {
	switch x := n.(type) {
	case *ast.ChanType:
		r.add(x.Pos(), x.Value.Pos(), "*vrt.Chan[")
		r.add(x.Value.End(), x.Value.End(), "]")
	case *ast.UnaryExpr:
		if x.Op == token.ARROW {
			r.add(x.Pos(), x.X.Pos(), "")
			r.add(x.End(), x.End(), ".Recv()")
		}
	case *ast.GoStmt, *ast.SelectStmt, *ast.SendStmt:
		r.unsupported(n, "statement nested in a rewritten expression")
	}
	return true
}

func (r *rewriter) rewriteSelect(s *ast.SelectStmt) {
	r.selN++
	id := r.selN
	hasDefault := false
	var pre []string
	var cases []string
	idx := 0
	for _, cl := range s.Body.List {
		cc := cl.(*ast.CommClause)
		if cc.Comm == nil {
			hasDefault = true
			continue
		}
		head := ""
		switch c := cc.Comm.(type) {
		case *ast.ExprStmt:
			u, ok := c.X.(*ast.UnaryExpr)
			if !ok || u.Op != token.ARROW {
				r.unsupported(cc, "select case form")
			}
			cases = append(cases, fmt.Sprintf("vrt.RecvCase(%s)", r.text(u.X)))
			r.skipTree(c)
		case *ast.SendStmt:
			cases = append(cases, fmt.Sprintf("vrt.SendCase(%s, %s)", r.text(c.Chan), r.text(c.Value)))
			r.skipTree(c)
		case *ast.AssignStmt:
			if len(c.Rhs) != 1 || len(c.Lhs) > 2 {
				r.unsupported(cc, "select case form")
			}
			u, ok := c.Rhs[0].(*ast.UnaryExpr)
			if !ok || u.Op != token.ARROW {
				r.unsupported(cc, "select case form")
			}
			v := fmt.Sprintf("__vrtv%d_%d", id, idx)
			okv := fmt.Sprintf("__vrto%d_%d", id, idx)
			pre = append(pre, fmt.Sprintf("%s, %s := vrt.ZeroOf(%s), false; _, _ = %s, %s; ", v, okv, r.text(u.X), v, okv))
			cases = append(cases, fmt.Sprintf("vrt.RecvCaseTo(%s, &%s, &%s)", r.text(u.X), v, okv))
			tok := ":="
			if c.Tok == token.ASSIGN {
				tok = "="
			}
			if len(c.Lhs) == 2 {
				head = fmt.Sprintf(" %s, %s %s %s, %s; ", r.text(c.Lhs[0]), r.text(c.Lhs[1]), tok, v, okv)
				if c.Tok == token.DEFINE {
					head += fmt.Sprintf("_, _ = %s, %s; ", r.text(c.Lhs[0]), r.text(c.Lhs[1]))
				}
			} else {
				head = fmt.Sprintf(" %s %s %s; ", r.text(c.Lhs[0]), tok, v)
				if c.Tok == token.DEFINE {
					head += fmt.Sprintf("_ = %s; ", r.text(c.Lhs[0]))
				}
			}
			r.skipTree(c)
		default:
			r.unsupported(cc, "select case form")
		}
		r.add(cc.Pos(), cc.Colon+1, fmt.Sprintf("case %d:%s", idx, head))
		idx++
	}
	hd := "false"
	if hasDefault {
		hd = "true"
	}
	args := hd
	if len(cases) > 0 {
		args += ", " + strings.Join(cases, ", ")
	}
	r.add(s.Pos(), s.Body.Lbrace+1, strings.Join(pre, "")+"switch vrt.Select("+args+") {")
}

func (r *rewriter) skipTree(n ast.Node) {
	ast.Inspect(n, func(m ast.Node) bool {
		if m != nil {
			r.skip[m] = true
		}
		return true
	})
}

// usesTimers reports whether the file calls a constructor of the time package whose
// result carries a channel.
func usesTimers(f *ast.File) bool {
	found := false
	ast.Inspect(f, func(n ast.Node) bool {
		if se, ok := n.(*ast.SelectorExpr); ok {
			if id, ok := se.X.(*ast.Ident); ok && id.Name == "time" {
				switch se.Sel.Name {
				case "NewTicker", "NewTimer", "After", "AfterFunc", "Tick":
					found = true
				}
			}
		}
		return !found
	})
	return found
}
