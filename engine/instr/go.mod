module verifinstr

go 1.24.2
