#!/usr/bin/env python3
"""Regenerates the detection matrix (DESIGN.md section A.5) from seeded/*/meta.json,
seeded/history.json (first attempt / what was strengthened; maintained by hand) and
seeded/RESULTS.txt (written by tools/seedall from the current checks)."""
import json, os, re, sys
root = os.path.join(os.path.dirname(os.path.abspath(__file__)), '..')
hist = json.load(open(os.path.join(root, 'seeded/history.json')))
res = {}
for f in sorted(os.listdir(os.path.join(root, 'seeded'))):
    if re.fullmatch(r'RESULTS(\.\d+)?\.txt', f):
        for l in open(os.path.join(root, 'seeded', f)):
            parts = [x.strip() for x in l.split('|', 3)]
            if len(parts) >= 4:
                res[parts[0]] = (parts[1], parts[2], parts[3])
rows = []
caught_first = missed_first = caught_now = 0
for s in sorted(hist, key=lambda x: (x.split('-')[0], {'a': 0, 'b': 1, 'c': 2, 'r2': 3, 'r3': 4, 'r4': 5, 'r5': 6, 'r6': 7, 'r7': 8, 'r8': 9, 'r9': 10, 'r10': 11}[x.split('-')[1]])):
    m = json.load(open(os.path.join(root, 'seeded', s, 'meta.json')))
    summ = re.sub(r'\s+', ' ', m.get('summary', '')).replace('|', '/')
    if len(summ) > 150:
        summ = summ[:147] + '...'
    h = hist[s]
    valid, checks, sig = res.get(s, ('', '', ''))
    now = 'not re-run'
    if checks:
        ok = re.findall(r'check=(C\d+) exit=(\d) violations=(\d+)', checks)
        hit = [c for c, e, v in ok if e == '1' and int(v) > 0]
        now = ('**caught** by ' + '+'.join(hit)) if hit else '**MISSED**'
        if hit:
            caught_now += 1
        first = sig.split(';')[0].replace('|', ' / ')
        if first:
            now += ' (`' + first + '`)'
    if h['first_attempt'].startswith('caught'):
        caught_first += 1
    else:
        missed_first += 1
    rows.append(f"| {s} | {summ} | {h['first_attempt']} | {h['strengthening'] or '-'} | {now} |")
out = []
out.append(f"{len(hist)} seeded changes (ten rounds of fresh sub-agents that saw only the property text and a scratch worktree): "
           f"{caught_first} were reported by the checks as they stood when the change arrived, {missed_first} were not; "
           f"after strengthening, {caught_now} of {len(hist)} are reported by the current checks (quick tier, `tools/seedall`, `seeded/RESULTS*.txt`).\n")
out.append("| seed | change (one line; full text, patch and demonstration in `seeded/<seed>/`) | first attempt | what was added to the check | current checks |")
out.append("|---|---|---|---|---|")
out += rows
text = "\n".join(out) + "\n"
p = os.path.join(root, 'DESIGN.md')
d = open(p).read()
b, e = '<!-- A5-BEGIN -->\n', '<!-- A5-END -->\n'
if b in d:
    d = d[:d.index(b) + len(b)] + text + d[d.index(e):]
    open(p, 'w').write(d)
    print("DESIGN.md A.5 regenerated:", len(rows), "rows")
else:
    sys.stdout.write(text)
