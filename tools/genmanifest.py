#!/usr/bin/env python3
"""Regenerates /verif/MANIFEST.json from the table below (keeps it valid at all times)."""
import json, os
V = os.path.dirname(os.path.dirname(os.path.abspath(__file__)))
props = [json.loads(l) for l in open(os.path.join(V, 'properties.jsonl'))]

HIST = "explicit-state BFS over operation histories on the real implementation with a reference model in lock-step (histmc)"
NOTE = ("Verdict = no member of the stated finite space violates the property (small-scope; bounds in evidence). "
        "Runs on an instrumented copy of /repo's working tree (import redirection only for this check; package-level state of the code under test is re-initialised before every execution); conformance of the copy: the repository's own suite passes on it. Float tolerance 1e-5 relative to the data's unit; ties unspecified.")
C = {}
C["C01"] = dict(engine="histmc", cat="model_checking", technique=HIST,
  text="Every Add/Remove/Flush history up to the depth bound over colliding ids and a tie-rich vector alphabet is executed on the real FlatIndex; in every reached state every query of the alphabet (query x k x threshold x id restriction) is compared with a brute-force float64 oracle. Exhaustive within the bound, nothing sampled. Plus enumerated size dimensions: every n in 1..70/300 with five tails (mass deletes, update of one vector, remove-all-then-add) and large instances (n up to 1030/4100, k up to n); Remove with a node carrying another vector. Plus search-object histories: every sequence of <= 3/4 steps over configuration calls, index-level calls and 'another search object executes'; the object executed after every step must answer like a fresh object given the same calls. Refused adds (zero / wrong-dimension / nil vector) on unused, live and removed ids; instances of 33 000 / 70 000 vectors.",
  note=NOTE)
C["C02"] = dict(engine="histmc", cat="model_checking", technique=HIST,
  text="For each of the five kinds x metric x construction parameters x training set, every Add/Remove/Flush history up to the bound is executed on the real index (HNSW level an enumerated choice); every query / node-id / multi-query observation is judged: live+eligible+distinct hits, kind-defined score (ADC recomputed from private codebooks for PQ/IVFPQ), order, k, node==query, aggregation rule, flush invariance for exhaustive kinds. Plus size sweeps and large instances as in C01 for every kind, prepared search objects re-executed after each operation, Remove with a node carrying data, and refused Train calls before each observation. Plus search-object histories: every sequence of <= 3/4 steps over configuration calls, index-level calls and 'another search object executes'; the object executed after every step must answer like a fresh object given the same calls. Plus the same spaces under affine transforms of the data (scale 2^-20, 2^-40, 2^20; offsets 4096, 2^20, 20000) with tolerances relative to the data's unit. Refused adds on ids of every status; id 0 (bigids base 2^32-1, HNSW excepted); flat instances of 33 000 / 70 000 vectors.",
  note=NOTE + " Approximate kinds are judged for soundness here; completeness is C12/C13/C14.")
C["C06"] = dict(engine="histmc", cat="model_checking", technique=HIST,
  text="Every history over valid and failing Add/AddWithID (failure in the 1st or 3rd sub-index), Remove of live/removed/unknown ids, Flush and re-add of removed ids, on the real hybrid index (5 sub-index configurations) and on each of the seven single indexes; after every transition each modality is probed through the hybrid search and directly on the sub-indexes and compared with a map id->content. Values whose acceptance is the implementation's choice (NaN, 1e300) are included: whichever way the call goes, it must go that way as a whole. Every failing document (incl. a vector whose float32 norm underflows) is also offered on ids that are still live; the caller's metadata map is overwritten right after the call returned.",
  note=NOTE)
C["C12"] = dict(engine="histmc", cat="model_checking", technique=HIST + "; HNSW level and map-order-dependent entry-point re-election are enumerated environment choices",
  text="Every Add(value, level)/Remove(any live id)/Flush(every legal re-elected entry point) history within the bounds on the real HNSWIndex; in every state non-emptiness, exactness under the 2M precondition, and the private-state reachability invariant are evaluated. Plus tails for M in {2,3,4,8,16}: all removed then one added (no flush), all but the last removed, entry point updated, up to 3M+4 / 6M+8 vectors. Plus search-object histories: every sequence of <= 3/4 steps over configuration calls, index-level calls and 'another search object executes'; the object executed after every step must answer like a fresh object given the same calls. (incl. index-level SetEfSearch); id 0 as an explicit id (the second vector inserted).",
  note=NOTE + " One genuine defect is recorded as known finding (pruning heuristic cuts vertices off once a list has overflowed).")
C["C13"] = dict(engine="histmc", cat="model_checking", technique=HIST,
  text="All training sequences over a small alphabet (duplicates, empty clusters, identical centroids) x nlist x metric x dim, then every Add/Remove/Flush history up to the bound; full probe judged against brute force, partial probes against every valid set of p nearest centroids, monotonicity in p, placement invariant, untrained use. Plus large instances (n up to 1030/4100, k up to n) and refused Train calls before each observation. Plus search-object histories: every sequence of <= 3/4 steps over configuration calls, index-level calls and 'another search object executes'; the object executed after every step must answer like a fresh object given the same calls. Plus the same spaces under affine transforms of the data (scale 2^-20, 2^-40, 2^20; offsets 4096, 2^20, 20000) with tolerances relative to the data's unit.",
  note=NOTE)
C["C14"] = dict(engine="histmc", cat="model_checking", technique=HIST,
  text="Every nbits in 1..16 the constructors accept x M x nlist x metric x dim: lattice training, every Add/Remove/Flush history up to the bound; codes, scores, ranking and error bound are recomputed from the private codebooks; both Train preconditions probed at their boundary sizes. Plus large instances and refused Train calls on trained, populated indexes before each observation. Plus the same spaces under affine transforms of the data (scale 2^-20, 2^-40, 2^20; offsets 4096, 2^20, 20000) with tolerances relative to the data's unit. M = 9 .. 33 sub-quantisers.",
  note=NOTE)

C["C03"] = dict(engine="histmc", cat="model_checking", technique=HIST,
  text="Every Add/Replace/Remove/Flush history up to the bound over a text alphabet exercising normalisation and segmentation corner cases is executed on the real BM25 index; every (query, k, restriction) and multi-query/aggregation observation is compared with a from-scratch float64 Okapi BM25 over the not-yet-flushed corpus, and the private running totals with the model's. Plus every Unicode scalar value (and letter x combining-mark pair) as a token, raw / normal-form / upper-cased on either side. Plus search-object histories: every sequence of <= 3/4 steps over configuration calls, index-level calls and 'another search object executes'; the object executed after every step must answer like a fresh object given the same calls. Token / document lengths 1 .. 131 073 (2^20+1) in seven families; hash-colliding term pairs (crc32 x3, adler32, fnv, djb2, java31, sdbm) and anagrams as a corpus; restrictions naming an id twice.",
  note=NOTE + " uax29 / x-text NFKC are trusted as the tokeniser and called directly by the oracle.")
C["C04"] = dict(engine="histmc", cat="model_checking", technique=HIST,
  text="Every Add/Remove history up to the bound over documents mixing all value kinds; in every state every single filter, its Not(), the empty filter list and every filter tree over a basis of up to 6 distinct-answer filters is compared with direct predicate evaluation. Remove is given nodes carrying no / the indexed / another document's / unknown-field metadata. Plus search-object histories: every sequence of <= 3/4 steps over configuration calls, index-level calls and 'another search object executes'; the object executed after every step must answer like a fresh object given the same calls. Operands with a third decimal; document sets of 13 000 / 140 000 with selective AND chains in both leaf orders; the caller's metadata map is overwritten right after Add returned.",
  note=NOTE + " One genuine defect (mixed-sign numeric comparison, root cause in the BSI dependency) is a known finding identified by a witness predicate.")
C["C05"] = dict(engine="histmc", cat="model_checking", technique=HIST,
  text="All 8 sub-index configurations x every AddWithID/Add/Remove history up to the bound; in every state every query of the alphabet (vector x text x filter shape x k x fusion x aggregation) is compared with the composed oracle: model filter set, exact filtered k-NN, reference BM25 top-k, fusion rule, ranking. Plus option pass-through: for each vector kind every k x nProbes x efSearch x threshold x filter combination against a direct search of the wrapped index. Plus search-object histories: every sequence of <= 3/4 steps over configuration calls, index-level calls and 'another search object executes'; the object executed after every step must answer like a fresh object given the same calls. The default fusion (no call) and WithFusionKind are part of the alphabet; every instance customises the object it got from DefaultFusionConfig().",
  note=NOTE + " Queries whose per-modality cut falls on a tie are skipped and counted; three ambiguous corners are accepted either way (listed in evidence assumptions).")

DOM = "exhaustive enumeration of a bounded input lattice on the real functions (domainmc)"
C["C07"] = dict(engine="histmc", cat="model_checking", technique=HIST + "; per state a differential round-trip oracle (source vs reloaded, lock-step continuation)",
  text="For each of the eight kinds, every state reached by Add/Remove/Flush histories up to the bound (plus untrained/empty) is written, read into a fresh index through a counting reader over stream+sentinel, and compared: byte counts, exact consumption, removed ids absent, identical answers, identical behaviour under every further operation. The stream written twice back to back must decode, copy after copy, through *os.File, bufio, bytes.Buffer, strings.Reader, MultiReader and one-byte readers. Plus text indexes whose terms are 255 .. 131 073 (2^20) bytes long and whose terms collide under the usual 32-bit hashes.",
  note=NOTE + " For kinds holding a BM25 index, writing is compared with an explicitly flushed independent copy (WriteTo is specified to flush first and a flush legitimately changes BM25 statistics).")
C["C16"] = dict(engine="domainmc", cat="fault_enumeration", technique="exhaustive enumeration of truncation points and mismatch pairs over every state reached by history BFS (domainmc over histmc states)",
  text="Every strict prefix of the serialisation of every reached state of every kind is fed to a fresh receiver and must be rejected; the complete kind / one-parameter / version / magic mismatch matrix must be rejected; store segments with a truncated, empty or missing component file must contribute nothing. Receivers in the mismatch matrix are also used / tuned (SetEfSearch) / have refused or accepted a read before; a receiver that differs in efSearch alone.",
  note=NOTE)
C["C18"] = dict(engine="domainmc", cat="exploration", technique=DOM,
  text="All vectors over a 16-value magnitude-spanning alphabet (0, IEEE negative zero, 1e-6..1e6 with signs) in dimensions 1-2 (8 values in d=3), all ordered pairs, all triples for the triangle inequality, structured d=64/512 families: every stated law is evaluated on every member. Plus every batch length 0..600/4200 x 4 dimensions x 3 kinds, bit-equal to the scalar call. Scalings 2^-60 .. 2^60; batches whose queries are views into one backing array.",
  note="Exhaustive over the stated lattice only; tolerances 8*d*2^-23 relative to operand magnitudes; runs on the instrumented copy of /repo.")
C["C19"] = dict(engine="domainmc", cat="exploration", technique=DOM,
  text="All result lists up to length 3/4 over ids x scores incl. +-Inf/NaN with every permutation, every k and cutoff, all score lists up to length 5 for autocut, all pairs of 125 score maps for each fusion, all NaN-free lists for merge. Plus fusion OBJECT histories: every sequence of <= 5/6 steps over customise-the-default-configuration / pristine? / build fusions / combine (12 input pairs of sizes 1..90), each Combine judged against the rule of the configuration the object was built with.",
  note="Exhaustive over the stated lattice only; NaN propagation not judged; runs on the instrumented copy of /repo.")
C["C20"] = dict(engine="domainmc", cat="exploration", technique=DOM + " + differential history check (train once vs twice)",
  text="All training sequences over a small lattice x k x maxIter x metric for k-means; all 65536 half bit patterns and all adjacent-half midpoints (thorough: every float32 in the half normal range) for float16; level-boundary sweeps for int8; bit-exactness for float32. Plus every operation sequence of length <= 5/6 over one int8 quantiser object (Train x3, SetAbsMax x3, Quantize, Dequantize) against a fresh quantiser with the same range. k-means also under affine transforms of the training data; convergence = one more iteration changes nothing.",
  note="Exhaustive over the stated lattices only; runs on the instrumented copy of /repo.")

STORE_NOTE = ("Runs on the L1+L2 instrumented copy of /repo (imports of sync, sync/atomic, math/rand/v2, os, time redirected; go/chan/select in the storage files rewritten to internal/vrt) over an in-memory file system with the store's worker and per-segment goroutines as scheduler threads. "
  "Conformance: the repository's suite passes on the rewritten package in pass-through mode. The store wraps every memtable and segment around the SAME template index objects (F12): several genuine consequences are known findings identified by witness predicates; because of that sharing many protocol-level changes are behaviourally invisible on this tree (stated limitation).")
SCHED = "stateless exploration of thread interleavings on the real code under a cooperative scheduler (DFS over choice prefixes, iterative preemption bounding, bounded environment deviations and blocking-switch deviations, state-key pruning, replay self-check) (schedmc)"
C["C08"] = dict(engine="histmc", cat="model_checking", technique=HIST + " + " + SCHED,
  text="Every sequential history over Add/AddWithID/Remove/Flush/Rotate/Drain/Compact/Tick/Evict/Search up to the bound for 3 memtable limits x 2 flush thresholds x 2 compaction thresholds x 2 template sets, and every bounded interleaving of user threads with the background workers in four scenarios; after every transition / on every interleaving every probe query is compared with the set of acknowledged live documents. Plus an Idle operation (the harness advances the store's clock by 1000 h, then the tickers fire), narrow-deep shards (depth 7/8 over add / flush / search / evict / idle) and search-object histories of the store's search object. The canonical key is taken before the observation searches (which load segments).",
  note=STORE_NOTE)
C["C09"] = dict(engine="histmc", cat="model_checking", technique=HIST,
  text="Every multi-session history (add | flush | search)* close-reopen with fresh templates, up to 3/4 sessions, for 3 memtable limits x 3 vector template kinds x 2 template sets; durable documents must be found in every later state; segment file names are never created twice (from the file-system log). Plus a fault sweep: every file-system call of a Flush / of Close's final flush fails in turn (EIO) under 3 base histories x 4 continuations; every nil answer promised durability. Plus identifier neighbourhoods of 10^4..10^15 and 2^16..2^62 with a served-documents probe, and two schedule x crash scenarios: in every bounded interleaving of Flush / Close with the background flush worker the directory is copied at the instant the call returns nil and reopened with fresh templates.",
  note=STORE_NOTE)
C["C10"] = dict(engine="crashmc", cat="fault_enumeration", technique="exhaustive enumeration of crash images (every prefix of the logged file-system operations x every byte prefix of the in-flight write), each reopened and checked on the real code (crashmc)",
  text="For every history in the bound, every possible on-disk image at a process death inside a flush or a compaction is materialised and reopened with fresh templates: open and searches succeed, durable documents are found, the torn segment contributes nothing, identifiers are not reused. For crash points at operation boundaries a second crash is explored: every operation boundary and mid-write point of the recovery flush (directories with two incomplete segments). In-flight operations also include the final flush of Close (frozen / active memtable) and an Open. Plus read-only restarts: session 1 opens, is searched and closes, session 2 flushes - identifiers stay above everything in the crash image.",
  note=STORE_NOTE + " Fault model = process death; power-loss reordering is outside the statement (comet never syncs).")
C["C11"] = dict(engine="schedmc", cat="model_checking", technique=SCHED + "; data races: separate free-running race-detector pass over the same scenario bodies",
  text="Six 3-thread scenarios on one shared instance for each of eight index kinds plus five store scenarios: every interleaving with at most 2 (quick) / 3 (thorough) preemptions (one fewer for the store scenarios) is executed on the real code and judged for panics, deadlocks, spurious failures, visibility and id uniqueness; the race detector runs over free-running executions of the same bodies. Snapshots written by WriteTo during concurrent use (hybrid kind) are read back outside the schedule and judged (not torn; visibility). Plus S12: auto ids across instances interleaved with refused adds.",
  note=STORE_NOTE + " Scheduling points at synchronisation operations; atomics sequentially consistent; the data-race clause is a sampling cross-check, not enumeration.")
C["C17"] = dict(engine="histmc", cat="model_checking", technique=HIST + " + " + SCHED + "; file-system faults injected by (kind, n-th call)",
  text="Every sequence of Open / Open-with-one-injected-fault (5 fault sites) / foreign LOCK / Close / use on 3 handle slots up to the bound, with every public method on every closed handle after each transition; plus every bounded interleaving of Open||Open||Open, Close||Open, Close||Close, Close||use, Add||Close. Open also comes with another subset of templates (may be refused: then a failed open like any other) and through an alias path of the directory (a symbolic link).",
  note=STORE_NOTE)

NA = {
 "C15": "statistical claim over a continuous distribution (i.i.d. Gaussian data, every seed): no bounded enumerable space represents it; its structural causes are decided by C12/C13/C14/C20",
}

checks = []
for p in props:
    i = p["id"]
    if i in C:
        c = C[i]
        checks.append({
            "property_id": i,
            "quick_cmd": f"bin/check {i} quick",
            "thorough_cmd": f"bin/check {i} thorough",
            "evidence_file": f"evidence/{i}.json",
            "replay_cmd_template": f"bin/check {i} --replay {{path}}",
            "engine": c["engine"],
            "level_claimed": {"category": c["cat"], "text": c["text"], "design_ref": f"DESIGN.md §5 {i}"},
            "level_note": c["note"],
            "technique": c["technique"],
        })
na = []
for p in props:
    i = p["id"]
    if i not in C:
        na.append({"property_id": i, "reason": NA.get(i, "check not built yet (construction in progress; see DESIGN.md §5)")})
engines = [
  {"name": "instr+vrt", "path": "engine/", "serves_properties": sorted(C), "kind_free_text": "mechanical source rewrite + verification runtime (cooperative scheduler, shim sync/atomic/rand/time/os)"},
  {"name": "histmc", "path": "harness/zz_verif_core.go", "serves_properties": sorted(i for i in C if C[i]["engine"] == "histmc"), "kind_free_text": "explicit-state BFS over operation histories, real code + reference model in lock-step, canonical-state dedupe"},
  {"name": "schedmc", "path": "harness/zz_verif_sched.go", "serves_properties": sorted(i for i in C if C[i]["engine"] == "schedmc"), "kind_free_text": "stateless exploration of thread interleavings under a cooperative scheduler, iterative preemption bounding"},
  {"name": "crashmc", "path": "harness/zz_verif_crash.go", "serves_properties": sorted(i for i in C if C[i]["engine"] == "crashmc"), "kind_free_text": "enumeration of crash images: every prefix of the logged file-system operations x every byte prefix of the in-flight write"},
  {"name": "domainmc", "path": "harness/zz_verif_domain.go", "serves_properties": sorted(i for i in C if C[i]["engine"] == "domainmc"), "kind_free_text": "exhaustive enumeration of bounded input lattices for pure functions"},
]
engines = [e for e in engines if e["serves_properties"]]
m = {
 "version": 1,
 "setup_cmd": "bin/setup",
 "hooks": {"guard": "verif",
   "enable": "checks copy /repo's non-test sources into a scratch module, redirect the imports of sync, sync/atomic, math/rand/v2, os, path/filepath, io/ioutil (and time + goroutine/channel syntax in the storage files) to shim packages, append to every source file of the copy a generated function that re-initialises its package-level variables (called by the harness before every execution), add in-package harness files tagged //go:build verif and build with -tags verif; nothing is committed to /repo",
   "baseline_off_cmd": "cd /repo && GOFLAGS=-mod=mod GOPROXY=off go test -vet=off -count=1 -timeout 25m ./...",
   "source_commits": [], "add_only": True},
 "engines": engines,
 "checks": checks,
 "not_applicable": na,
 "notes": "See DESIGN.md. Exit codes: 0 held (KNOWN-FINDING lines possible), 1 violation, 3 harness-internal failure. known_findings.jsonl lists genuine defects recorded or fixed.",
}
json.dump(m, open(os.path.join(V, 'MANIFEST.json'), 'w'), indent=1)
print("checks:", [c["property_id"] for c in checks], "n/a:", [n["property_id"] for n in na])
