#!/usr/bin/env python3
"""Refreshes the two numeric columns (states, oracle evaluations) of the table in DESIGN.md
section A.3 from evidence/<id>.json (quick tier)."""
import json, os, re
root = os.path.join(os.path.dirname(os.path.abspath(__file__)), '..')
sup = str.maketrans('0123456789-', '⁰¹²³⁴⁵⁶⁷⁸⁹⁻')
def fmt(n):
    if not n:
        return '—'
    if n < 1000:
        return str(n)
    e = len(str(int(n))) - 1
    m = n / 10 ** e
    ms = ('%.1f' % m).rstrip('0').rstrip('.')
    return (ms + '·' if ms != '1' else '') + '10' + str(e).translate(sup)
p = os.path.join(root, 'DESIGN.md')
d = open(p).read().split('\n')
out = []
for l in d:
    m = re.match(r'^\| (C\d\d) \| ([a-z+]+) \| (.*) \| ([^|]*) \| ([^|]*) \|$', l)
    if m and os.path.exists(os.path.join(root, 'evidence', m.group(1) + '.json')):
        e = json.load(open(os.path.join(root, 'evidence', m.group(1) + '.json')))
        cov = e['coverage']
        st = cov.get('states', 0)
        if m.group(2) == 'domainmc' and st < 1000:
            st = 0
        l = f"| {m.group(1)} | {m.group(2)} | {m.group(3)} | {fmt(st)} | {fmt(cov.get('evaluations', 0))} |"
    out.append(l)
open(p, 'w').write('\n'.join(out))
print('A.3 refreshed')
